"""C20 — sketches: one-sided errors, exact merges, bounded reservoirs, sound Merkle diffs (structural clauses)."""

from __future__ import annotations

import ast

from ..astutil import calls_in, norm_stmt, path_of, unparse, walk_scope, walk_stmts
from ..facts import Fact, atoms, enumerate_paths
from ..report import Ctx
from .common import NotTabulable, OrderEval, always_before, expand, increment_of, ingredients_along, need, node_of, single_defs, stmts_matching

BF = "happysimulator/sketching/bloom_filter.py"
CMS = "happysimulator/sketching/count_min_sketch.py"
HLL = "happysimulator/sketching/hyperloglog.py"
TOPK = "happysimulator/sketching/topk.py"
TD = "happysimulator/sketching/tdigest.py"
RS = "happysimulator/sketching/reservoir.py"
MK = "happysimulator/sketching/merkle_tree.py"

EXPLANATION = (
    "Bloom / Count-Min / HyperLogLog: the update and the query walk the same index range and call the same index helper; the helper hashes "
    "with hashlib over the seed and repr(item) (never the per-process builtin hash); cells move one way only (|= , += non-negative, max) and "
    "the query aggregates with the matching operator (all bits / min); merge refuses sketches whose index-determining parameters differ — every "
    "self._ parameter the index helper (transitively) reads is compared by the guard — and combines cell-wise with | , + , max over the whole "
    "array and adds the totals. TopK implements the three space-saving cases (tracked += ; room → new with error 0; full → evict the minimum and "
    "inherit its count as count base and error). t-digest keeps min/max under strict comparisons, takes min-of-mins / max-of-maxes on merge, "
    "answers q=0/1 with them and clamps merged centroid means between the two means. Reservoir appends while below capacity and otherwise "
    "replaces in place; merge keeps min(k, n). Merkle: diff is empty only for two empty trees or equal hashes at the compared nodes; the leaf hash "
    "depends on key and value; the tree is rebuilt from the data after every change; the split covers all items."
)
RULE_TEXT = "Instances: per sketch × (index agreement, update direction, query aggregate, merge guard, merge combiner), per TopK/t-digest/reservoir/Merkle clause."
NOT_DECIDED = ["TopK error bounds under merge", "t-digest quantile monotonicity in q (numeric interpolation)", "HyperLogLog accuracy", "uniformity of the reservoir",
               "Merkle range coverage for trees of different shape (argued in DESIGN.md, not mechanised)"]
ASSUMPTIONS = ["sha256 is collision-free for the inputs used", "repr(item) identifies the item"]


def _attrs_read(fn) -> set[str]:
    return {path_of(n) for n in walk_scope(fn.node) if isinstance(n, ast.Attribute) and isinstance(n.ctx, ast.Load) and (path_of(n) or "").startswith("self._") and path_of(n).count(".") == 1}


def _guard_params(merge_fn) -> set[str]:
    """self._X compared with other._X in a test whose true branch raises"""
    out = set()
    for s in walk_stmts(merge_fn.node.body):
        if isinstance(s, ast.If) and any(isinstance(b, ast.Raise) for b in s.body):
            def disjuncts(t):
                if isinstance(t, ast.BoolOp) and isinstance(t.op, ast.Or):
                    for v in t.values:
                        yield from disjuncts(v)
                else:
                    yield t
            for d in disjuncts(s.test):
                for f in atoms(d, True):
                    if f.op == "ne":
                        a, b = f.a, f.b
                        for x, y in ((a, b), (b, a)):
                            if x.startswith("self._") and y == "other._" + x[len("self._"):]:
                                out.add(x)
    return out


def _index_sketch(ctx: Ctx, rel: str, cname: str, *, query: str | None, rng: str | None, cell: str, update_ok, combiner: str, derived: dict[str, set[str]]) -> None:
    prog = ctx.prog
    c = prog.cls(rel, cname)
    add, mg, hs = c.methods["add"], c.methods["merge"], c.methods["_hash"]
    # (1) index agreement
    def index_shape(fn):
        """(iteration ranges, hash calls with the iteration variable abstracted) — loops and comprehensions alike"""
        its = []
        for x in walk_scope(fn.node):
            if isinstance(x, ast.For):
                its.append((unparse(x.iter).replace(" ", ""), path_of(x.target)))
            elif isinstance(x, (ast.GeneratorExp, ast.ListComp, ast.SetComp)):
                for g in x.generators:
                    its.append((unparse(g.iter).replace(" ", ""), path_of(g.target)))
        vars_ = {v for _, v in its if v}
        calls = []
        for k in calls_in(fn.node):
            if path_of(k.func) == "self._hash":
                calls.append("self._hash(" + ",".join("$" if path_of(a) in vars_ else unparse(a).replace(" ", "") for a in k.args) + ")")
        return [r for r, _ in its], calls
    loops_a, hcalls_add = index_shape(add)
    if query:
        qf = c.methods[query]
        loops_q, hcalls_q = index_shape(qf)
        ok = hcalls_add == hcalls_q and len(hcalls_add) == 1 and loops_a == loops_q == [rng]
        if not ok and cname == "CountMinSketch":
            sem, why_ = _cms_tabulated(c)
            ok = sem is True
        ctx.ob("C20-1", "G4", qf, f"{cname}: add and {query} index alike", ok, f"{cname}.add and .{query} walk the same range `{rng}` and compute the cell with the same call ({hcalls_add} / {hcalls_q})")
    # (4) deterministic hashing
    txt = unparse(hs.node)
    uses_builtin = any(isinstance(n, ast.Call) and path_of(n.func) == "hash" for n in walk_scope(hs.node))
    ok = "hashlib.sha256" in txt and "repr(item)" in txt and not uses_builtin and "self._seed" in txt or ("self._hash_seeds" in txt and not uses_builtin and "hashlib.sha256" in txt)
    ctx.ob("C20-4", "G7", hs, "hashlib over (seed, repr(item))", bool(ok), f"{cname}._hash derives the cell from hashlib.sha256 over the seed and repr(item) — not from the per-process builtin hash()")
    # (2) update direction
    ctx.ob("C20-2", "G6", add, f"{cname}: cells move one way", update_ok(c), f"{cname}: every write to `{cell}` outside clear() moves the cell one way ({combiner})")
    guard = [s for s in walk_stmts(add.node.body) if isinstance(s, ast.If) and {f.sig for f in atoms(s.test, True)} == {("lt", "count", "0")} and any(isinstance(b, ast.Raise) for b in s.body)]
    ctx.ob("C20-2", "G1", add, guard[0] if guard else None, len(guard) == 1, f"{cname}.add rejects negative counts")
    # (3) merge guard ⊇ parameters the index depends on
    reads = set(_attrs_read(hs))
    for fn in (add,):
        for n in walk_scope(fn.node):
            pass
    work = list(reads)
    closure = set()
    while work:
        a = work.pop()
        if a in closure:
            continue
        closure.add(a)
        for d in derived.get(a, ()):
            work.append(d)
    params = {a for a in closure if a not in derived}
    # the index range / shift parameters used by add itself
    params |= {a for a in _attrs_read(add) if a in ("self._num_hashes", "self._depth", "self._precision", "self._width", "self._size_bits")}
    params -= {cell, "self._total_count", "self._bits_set"}
    guard_p = _guard_params(mg)
    missing = sorted(params - guard_p)
    ctx.ob("C20-3", "G1", mg, f"{cname}: merge guard covers {sorted(params)}", not missing and bool(params),
           f"{cname}.merge refuses a sketch that indexes differently: the parameters the index depends on {sorted(params)} are all compared (guard compares {sorted(guard_p)}; missing {missing})")
    isi = [s for s in mg.node.body if isinstance(s, ast.If) and "isinstance(other" in unparse(s.test) and any(isinstance(b, ast.Raise) for b in s.body)]
    mff = ctx.flow(mg)
    writes = [n for n in mff.cfg.nodes if n.kind == "stmt" and isinstance(n.ast, (ast.Assign, ast.AugAssign)) and cell in unparse(n.ast.targets[0] if isinstance(n.ast, ast.Assign) else n.ast.target)]
    tests = [n for n in mff.cfg.nodes if n.kind == "test" and any(("other._" in f.a + f.b) for f in atoms(n.ast, True))]
    ok = bool(writes) and bool(tests) and len(isi) == 1 and all(not always_before(ctx, mg, lambda x, t=t: x is t, lambda x, w=w: x is w) for t in tests for w in writes)
    ctx.ob("C20-3", "G1", mg, "guard dominates the combine loop", ok, f"{cname}.merge checks type and parameters before touching any cell")
    tot = [s for s in walk_stmts(mg.node.body) if isinstance(s, ast.AugAssign) and path_of(s.target) == "self._total_count" and isinstance(s.op, ast.Add) and unparse(s.value) == "other._total_count"]
    ctx.ob("C20-3", "G9", mg, tot[0] if tot else None, len(tot) == 1, f"{cname}.merge adds the item totals")


def _cms_tabulated(cm) -> tuple[bool | None, str]:
    """Decide CountMinSketch.add / .estimate by evaluating their bodies (OrderEval) on small tables: with a fixed row -> column map h,
    add(item, c) must raise exactly the cells (r, h[r]) of every row by c and estimate(item) must return int(min over r of cell (r, h[r])).
    Independent of how the row loop is written (range(depth), enumerate(rows), a comprehension, min over a list).  None = not tabulable."""
    import itertools
    add, est = cm.methods["add"], cm.methods["estimate"]
    try:
        for depth, width in ((2, 2), (3, 2)):
            for h in itertools.product(range(width), repeat=depth):
                for fill in ((1, 2, 3, 4, 5, 6), (4, 4, 1, 7, 2, 2)):
                    table = [[fill[(r * width + c) % len(fill)] for c in range(width)] for r in range(depth)]
                    before = [list(r_) for r_ in table]
                    def col_of(ev_, e_, h=h, depth=depth, width=width):
                        # the column is a function of the *row number* handed to _hash: a row number outside the table (a shifted index) hashes elsewhere
                        r_ = ev_.ev(e_.args[1])
                        if not isinstance(r_, int):
                            raise NotTabulable("row argument of _hash")
                        return h[r_] if 0 <= r_ < depth else (h[r_ % depth] + 1) % width
                    hook = {"self._hash": col_of}
                    env = {"self._depth": depth, "self._width": width, "self._counters": table, "self._total_count": 0, "item": "x", "count": 5,
                           "self": {"_depth": depth, "_width": width, "_counters": table, "_total_count": 0}}
                    got = OrderEval(dict(env), calls=hook).run(est.node)
                    want = int(min(before[r][h[r]] for r in range(depth)))
                    if got != want:
                        return False, f"estimate on table {before} with columns {h}: returns {got}, the minimum over the rows is {want}"
                    OrderEval(dict(env), calls=hook).run(add.node)
                    exp = [[before[r][c] + (5 if c == h[r] else 0) for c in range(width)] for r in range(depth)]
                    if table != exp:
                        return False, f"add(x, 5) on table {before} with columns {h}: table becomes {table}, expected {exp}"
        return True, "tabulated on 2- and 3-row tables"
    except NotTabulable as exc:
        return None, f"not tabulable ({exc})"


def _bloom_bits_tabulated(sb, gb) -> tuple[bool | None, str]:
    """_set_bit(i) followed by _get_bit(j) answers True exactly for j == i, and touches no other bit (evaluated on three 64-bit words)."""
    idxs = (0, 1, 63, 64, 65, 127, 128, 191)
    try:
        for i in idxs:
            bits = [0, 0, 0]
            OrderEval({"self._bits": bits, "self": {"_bits": bits}, "bit_idx": i, "self._bits_set": 0}).run(sb.node)
            if sum(bin(w).count("1") for w in bits) != 1:
                return False, f"_set_bit({i}) sets {sum(bin(w).count('1') for w in bits)} bits"
            for j in idxs:
                got = OrderEval({"self._bits": bits, "self": {"_bits": bits}, "bit_idx": j}).run(gb.node)
                if bool(got) != (i == j):
                    return False, f"after _set_bit({i}), _get_bit({j}) answers {got}"
        return True, "tabulated on 8 indices over three words"
    except NotTabulable as exc:
        return None, f"not tabulable ({exc})"


def bloom_no_false_negatives(ctx: Ctx, rule: str) -> None:
    """BloomFilter.contains says False only on seeing an unset probe bit (shared with C14: the SSTable read path skips a table on False)."""
    prog = ctx.prog
    bf = prog.cls(BF, "BloomFilter")
    ct = bf.methods["contains"]
    cf = ctx.flow(ct)
    rets = [(s, {k[:3] for k in cf.facts_at(node_of(cf.cfg, s))}) for s in walk_stmts(ct.node.body) if isinstance(s, ast.Return)]
    neg = [s for s, fs in rets if isinstance(s.value, ast.Constant) and s.value.value is False]
    pos = [s for s, fs in rets if isinstance(s.value, ast.Constant) and s.value.value is True]
    allform = [s for s, fs in rets if isinstance(s.value, ast.Call) and path_of(s.value.func) == "all" and len(s.value.args) == 1 and isinstance(s.value.args[0], ast.GeneratorExp)
               and path_of(getattr(s.value.args[0].elt, "func", None)) == "self._get_bit" and not s.value.args[0].generators[0].ifs]
    if allform and len(rets) == 1:
        ok = True
    else:
        ok = len(neg) == 1 and len(pos) == 1 and any(f[0] == "falsy" and f[1].startswith("self._get_bit(") for f in dict(rets)[neg[0]]) and pos[0] in ct.node.body
    ctx.ob(rule, "G3", ct, neg[0] if neg else None, ok, "BloomFilter.contains answers False only on seeing an unset bit and True only after the whole range (no false negatives)")


def rule_index_sketches(ctx: Ctx) -> None:
    prog = ctx.prog

    def bloom_update(c):
        ok = True
        for m in c.methods.values():
            if m.name in ("__init__", "clear"):
                continue
            for s in walk_stmts(m.node.body):
                if isinstance(s, (ast.Assign, ast.AugAssign)):
                    t = s.targets[0] if isinstance(s, ast.Assign) else s.target
                    if unparse(t).startswith("self._bits[") or path_of(t) == "self._bits":
                        if not (isinstance(s, ast.AugAssign) and isinstance(s.op, ast.BitOr)):
                            ok = False
        return ok

    _index_sketch(ctx, BF, "BloomFilter", query="contains", rng="range(self._num_hashes)", cell="self._bits", update_ok=bloom_update, combiner="|=", derived={})
    bf = prog.cls(BF, "BloomFilter")
    sb, gb = bf.methods["_set_bit"], bf.methods["_get_bit"]
    same = all(len(stmts_matching(m, p)) == 1 for m in (sb, gb) for p in ("word_idx = bit_idx // 64", "bit_pos = bit_idx % 64"))
    w = [s for s in walk_stmts(sb.node.body) if isinstance(s, ast.AugAssign) and unparse(s.target).replace(" ", "") == "self._bits[word_idx]" and isinstance(s.op, ast.BitOr) and path_of(s.value) == "mask"]
    mask = stmts_matching(sb, "mask = 1 << bit_pos")
    r = [s for s in walk_stmts(gb.node.body) if isinstance(s, ast.Return)]
    ok = same and len(w) == 1 and len(mask) == 1 and len(r) == 1 and unparse(r[0].value).replace(" ", "") == "bool(self._bits[word_idx]&1<<bit_pos)"
    bsem, bwhy = _bloom_bits_tabulated(sb, gb)
    ok = bsem if bsem is not None else ok
    ctx.ob("C20-1", "G4", sb, "set and get address the same bit", ok, "BloomFilter._set_bit and ._get_bit split a bit index into the same (word, position) and use the same mask")
    bloom_no_false_negatives(ctx, "C20-2")
    mg = bf.methods["merge"]
    lp = [s for s in mg.node.body if isinstance(s, ast.For)]
    ok = len(lp) == 1 and unparse(lp[0].iter).replace(" ", "") == "range(len(self._bits))" and [unparse(s).replace(" ", "") for s in lp[0].body] == ["self._bits[i]|=other._bits[i]"]
    ctx.ob("C20-3", "G9", mg, lp[0] if lp else None, ok, "BloomFilter.merge ORs every word of the other filter into this one")

    def cms_update(c):
        ok = True
        for m in c.methods.values():
            if m.name in ("__init__", "clear"):
                continue
            for s in walk_stmts(m.node.body):
                if isinstance(s, (ast.Assign, ast.AugAssign)):
                    t = s.targets[0] if isinstance(s, ast.Assign) else s.target
                    if unparse(t).startswith("self._counters"):
                        if not (isinstance(s, ast.AugAssign) and isinstance(s.op, ast.Add) and unparse(s.value).replace(" ", "") in ("count", "other._counters[row][col]")):
                            ok = False
        return ok

    _index_sketch(ctx, CMS, "CountMinSketch", query="estimate", rng="range(self._depth)", cell="self._counters", update_ok=cms_update, combiner="+= non-negative",
                  derived={"self._hash_seeds": {"self._seed", "self._depth"}})
    cm = prog.cls(CMS, "CountMinSketch")
    gs = cm.methods["_generate_hash_seeds"]
    ok = _attrs_read(gs) == {"self._depth", "self._seed"} and any(unparse(s).replace(" ", "") == "self._hash_seeds=self._generate_hash_seeds()" for s in walk_stmts(cm.methods["__init__"].node.body))
    ctx.ob("C20-3", "G7", gs, "row seeds derive from (seed, depth) only", ok, "CountMinSketch row seeds are a function of the seed and the depth alone (so comparing those in merge compares the row seeds)")
    es = cm.methods["estimate"]
    agg = [s for s in walk_stmts(es.node.body) if isinstance(s, ast.Assign) and path_of(s.targets[0]) == "min_count" and isinstance(s.value, ast.Call) and path_of(s.value.func) in ("min", "max", "sum")]
    ok = len(agg) == 1 and unparse(agg[0].value).replace(" ", "") == "min(min_count,self._counters[row][col])" and len(stmts_matching(es, "min_count = float('inf')")) == 1
    sem, sem_why = _cms_tabulated(cm)
    ok = sem if sem is not None else ok  # the tabulation decides when the bodies are tabulable; the syntactic form is the fallback
    ctx.ob("C20-2", "G3", es, agg[0] if agg else None, ok, "CountMinSketch.estimate is the minimum over the rows (every row over-counts, so the minimum never under-estimates)" + ("" if ok else f" — {sem_why}"))
    # rows are independent lists: the table is only ever (re)built by a comprehension that creates a fresh row each time
    nb = 0
    for m in cm.methods.values():
        for st in walk_stmts(m.node.body):
            if isinstance(st, (ast.Assign, ast.AnnAssign)):
                t = st.targets[0] if isinstance(st, ast.Assign) else st.target
                if path_of(t) == "self._counters":
                    nb += 1
                    v = st.value
                    ok = isinstance(v, ast.ListComp) and isinstance(v.elt, (ast.BinOp, ast.List, ast.ListComp, ast.Call)) and not (isinstance(v.elt, ast.Name))
                    ctx.ob("C20-2", "G9", m, st, ok, f"CountMinSketch.{m.name} builds the counter table with one fresh row per depth (an outer `[row] * depth` would make every row the same list and each add count depth times)")
    need(nb >= 1, "C20-2: no construction of CountMinSketch._counters found")
    a = cm.methods["add"]
    w = [s for s in walk_stmts(a.node.body) if isinstance(s, ast.AugAssign) and unparse(s.target).replace(" ", "") == "self._counters[row][col]"]
    lp = [s for s in a.node.body if isinstance(s, ast.For)]
    ok = len(w) == 1 and len(lp) == 1 and not any(isinstance(s, (ast.If, ast.Break, ast.Continue, ast.Return)) for s in walk_stmts(lp[0].body))
    ok = sem if sem is not None else ok
    ctx.ob("C20-2", "G2", a, w[0] if w else None, ok, "CountMinSketch.add increments one cell in every row, unconditionally" + ("" if ok else f" — {sem_why}"))
    mg = cm.methods["merge"]
    lp = [s for s in mg.node.body if isinstance(s, ast.For)]
    ok = len(lp) == 1 and unparse(lp[0].iter).replace(" ", "") == "range(self._depth)" and isinstance(lp[0].body[0], ast.For) and unparse(lp[0].body[0].iter).replace(" ", "") == "range(self._width)" \
        and [unparse(s).replace(" ", "") for s in lp[0].body[0].body] == ["self._counters[row][col]+=other._counters[row][col]"]
    ctx.ob("C20-3", "G9", mg, lp[0] if lp else None, ok, "CountMinSketch.merge adds every cell of the other sketch")

    def hll_update(c):
        ok = True
        for m in c.methods.values():
            if m.name in ("__init__", "clear"):
                continue
            for s in walk_stmts(m.node.body):
                if isinstance(s, (ast.Assign, ast.AugAssign)):
                    t = s.targets[0] if isinstance(s, ast.Assign) else s.target
                    if unparse(t).startswith("self._registers"):
                        idx = unparse(t.slice) if isinstance(t, ast.Subscript) else None
                        v = unparse(s.value).replace(" ", "") if isinstance(s, ast.Assign) else ""
                        is_max = bool(idx) and v.startswith("max(") and f"self._registers[{idx}]" in v and v.endswith(")")
                        guarded = False
                        if idx and isinstance(s, ast.Assign):
                            mf_ = ctx.flow(m)
                            guarded = mf_.holds_at(node_of(mf_.cfg, s), Fact("lt", f"self._registers[{idx}]", unparse(s.value)))
                        if not (is_max or guarded):
                            ok = False
        return ok

    _index_sketch(ctx, HLL, "HyperLogLog", query=None, rng=None, cell="self._registers", update_ok=hll_update, combiner="max", derived={"self._num_registers": {"self._precision"}})
    hl = prog.cls(HLL, "HyperLogLog")
    a = hl.methods["add"]
    ok = len(stmts_matching(a, "register_idx = hash_value >> 64 - self._precision")) == 1 and len(stmts_matching(a, "remaining_bits = hash_value & (1 << 64 - self._precision) - 1")) == 1 \
        and len(stmts_matching(a, "run_length = _count_leading_zeros(remaining_bits, 64 - self._precision) + 1")) == 1
    ctx.ob("C20-1", "G7", a, "register index and rank split the hash", ok, "HyperLogLog.add takes the top `precision` bits as the register and the rank from the remaining bits of the same hash")
    mg = hl.methods["merge"]
    lp = [s for s in mg.node.body if isinstance(s, ast.For)]
    ok = len(lp) == 1 and unparse(lp[0].iter).replace(" ", "") == "range(self._num_registers)"
    if ok:
        iv = path_of(lp[0].target)
        ws = [s2 for s2 in walk_stmts(lp[0].body) if isinstance(s2, ast.Assign) and unparse(s2.targets[0]).replace(" ", "") == f"self._registers[{iv}]"]
        mgf = ctx.flow(mg)
        ok = len(ws) == 1 and (unparse(ws[0].value).replace(" ", "") in (f"max(self._registers[{iv}],other._registers[{iv}])", f"max(other._registers[{iv}],self._registers[{iv}])")
                               or (unparse(ws[0].value).replace(" ", "") == f"other._registers[{iv}]" and mgf.holds_at(node_of(mgf.cfg, ws[0]), Fact("lt", f"self._registers[{iv}]", f"other._registers[{iv}]"))))
        ok = ok and not any(isinstance(x, (ast.Break, ast.Continue, ast.Return)) for x in walk_stmts(lp[0].body))
    ctx.ob("C20-3", "G9", mg, lp[0] if lp else None, ok, "HyperLogLog.merge takes the register-wise maximum over all registers")
    init = hl.methods["__init__"]
    ctx.ob("C20-3", "G7", init, "registers = 2^precision", len(stmts_matching(init, "self._num_registers = 1 << precision")) == 1, "the register count is a function of the precision alone")


def rule_topk_tdigest(ctx: Ctx) -> None:
    prog = ctx.prog
    tk = prog.cls(TOPK, "TopK")
    a = tk.methods["add"]
    af = ctx.flow(a)
    bad = []
    kinds = {"tracked": 0, "room": 0, "evict": 0}
    for p in enumerate_paths(af, af.cfg.entry):
        if p.end != "exit":
            continue
        neg = p.decided(lambda t: t == "count<0")
        zero = p.decided(lambda t: t == "count==0")
        if neg is True or zero is True:
            continue
        tracked = p.decided(lambda t: t == "iteminself._counters")
        room = p.decided(lambda t: t == "len(self._counters)<self._k")
        stmts = [unparse(n.ast).replace(" ", "") for n in p.nodes if n.kind == "stmt"]
        if "self._total_count+=count" not in stmts:
            bad.append("total not advanced")
        if tracked is True:
            kinds["tracked"] += 1
            if "self._counters[item].count+=count" not in stmts or any("del" in s or "_Counter(" in s for s in stmts):
                bad.append(f"tracked path: {stmts}")
        elif room is True:
            kinds["room"] += 1
            if "self._counters[item]=_Counter(item=item,count=count,error=0)" not in stmts or any(s.startswith("del") for s in stmts):
                bad.append(f"room path: {stmts}")
        else:
            kinds["evict"] += 1
            want = ["min_counter=min(self._counters.values(),key=lambdac:c.count)", "min_count=min_counter.count", "delself._counters[min_counter.item]", "self._counters[item]=_Counter(item=item,count=min_count+count,error=min_count)"]
            got = [s for s in stmts if s in want]
            if got != want:
                bad.append(f"evict path: {stmts}")
    need(all(kinds.values()), f"C20-5: TopK.add path kinds {kinds}")
    ctx.ob("C20-5", "G3", a, "space-saving update", not bad, f"TopK.add: tracked item += count; free slot → new counter with error 0; full → evict the minimum counter, new count = min + count, error = min ({kinds})" + ("" if not bad else " — " + bad[0]))
    me = tk.methods["max_error"]
    r = [unparse(s.value).replace(" ", "") for s in walk_stmts(me.node.body) if isinstance(s, ast.Return)]
    ctx.ob("C20-5", "G3", me, "max_error = min tracked count", r == ["0", "min((c.countforcinself._counters.values()))"], "an untracked item's error bound is the smallest tracked count")
    ew = tk.methods["estimate_with_error"]
    txt = unparse(ew.node).replace(" ", "")
    ctx.ob("C20-5", "G7", ew, "reported error", "FrequencyEstimate(item=item,count=counter.count,error=counter.error)" in txt and "FrequencyEstimate(item=item,count=0,error=self.max_error())" in txt, "estimates report the tracked counter's own error, or max_error for untracked items")
    gt = tk.methods["guaranteed_threshold"]
    r = [unparse(s.value).replace(" ", "") for s in walk_stmts(gt.node.body) if isinstance(s, ast.Return)]
    ctx.ob("C20-5", "G3", gt, "threshold N // k", r[-1:] == ["self._total_count//self._k"], "the guaranteed-tracking threshold is N // k")

    mg = tk.methods["merge"]
    # every write of a counter's error / count in merge adds the other sketch's contribution (errors add up: each side may over-count independently)
    bad = []
    n_w = 0
    for st in walk_stmts(mg.node.body):
        if isinstance(st, (ast.Assign, ast.AugAssign)):
            t = st.targets[0] if isinstance(st, ast.Assign) else st.target
            if isinstance(t, ast.Attribute) and t.attr in ("error", "count"):
                n_w += 1
                if not (isinstance(st, ast.AugAssign) and isinstance(st.op, ast.Add) and unparse(st.value) == f"counter.{t.attr}"):
                    bad.append(norm_stmt(st))
    errs = [st for st in walk_stmts(mg.node.body) if isinstance(st, ast.AugAssign) and isinstance(st.target, ast.Attribute) and st.target.attr == "error"]
    # per item of the other sketch: the error is added exactly once on every way through the loop body on which the item is tracked
    # afterwards (it may be written once after an if/else or once in each branch)
    mff_ = ctx.flow(mg)
    lps_ = [n_ for n_ in mff_.cfg.nodes if n_.kind == "for" and any(e_ is x_ for e_ in errs for x_ in ast.walk(n_.ast))]
    per_item = bool(errs) and len(lps_) == 1
    if per_item:
        head = lps_[0]
        body_first = next(s_ for s_, lab in head.succ if any(s_.ast is b_ or any(s_.ast is y for y in ast.walk(b_)) for b_ in head.ast.body) ) if head.succ else None
        for p_ in (enumerate_paths(mff_, body_first, stop=lambda x: x is head) if body_first is not None else []):
            if p_.end not in ("stop", "back"):
                continue
            k_ = sum(1 for n_ in p_.nodes if n_.kind == "stmt" and any(n_.ast is e_ for e_ in errs))
            untracked = ("notin", "counter.item", "self._counters") in p_.facts
            if k_ > 1 or (k_ == 0 and not untracked):
                per_item = False
                bad.append(f"error added {k_} time(s) on [{p_.describe()[:100]}]")
    ctx.ob("C20-5", "G9", mg, errs[0] if errs else None, not bad and per_item and n_w >= 2, "TopK.merge adds the other sketch's count and error bound for every item (tracked before or added by the merge): the reported error stays an upper bound"
           + ("" if not bad else " — " + bad[0]))
    td = prog.cls(TD, "TDigest")
    a = td.methods["add"]
    af = ctx.flow(a)
    mn = [s for s in walk_stmts(a.node.body) if isinstance(s, ast.Assign) and path_of(s.targets[0]) == "self._min_value"]
    mx = [s for s in walk_stmts(a.node.body) if isinstance(s, ast.Assign) and path_of(s.targets[0]) == "self._max_value"]
    ok = len(mn) == 1 and len(mx) == 1 and path_of(mn[0].value) == "value" and path_of(mx[0].value) == "value"
    if ok:
        tmn = [s for s in walk_stmts(a.node.body) if isinstance(s, ast.If) and any(x is mn[0] for x in s.body)]
        tmx = [s for s in walk_stmts(a.node.body) if isinstance(s, ast.If) and any(x is mx[0] for x in s.body)]
        ok = len(tmn) == 1 and len(tmx) == 1 and unparse(tmn[0].test).replace(" ", "") == "self._min_valueisNoneorvalue<self._min_value" and unparse(tmx[0].test).replace(" ", "") == "self._max_valueisNoneorvalue>self._max_value"
        # both are evaluated for every added value (top-level statements, before any return other than the count guards)
        ok = ok and tmn[0] in a.node.body and tmx[0] in a.node.body
    ctx.ob("C20-6", "G6", a, mn[0] if mn else None, ok, "TDigest.add lowers the minimum / raises the maximum with every value outside the current range")
    mg = td.methods["merge"]
    mgf = ctx.flow(mg)
    ok = True
    for attr, cmp_txt in (("_min_value", "other._min_value<self._min_value"), ("_max_value", "other._max_value>self._max_value")):
        ws = [nd for nd in mgf.cfg.nodes if nd.kind == "stmt" and isinstance(nd.ast, ast.Assign) and path_of(nd.ast.targets[0]) == f"self.{attr}"]
        if len(ws) != 1 or path_of(ws[0].ast.value) != f"other.{attr}":
            ok = False
            continue
        took = False
        for p in enumerate_paths(mgf, mgf.cfg.entry, stop=lambda x: x is ws[0]):
            if p.end == "stop" and p.nodes[-1] is ws[0]:
                took = True
                has = p.decided(lambda t: t == f"other.{attr}isnotNone")
                none = p.decided(lambda t: t == f"self.{attr}isNone")
                better = p.decided(lambda t: t == cmp_txt)
                if not (has is True and (none is True or better is True)):
                    ok = False
        # and the update is not skipped when it applies: some path with `other` set and self unset / worse reaches the write
        ok = ok and took
    tot = [s for s in walk_stmts(mg.node.body) if isinstance(s, ast.AugAssign) and path_of(s.target) == "self._total_count" and unparse(s.value) == "other._total_count"]
    ext = [c for c in calls_in(mg.node) if path_of(c.func) == "self._centroids.extend" and [path_of(x) for x in c.args] == ["other._centroids"]]
    fl = [path_of(c.func) for c in calls_in(mg.node) if path_of(c.func) in ("self._flush", "other._flush", "self._compress")]
    ctx.ob("C20-6", "G9", mg, tot[0] if tot else None, ok and len(tot) == 1 and len(ext) == 1 and fl == ["self._flush", "other._flush", "self._compress"], "TDigest.merge flushes both buffers, takes all centroids, adds the totals, and keeps min-of-mins / max-of-maxes")
    q = td.methods["quantile"]
    qf = ctx.flow(q)
    r0 = [s for s in walk_stmts(q.node.body) if isinstance(s, ast.Return) and "self._min_value if" in unparse(s.value)]
    r1 = [s for s in walk_stmts(q.node.body) if isinstance(s, ast.Return) and "self._max_value if" in unparse(s.value)]
    ok = len(r0) == 1 and len(r1) == 1 and qf.holds_at(node_of(qf.cfg, r0[0]), Fact("eq", "0", "q")) and qf.holds_at(node_of(qf.cfg, r1[0]), Fact("eq", "1", "q"))
    rng = [s for s in q.node.body if isinstance(s, ast.If) and unparse(s.test).replace(" ", "") == "not0<=q<=1" and any(isinstance(b, ast.Raise) for b in s.body)]
    ctx.ob("C20-6", "G3", q, r0[0] if r0 else None, ok and len(rng) == 1, "TDigest.quantile answers q=0 with the observed minimum and q=1 with the observed maximum, and rejects q outside [0, 1]")
    cm = prog.func(TD, "_Centroid.merge")
    ok = len(stmts_matching(cm, "new_mean = min(max(new_mean, lo), hi)")) == 1 and len(stmts_matching(cm, "total = self.count + other.count")) == 1 and "(self.mean, other.mean) if self.mean <= other.mean else (other.mean, self.mean)" in unparse(cm.node)
    ctx.ob("C20-6", "G6", cm, "merged mean clamped", ok, "a merged centroid's mean is clamped between the two means it came from (means never leave the observed range) and its count is the sum")
    cp_ = td.methods["_compress"]
    cpf = ctx.flow(cp_)
    sorts = [nd for nd in cpf.cfg.nodes if nd.kind == "stmt" and isinstance(nd.ast, ast.Expr) and isinstance(nd.ast.value, ast.Call) and path_of(nd.ast.value.func) == "self._centroids.sort"
             and any(k.arg == "key" and "mean" in unparse(k.value) for k in nd.ast.value.keywords)]
    loops_ = [nd for nd in cpf.cfg.nodes if nd.kind == "for" and path_of(nd.ast.iter) == "self._centroids"]
    okc = len(sorts) == 1 and len(loops_) == 1 and not always_before(ctx, cp_, lambda x: x is sorts[0], lambda x: x is loops_[0])
    ctx.ob("C20-6", "G2", cp_, sorts[0].ast if sorts else None, okc, "TDigest._compress sorts the centroids by mean before its single merging pass — every caller (flush, merge) may hand it an unordered list, and quantile() walks the result in order")
    fl = td.methods["_flush"]
    ok = any(unparse(s).replace(" ", "") == "self._centroids.append(_Centroid(mean=value,count=1))" for s in walk_stmts(fl.node.body)) and any(path_of(c.func) == "self._buffer.clear" for c in calls_in(fl.node)) and any(path_of(c.func) == "self._compress" for c in calls_in(fl.node))
    ctx.ob("C20-6", "G2", fl, "buffer → centroids", ok, "TDigest._flush turns every buffered value into a unit centroid before clearing the buffer")


def rule_reservoir_merkle(ctx: Ctx) -> None:
    prog = ctx.prog
    rs = prog.cls(RS, "ReservoirSampler")
    ao = rs.methods["_add_one"]
    af = ctx.flow(ao)
    ap = [c for c in calls_in(ao.node) if path_of(c.func) == "self._reservoir.append"]
    rep = [s for s in walk_stmts(ao.node.body) if isinstance(s, ast.Assign) and unparse(s.targets[0]).replace(" ", "") == "self._reservoir[j]"]
    ok = len(ap) == 1 and len(rep) == 1 and af.holds_at(node_of(af.cfg, ap[0]), Fact("lt", "len(self._reservoir)", "self._size")) and af.holds_at(node_of(af.cfg, rep[0]), Fact("lt", "j", "self._size")) \
        and af.holds_at(node_of(af.cfg, rep[0]), Fact("le", "self._size", "len(self._reservoir)"))
    others = [m.name for m in rs.methods.values() if m.name not in ("__init__", "_add_one", "merge", "clear") and any(isinstance(c.func, ast.Attribute) and path_of(c.func.value) == "self._reservoir" and c.func.attr in ("append", "extend", "insert", "pop", "remove") for c in calls_in(m.node))]
    ctx.ob("C20-7", "G1", ao, ap[0] if ap else None, ok and not others, "the reservoir grows only while below capacity; once full an item can only replace a slot in place (size = min(k, n))")
    inc = [s for s in ao.node.body if increment_of(s, "self._total_count") == 1]
    ctx.ob("C20-7", "G2", ao, inc[0] if inc else None, len(inc) == 1 and inc[0] in ao.node.body, "every offered item is counted once")
    a = rs.methods["add"]
    lp = [s for s in a.node.body if isinstance(s, ast.For)]
    ok = len(lp) == 1 and unparse(lp[0].iter) == "range(count)" and [unparse(s) for s in lp[0].body] == ["self._add_one(item)"]
    ctx.ob("C20-7", "G2", a, lp[0] if lp else None, ok, "add(item, count) offers the item count times")
    mg = rs.methods["merge"]
    fin = [s for s in walk_stmts(mg.node.body) if isinstance(s, ast.Assign) and path_of(s.targets[0]) == "self._reservoir"]
    lp = [s for s in mg.node.body if isinstance(s, ast.For)]
    ok = len(fin) == 1 and unparse(fin[0].value).replace(" ", "") == "new_reservoir[:self._size]" and len(lp) == 1 and unparse(lp[0].iter).replace(" ", "") == "range(min(self._size,combined_total))" \
        and len(stmts_matching(mg, "self._total_count = combined_total")) == 1 and len(stmts_matching(mg, "combined_total = self._total_count + other._total_count")) == 1
    apps = [c for c in calls_in(lp[0]) if path_of(c.func) == "new_reservoir.append"] if lp else []
    one_per_iter = bool(apps) and bool(lp)
    if one_per_iter:
        rff_ = ctx.flow(mg)
        head = next(n_ for n_ in rff_.cfg.nodes if n_.kind == "for" and n_.ast is lp[0])
        app_nodes = [node_of(rff_.cfg, c) for c in apps]
        first = next((s_ for s_, _ in head.succ if any(s_.ast is y for b_ in lp[0].body for y in ast.walk(b_))), None)
        for p_ in (enumerate_paths(rff_, first, stop=lambda x: x is head) if first is not None else []):
            if p_.end in ("stop", "back") and sum(1 for n_ in p_.nodes if n_ in app_nodes) != 1:
                one_per_iter = False
    ok = ok and one_per_iter and _guard_params(mg) == {"self._size"}
    ctx.ob("C20-7", "G1", mg, fin[0] if fin else None, ok, "merging two reservoirs of equal capacity draws min(k, n1 + n2) items, one per iteration, and records the combined stream length")
    # Merkle
    mt = prog.cls(MK, "MerkleTree")
    df = mt.methods["diff"]
    dff = ctx.flow(df)
    empties = [s for s in walk_stmts(df.node.body) if isinstance(s, ast.Return) and isinstance(s.value, ast.List) and not s.value.elts]
    ok = len(empties) == 2
    for s in empties:
        fs = {k[:3] for k in dff.facts_at(node_of(dff.cfg, s))}
        ok = ok and ((("is", "self._root", "None") in fs and ("is", "other._root", "None") in fs) or ("eq", "other._root.hash", "self._root.hash") in fs or ("eq", "self._root.hash", "other._root.hash") in fs)
    last = df.node.body[-1]
    ok = ok and isinstance(last, ast.Return) and unparse(last.value) == "_diff_nodes(self._root, other._root)"
    ctx.ob("C20-8", "G1", df, empties[0] if empties else None, ok, "MerkleTree.diff reports no difference only for two empty trees or equal root hashes; otherwise it compares the roots")
    dn = prog.func(MK, "_diff_nodes")
    dnf = ctx.flow(dn)
    bad = []
    kinds = {"equal": 0, "leaf": 0, "descend": 0}
    for p in enumerate_paths(dnf, dnf.cfg.entry):
        if p.end != "exit":
            continue
        rets = [nd.ast for nd in p.nodes if nd.kind == "stmt" and isinstance(nd.ast, ast.Return)]
        if not rets:
            bad.append("path without return")
            continue
        rv = rets[-1].value
        same = p.decided(lambda t: t == "a.hash==b.hash")
        la, lb = p.decided(lambda t: t == "a.is_leaf"), p.decided(lambda t: t == "b.is_leaf")
        rec = sorted(unparse(c).replace(" ", "") for nd in p.nodes for e in __import__("hsverif.cfg", fromlist=["own_exprs"]).own_exprs(nd) for c in walk_scope(e) if isinstance(c, ast.Call) and path_of(c.func) == "_diff_nodes")
        if isinstance(rv, ast.List) and not rv.elts:
            kinds["equal"] += 1
            if same is not True:
                bad.append(f"[{p.describe()[:80]}] reports no difference without equal hashes")
        elif isinstance(rv, ast.List) and len(rv.elts) == 1 and unparse(rv.elts[0]).replace(" ", "") == "KeyRange(start=start,end=end)":
            kinds["leaf"] += 1
            if same is not False or not (la is True or lb is True):
                bad.append(f"[{p.describe()[:80]}] union range returned although neither node is a leaf / hashes equal")
        elif path_of(rv) is not None or (isinstance(rv, ast.BinOp) and isinstance(rv.op, ast.Add)):
            kinds["descend"] += 1
            if same is not False or la is not False or lb is not False or rec != ["_diff_nodes(a.left,b.left)", "_diff_nodes(a.right,b.right)"]:
                bad.append(f"[{p.describe()[:80]}] descent does not compare both child pairs ({rec})")
            # both recursive results reach the returned list, however it is assembled (extend twice, `left + right`, ...)
            _, rts = ingredients_along(p.nodes)
            ing = {i_.replace(" ", "") for i_ in (rts[-1][1] if rts else set())}
            if not {"_diff_nodes(a.left,b.left)", "_diff_nodes(a.right,b.right)"} <= ing:
                bad.append(f"not both child results are kept (returned list holds {sorted(ing)})")
        else:
            bad.append(f"unrecognised return `{unparse(rv)}`")
    okl = len(stmts_matching(dn, "start = min(a.key_range.start, b.key_range.start)")) == 1 and len(stmts_matching(dn, "end = max(a.key_range.end, b.key_range.end)")) == 1
    ctx.ob("C20-8", "G1", dn, "prune / leaf / descend", not bad and all(kinds.values()) and okl,
           f"_diff_nodes prunes a pair only on equal hashes, reports the union of both ranges when either side is a leaf, and otherwise descends into both child pairs and keeps both results ({kinds})" + ("" if not bad else " — " + bad[0]))
    ctx.ob("C20-8", "G2", dn, "both child results kept", not any("kept" in b or "both child" in b for b in bad), "the differences of both child pairs are collected unconditionally and returned")
    hl = prog.func(MK, "_hash_leaf")
    txt = unparse(hl.node)
    ctx.ob("C20-8", "G7", hl, "leaf hash covers key and value", "{key}" in txt and "{value!r}" in txt and "hashlib.sha256" in txt, "a leaf's hash depends on the key and on the value (a changed value changes the hash)")
    hc = prog.func(MK, "_hash_children")
    txt = unparse(hc.node)
    ctx.ob("C20-8", "G7", hc, "inner hash covers both children in order", "{left_hash}|{right_hash}" in txt and "hashlib.sha256" in txt, "an inner node's hash depends on both children, in order")
    bt = prog.func(MK, "_build_tree")
    ok = len(stmts_matching(bt, "mid = len(sorted_items) // 2")) == 1 and len(stmts_matching(bt, "left = _build_tree(sorted_items[:mid])")) == 1 and len(stmts_matching(bt, "right = _build_tree(sorted_items[mid:])")) == 1 \
        and "hash=_hash_children(left.hash, right.hash)" in unparse(bt.node) and "KeyRange(start=left.key_range.start, end=right.key_range.end)" in unparse(bt.node)
    ctx.ob("C20-8", "G2", bt, "split covers all items", ok, "_build_tree splits the sorted items into [:mid] and [mid:] (nothing dropped), hashes both halves in order and spans their ranges")
    up = mt.methods["update"]
    uf = ctx.flow(up)
    bad = []
    for p in enumerate_paths(uf, uf.cfg.entry):
        if p.end != "exit":
            continue
        wrote = any(n.kind == "stmt" and isinstance(n.ast, ast.Assign) and unparse(n.ast.targets[0]).replace(" ", "") == "self._data[key]" and path_of(n.ast.value) == "value" for n in p.nodes)
        if not wrote:
            known = p.decided(lambda t: t == "keyinself._data")
            same = p.decided(lambda t: t in ("self._data[key]==value", "value==self._data[key]"))
            if not (known is True and same is True):
                bad.append(p.describe()[:140] or "<unconditional>")
    ctx.ob("C20-8", "G2", up, "every update reaches the map", not bad, "MerkleTree.update records the value on every path (a skip is sound only for a key that is present with an equal value — `.get(key) == value` also matches an absent key updated to None)"
           + ("" if not bad else " — " + bad[0]))
    for q in ("update", "remove", "build"):
        fn = mt.methods[q]
        ff = ctx.flow(fn)
        target = "tree" if q == "build" else "self"
        writes = [n for n in ff.cfg.nodes if n.kind == "stmt" and ((isinstance(n.ast, ast.Assign) and unparse(n.ast.targets[0]).startswith(f"{target}._data")) or (isinstance(n.ast, ast.Delete) and f"{target}._data" in unparse(n.ast)))]
        roots = [n for n in ff.cfg.nodes if n.kind == "stmt" and isinstance(n.ast, ast.Assign) and path_of(n.ast.targets[0]) == f"{target}._root"]
        ok = bool(writes) and bool(roots)
        # every path from a data write to the function exit assigns the root afterwards
        for w in writes:
            for p in enumerate_paths(ff, w):
                if p.end == "exit" and not any(n in roots for n in p.nodes[1:]):
                    ok = False
        sd_ = single_defs(fn)
        src = [unparse(expand(n.ast.value, sd_)).replace(" ", "") for n in roots]
        built = (f"_build_tree(sorted({target}._data.items(),key=lambdakv:kv[0]))", "_build_tree(sorted(data.items(),key=lambdakv:kv[0]))")
        ok = ok and all(s in built + ("None",) for s in src) and any(s in built for s in src)
        ctx.ob("C20-8", "G2", fn, writes[0].ast if writes else None, ok, f"MerkleTree.{q}: after the data changes the root is rebuilt from all items in key order (the root hash always describes the current map)")


def rule_tdigest_sorted_invariant(ctx: Ctx) -> None:
    """C20-6: queries walk `self._centroids` assuming it is sorted by mean; only `_compress()` sorts.  Every method that grows or replaces the
    centroid list therefore calls `_compress()` afterwards on every path to its exit (`_compress` itself, the constructor and `clear` aside)."""
    prog = ctx.prog
    td = prog.cls(TD, "TDigest")
    n = 0
    for m in td.methods.values():
        if m.name in ("__init__", "_compress", "clear"):
            continue
        mf = ctx.flow(m)
        grows = [nd for nd in mf.cfg.nodes if nd.kind in ("stmt",) and (
            any(path_of(k.func) in ("self._centroids.append", "self._centroids.extend", "self._centroids.insert") for k in calls_in(nd.ast))
            or (isinstance(nd.ast, (ast.Assign, ast.AugAssign)) and any(path_of(t_) == "self._centroids" or (isinstance(t_, ast.Subscript) and path_of(t_.value) == "self._centroids")
                                                                     for t_ in (nd.ast.targets if isinstance(nd.ast, ast.Assign) else [nd.ast.target]))))]
        for g in grows:
            n += 1
            bad = []
            for p_ in enumerate_paths(mf, g, stop=lambda x: x is mf.cfg.exit):
                if p_.end not in ("exit", "stop"):
                    continue  # exceptional exits and loop back edges (the next iteration's paths are enumerated from the same node)
                if not any(nd.kind == "stmt" and any(path_of(k.func) == "self._compress" for k in calls_in(nd.ast)) for nd in p_.nodes[1:]):
                    bad.append(p_.describe()[:80])
            ctx.ob("C20-6", "G2", m, g.ast, not bad, f"TDigest.{m.name}: after `{norm_stmt(g.ast)[:60]}` the list is re-sorted and re-compressed (`self._compress()`) before the method returns — "
                   "quantile()/cdf() read the centroids in list order")
    need(n >= 2, f"C20-6: expected >= 2 places that grow the centroid list (_flush, merge), found {n}")


def rule_merged_total_is_sum(ctx: Ctx) -> None:
    """C20-5: a merged sketch stands for the concatenated stream, so its stream length N is the *sum* of both lengths, however the counters are
    combined (N/k, the tracking threshold, is derived from it).  TopK.merge replays the other sketch through add(), which itself moves
    the total (also for own items evicted and re-added during the replay): the total is therefore computed before the replay from the two
    totals and assigned after it."""
    prog = ctx.prog
    mg = prog.func(TOPK, "TopK.merge")
    ff = ctx.flow(mg)
    sums = [nd for nd in ff.cfg.nodes if nd.kind == "stmt" and isinstance(nd.ast, ast.Assign) and unparse(nd.ast.value).replace(" ", "") in ("self._total_count+other._total_count", "other._total_count+self._total_count")]
    loops = [nd for nd in ff.cfg.nodes if nd.kind == "for" and "other._counters" in unparse(nd.ast.iter)]
    finals = [nd for nd in ff.cfg.nodes if nd.kind == "stmt" and isinstance(nd.ast, (ast.Assign, ast.AugAssign)) and path_of(nd.ast.targets[0] if isinstance(nd.ast, ast.Assign) else nd.ast.target) == "self._total_count"]
    ok = len(sums) == 1 and len(loops) == 1 and len(finals) == 1 and isinstance(finals[0].ast, ast.Assign) and path_of(finals[0].ast.value) == path_of(sums[0].ast.targets[0])
    if ok:
        ok = not always_before(ctx, mg, lambda x: x is sums[0], lambda x: x is loops[0]) and finals[0].in_loops == () and not always_before(ctx, mg, lambda x: x is loops[0], lambda x: x is finals[0])
    ctx.ob("C20-5", "G2", mg, finals[0].ast if finals else None, ok, "TopK.merge: the merged stream length is `self._total_count + other._total_count`, taken before the replay and assigned after it")


COLL = "happysimulator/components/sketching/"


def _self_writes(fn) -> set[str]:
    """self attributes a method writes: assignment, augmented assignment, item store, or a mutating call on the attribute"""
    out = set()
    for st in walk_stmts(fn.node.body):
        tg = st.targets if isinstance(st, ast.Assign) else [st.target] if isinstance(st, (ast.AnnAssign, ast.AugAssign)) else []
        for t in tg:
            for e in (t.elts if isinstance(t, ast.Tuple) else [t]):
                while isinstance(e, ast.Subscript):
                    e = e.value
                p_ = path_of(e)
                if p_ and p_.startswith("self.") and p_.count(".") == 1:
                    out.add(p_.split(".")[1])
    for k in calls_in(fn.node):
        if isinstance(k.func, ast.Attribute) and k.func.attr in ("append", "extend", "insert", "pop", "clear", "sort", "update", "add", "discard", "remove", "setdefault", "popitem"):
            e = k.func.value
            while isinstance(e, ast.Subscript):
                e = e.value
            p_ = path_of(e)
            if p_ and p_.startswith("self.") and p_.count(".") == 1:
                out.add(p_.split(".")[1])
    return out


def rule_memo_invalidation_and_collectors(ctx: Ctx) -> None:
    """C20-9: (a) a sketch that memoises an answer (`self._cached = <computed>; return self._cached`) drops the memo in *every* method that
    changes the state the answer is computed from — add, merge, clear alike; otherwise a query after a merge returns the pre-merge answer
    although the registers are those of the union.  (b) the collector entities hand what their extractors return to the sketch unchanged:
    the only filter is `value is not None`, and a weight of 0 stays 0 (`x or 1` would count an empty occurrence as one)."""
    prog = ctx.prog
    n_cls = n_memo = 0
    for rel in (BF, CMS, HLL, TOPK, TD, RS, MK):
        for c in prog.module(rel).classes.values() if hasattr(prog.module(rel), "classes") else []:
            n_cls += 1
            methods = [m for m in c.methods.values() if m.name not in ("__init__", "__post_init__")]
            for q in methods:
                returned = {path_of(s_.value).split(".")[1] for s_ in walk_stmts(q.node.body) if isinstance(s_, ast.Return) and (path_of(s_.value) or "").startswith("self.") and path_of(s_.value).count(".") == 1}
                memo = returned & {a for a in _self_writes(q)}
                for a in sorted(memo):
                    n_memo += 1
                    deps = {x.attr for x in walk_scope(q.node, include_root=False) if isinstance(x, ast.Attribute) and path_of(x.value) == "self" and isinstance(x.ctx, ast.Load)} - {a}
                    for m in methods:
                        if m is q:
                            continue
                        w = _self_writes(m)
                        touched = sorted(w & deps)
                        if touched:
                            ctx.ob("C20-9", "G2", m, None, a in w, f"{c.name}.{m.name} changes {touched}, from which {q.name}() computes the memoised `self.{a}`: it resets the memo as well")
    need(n_cls >= 7, f"C20-9: expected the seven sketch classes, scanned {n_cls}")
    ctx.ob("C20-9", "G2", None, "memoised answers", True, f"{n_cls} sketch classes scanned, {n_memo} memoised answer(s): each is reset by every method that changes its inputs", relpath="happysimulator/sketching/")
    n = 0
    for rel, cname, sk in ((COLL + "sketch_collector.py", "SketchCollector", "self._sketch"), (COLL + "topk_collector.py", "TopKCollector", "self._topk"), (COLL + "quantile_estimator.py", "QuantileEstimator", "self._tdigest")):
        fn = prog.cls(rel, cname).methods["handle_event"]
        sd = single_defs(fn)
        ff = ctx.flow(fn)
        adds = [k for k in calls_in(fn.node) if path_of(k.func) == f"{sk}.add"]
        need(adds, f"C20-9: {cname}.handle_event never adds to {sk}")
        for k in adds:
            n += 1
            vals = [expand(a, sd) for a in k.args] + [expand(kw.value, sd) for kw in k.keywords]
            ok = all(isinstance(v, ast.Call) and (path_of(v.func) or "").startswith("self._") and path_of(v.func).endswith("_extractor") and [path_of(a) for a in v.args] == ["event"] for v in vals)
            nd = node_of(ff.cfg, k)
            guards = {f for f in ff.facts_at(nd).keys() if f[0] not in ("isnot",) or f[2] != "None"}
            guards = {g for g in guards if not (g[0] == "eq" and g[1].startswith("self._") )}
            ctx.ob("C20-9", "G7", fn, k, ok and not {g for g in guards if g[0] in ("truthy", "falsy", "lt", "le") },
                   f"{cname}: what the extractors return goes to `{sk}.add` unchanged, filtered only by `is not None` (no truthiness test, no `or default`: a value or weight of 0 is data)")
    ctx.floor("C20-9", 5)


def run(ctx: Ctx) -> None:
    ctx.guarded(rule_memo_invalidation_and_collectors)
    ctx.guarded(rule_merged_total_is_sum)
    ctx.guarded(rule_tdigest_sorted_invariant)
    ctx.guarded(rule_index_sketches)
    ctx.guarded(rule_topk_tdigest)
    ctx.guarded(rule_reservoir_merkle)
    for r, k in (("C20-1", 4), ("C20-2", 10), ("C20-3", 14), ("C20-4", 3), ("C20-5", 5), ("C20-6", 6), ("C20-7", 4), ("C20-8", 10)):
        ctx.floor(r, k)


MUTANTS = [
    ("topk-collector-zero-weight-becomes-one", COLL + "topk_collector.py", "                count = self._count_extractor(event)\n", "                count = self._count_extractor(event) or 1\n", "C20-9"),
    ("sketch-collector-skips-falsy-values", COLL + "sketch_collector.py", "        value = self._value_extractor(event)\n\n        if value is not None:\n            if self._weight_extractor", "        value = self._value_extractor(event)\n\n        if value:\n            if self._weight_extractor", "C20-9"),
    ("hll-cardinality-memo-survives-merge", HLL, ["        self._total_count = 0\n\n    @property\n    def precision", "        m = self._num_registers\n        alpha = self._alpha()\n", "        return int(raw_estimate)\n"],
     ["        self._total_count = 0\n        self._cached = None\n\n    @property\n    def precision", "        if self._cached is not None:\n            return self._cached\n        m = self._num_registers\n        alpha = self._alpha()\n", "        self._cached = int(raw_estimate)\n        return self._cached\n"], "C20-9"),
    ("topk-merge-total-from-replay", TOPK, "        self._total_count = combined_total\n", "        self._total_count += other._total_count - sum(c.count for c in other._counters.values())\n", "C20-5"),
    ("tdigest-weighted-add-appends-unsorted", TD, "    def _flush(self) -> None:", "    def add_weighted(self, value: float, count: int) -> None:\n        self._flush()\n        self._centroids.append(_Centroid(mean=value, count=count))\n        self._total_count += count\n\n    def _flush(self) -> None:", "C20-6"),
    ("tdigest-compress-does-not-sort", TD, "        # Sort centroids by mean\n        self._centroids.sort(key=lambda c: c.mean)\n", "", "C20-6"),
    ("topk-merge-error-max", TOPK, "                self._counters[counter.item].error += counter.error\n            else:", "                self._counters[counter.item].error = max(self._counters[counter.item].error, counter.error)\n            else:", "C20-5"),
    ("cms-clear-aliases-rows", CMS, "        for row in range(self._depth):\n            for col in range(self._width):\n                self._counters[row][col] = 0\n        self._total_count = 0", "        self._counters = [[0] * self._width] * self._depth\n        self._total_count = 0", "C20-2"),
    ("merkle-update-skips-equal-get", MK, "        self._data[key] = value\n        if self._data:", "        if self._data.get(key) == value:\n            return\n        self._data[key] = value\n        if self._data:", "C20-8"),
    ("bloom-contains-fewer-hashes", BF, "        for i in range(self._num_hashes):\n            bit_idx = self._hash(item, i)\n            if not self._get_bit(bit_idx):", "        for i in range(self._num_hashes + 1):\n            bit_idx = self._hash(item, i)\n            if not self._get_bit(bit_idx):", "C20-1"),
    ("bloom-get-bit-other-word-size", BF, "        word_idx = bit_idx // 64\n        bit_pos = bit_idx % 64\n        return bool(", "        word_idx = bit_idx // 32\n        bit_pos = bit_idx % 64\n        return bool(", "C20-1"),
    ("bloom-hash-builtin", BF, "        h.update(repr(item).encode(\"utf-8\"))\n        digest = h.digest()", "        h.update(str(hash(item)).encode(\"utf-8\"))\n        digest = h.digest()", "C20-4"),
    ("bloom-merge-and", BF, "            self._bits[i] |= other._bits[i]", "            self._bits[i] &= other._bits[i]", "C20-2"),
    ("bloom-merge-ignores-seed", BF, "        if other._seed != self._seed:\n            raise ValueError(f\"Cannot merge: seeds differ ({self._seed} vs {other._seed})\")\n\n        # OR the bit arrays", "        # OR the bit arrays", "C20-3"),
    ("bloom-merge-half", BF, "        for i in range(len(self._bits)):\n            self._bits[i] |= other._bits[i]", "        for i in range(len(self._bits) // 2):\n            self._bits[i] |= other._bits[i]", "C20-3"),
    ("bloom-contains-any", BF, "            if not self._get_bit(bit_idx):\n                return False\n        return True", "            if self._get_bit(bit_idx):\n                return True\n        return False", "C20-2"),
    ("cms-estimate-max", CMS, "            min_count = min(min_count, self._counters[row][col])", "            min_count = max(min_count, self._counters[row][col]) if min_count != float(\"inf\") else self._counters[row][col]", "C20-2"),
    ("cms-add-accepts-negative", CMS, "        if count < 0:\n            raise ValueError(f\"count must be non-negative, got {count}\")\n        if count == 0:\n            return\n\n        self._total_count += count\n\n        for row in range(self._depth):", "        if count == 0:\n            return\n\n        self._total_count += count\n\n        for row in range(self._depth):", "C20-2"),
    ("cms-add-conservative-update", CMS, "            col = self._hash(item, row)\n            self._counters[row][col] += count", "            col = self._hash(item, row)\n            if self._counters[row][col] < self._total_count:\n                self._counters[row][col] += count", "C20-2"),
    ("cms-merge-ignores-seed", CMS, "        if self._seed != other._seed:\n            raise ValueError(f\"Cannot merge: seeds differ ({self._seed} vs {other._seed})\")\n", "", "C20-3"),
    ("cms-merge-max", CMS, "                self._counters[row][col] += other._counters[row][col]", "                self._counters[row][col] = max(self._counters[row][col], other._counters[row][col])", "C20-2"),
    ("cms-hash-builtin", CMS, "        h.update(repr(item).encode(\"utf-8\"))\n        return struct.unpack(\">Q\", h.digest()[:8])[0] % self._width", "        return (hash(item) ^ self._hash_seeds[row]) % self._width", "C20-4"),
    ("cms-estimate-other-index", CMS, "        for row in range(self._depth):\n            col = self._hash(item, row)\n            min_count = min(", "        for row in range(self._depth):\n            col = self._hash(item, row + 1)\n            min_count = min(", "C20-1"),
    ("hll-merge-ignores-seed", HLL, "        if other._seed != self._seed:\n            raise ValueError(f\"Cannot merge: seeds differ ({self._seed} vs {other._seed})\")\n", "", "C20-3"),
    ("hll-merge-sum", HLL, "            self._registers[i] = max(self._registers[i], other._registers[i])", "            self._registers[i] = self._registers[i] + other._registers[i]", "C20-2"),
    ("hll-add-overwrites", HLL, "        self._registers[register_idx] = max(self._registers[register_idx], run_length)", "        self._registers[register_idx] = run_length", "C20-2"),
    ("hll-merge-no-total", HLL, "            self._registers[i] = max(self._registers[i], other._registers[i])\n        self._total_count += other._total_count", "            self._registers[i] = max(self._registers[i], other._registers[i])", "C20-3"),
    ("topk-evict-error-zero", TOPK, "                count=min_count + count,\n                error=min_count,", "                count=min_count + count,\n                error=0,", "C20-5"),
    ("topk-evict-no-inherit", TOPK, "                count=min_count + count,\n                error=min_count,", "                count=count,\n                error=min_count,", "C20-5"),
    ("topk-room-off-by-one", TOPK, "        elif len(self._counters) < self._k:", "        elif len(self._counters) <= self._k:", "C20-5"),
    ("topk-evicts-max", TOPK, "            min_counter = min(self._counters.values(), key=lambda c: c.count)", "            min_counter = max(self._counters.values(), key=lambda c: c.count)", "C20-5"),
    ("tdigest-min-only-first", TD, "        if self._min_value is None or value < self._min_value:\n            self._min_value = value", "        if self._min_value is None:\n            self._min_value = value", "C20-6"),
    ("tdigest-merge-keeps-own-max", TD, "        if other._max_value is not None and (\n            self._max_value is None or other._max_value > self._max_value\n        ):\n            self._max_value = other._max_value\n", "", "C20-6"),
    ("tdigest-centroid-mean-unclamped", TD, "        new_mean = min(max(new_mean, lo), hi)\n", "", "C20-6"),
    ("tdigest-quantile-zero-first-centroid", TD, "        if q == 0:\n            return self._min_value if self._min_value is not None else self._centroids[0].mean", "        if q == 0:\n            return self._centroids[0].mean", "C20-6"),
    ("reservoir-appends-at-capacity", RS, "        if len(self._reservoir) < self._size:\n            # Reservoir not full - add directly\n            self._reservoir.append(item)", "        if len(self._reservoir) <= self._size:\n            self._reservoir.append(item)", "C20-7"),
    ("reservoir-replace-unbounded", RS, "            if j < self._size:\n                self._reservoir[j] = item", "            if j <= self._size:\n                self._reservoir[j] = item", "C20-7"),
    ("reservoir-merge-concatenates", RS, "        self._reservoir = new_reservoir[: self._size]", "        self._reservoir = self_pool + other_pool + new_reservoir", "C20-7"),
    ("merkle-diff-prunes-on-range", MK, "    if a.hash == b.hash:\n        return []\n\n    # If either is a leaf", "    if a.hash == b.hash or a.key_range == b.key_range:\n        return []\n\n    # If either is a leaf", "C20-8"),
    ("merkle-diff-left-only", MK, "    result.extend(_diff_nodes(a.left, b.left))\n    result.extend(_diff_nodes(a.right, b.right))", "    result.extend(_diff_nodes(a.left, b.left))\n    if not result:\n        result.extend(_diff_nodes(a.right, b.right))", "C20-8"),
    ("merkle-leaf-hash-key-only", MK, "    data = f\"{key}:{value!r}\".encode()", "    data = f\"{key}\".encode()", "C20-8"),
    ("merkle-update-stale-root", MK, "        self._data[key] = value\n        if self._data:\n            sorted_items = sorted(self._data.items(), key=lambda kv: kv[0])\n            self._root = _build_tree(sorted_items)\n        else:\n            self._root = None", "        known = key in self._data\n        self._data[key] = value\n        if not known:\n            sorted_items = sorted(self._data.items(), key=lambda kv: kv[0])\n            self._root = _build_tree(sorted_items)", "C20-8"),
    ("merkle-build-drops-middle", MK, "    right = _build_tree(sorted_items[mid:])", "    right = _build_tree(sorted_items[mid + 1 :] or sorted_items[mid:])", "C20-8"),
    ("merkle-diff-empty-vs-nonempty", MK, "        if self._root is None:\n            return [other._root.key_range]", "        if self._root is None:\n            return []", "C20-8"),
]
REFACTORS = [
    ("merkle-update-skips-present-equal", MK, "        self._data[key] = value\n        if self._data:", "        if key in self._data and self._data[key] == value:\n            return\n        self._data[key] = value\n        if self._data:"),
    ("bloom-merge-guard-combined", BF, ["        if other._size_bits != self._size_bits:\n            raise ValueError(\n                f\"Cannot merge: size_bits differs ({self._size_bits} vs {other._size_bits})\"\n            )\n        if other._num_hashes != self._num_hashes:\n            raise ValueError(\n                f\"Cannot merge: num_hashes differs ({self._num_hashes} vs {other._num_hashes})\"\n            )\n"],
     ["        if other._size_bits != self._size_bits or self._num_hashes != other._num_hashes:\n            raise ValueError(\"Cannot merge: configuration differs\")\n"]),
    ("hll-merge-loop-var-renamed", HLL, "        for i in range(self._num_registers):\n            self._registers[i] = max(self._registers[i], other._registers[i])", "        for i in range(self._num_registers):\n            self._registers[i] = max(self._registers[i], other._registers[i])\n        pass"),
]
