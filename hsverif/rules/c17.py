"""C17 — replication: acknowledged means applied; replicas converge under reordering (ordering clauses)."""

from __future__ import annotations

import ast

from ..astutil import calls_in, norm_stmt, path_of, unparse, walk_scope, walk_stmts
from ..cfg import own_exprs
from ..facts import Fact, atoms, enumerate_paths
from ..report import Ctx
from ..suspend import node_suspension
from .common import NotTabulable, OrderEval, always_before, need, node_of, protocol_schema, stmts_matching

PB = "happysimulator/components/replication/primary_backup.py"
CH = "happysimulator/components/replication/chain_replication.py"
ML = "happysimulator/components/replication/multi_leader.py"
CR = "happysimulator/components/replication/conflict_resolver.py"
RS = "happysimulator/components/datastore/replicated_store.py"
LC = "happysimulator/core/logical_clocks.py"

EXPLANATION = (
    "Primary-backup: a backup resolves an ack future only after the replicated write has been applied (or, if superseded by a newer write "
    "to that key, after waiting as long as that write's store operation); the primary replies only after its own store write and, per mode, "
    "after waiting on all ack futures (SYNC) or any of them (SEMI_SYNC), one fresh future per backup carried in that backup's message. "
    "Reordering: every Replicate/Propagate handler applies a write only if its sequence number is newer than the newest one applied for that "
    "key, records it before the store write suspends, and still forwards/acks a superseded write. Chain: the head replies only after the "
    "tail's ack for that sequence number; the tail acks only after applying; CRAQ marks a key dirty before the store write suspends, clean "
    "only after the commit, per write; a read replies locally only if the key is clean after the read's last suspension. Multi-leader: the "
    "version table is written before the store write suspends, only when no version exists, the incoming version dominates, or the resolver "
    "picked something else than the existing version; the value stored is that version's; the three dominance routines compute ∀≥ ∧ ∃>; "
    "LWW orders by (timestamp, writer). ReplicatedStore writes every replica."
)
RULE_TEXT = "Instances: per reply/ack site × mode, per apply site, per version-table write, per dominance routine. Distinct by (rule, construct)."
NOT_DECIDED = ["convergence at quiescence as a theorem over all delivery orders", "anti-entropy coverage (random peer choice) and Merkle repair",
               "store writes of different durations completing out of order (constant per-store latency assumed)"]
ASSUMPTIONS = ["KVStore.put applies at the end of a constant write latency", "handlers are atomic between suspension points"]


def _susp(ctx, fn, n) -> bool:
    return bool(node_suspension(ctx.prog, fn, n))


def _calls_on(n, pred):
    return [c for e in own_exprs(n) for c in walk_scope(e) if isinstance(c, ast.Call) and pred(c)]


def _paths_to(ff, target):
    return [p for p in enumerate_paths(ff, ff.cfg.entry, stop=lambda x: x is target, unroll=1) if p.end == "stop" and p.nodes[-1] is target]


def _yields_value(n, text: str) -> bool:
    """node is `yield <text>` (expression statement or assignment of a yield)"""
    for e in own_exprs(n):
        for x in walk_scope(e):
            if isinstance(x, ast.Yield) and x.value is not None and unparse(x.value).replace(" ", "") == text:
                return True
    return False


# -----------------------------------------------------------------------------------------------
def rule_primary_backup(ctx: Ctx) -> None:
    prog = ctx.prog
    hw = prog.func(PB, "PrimaryNode._handle_write")
    ff = ctx.flow(hw)
    resolves = [c for c in calls_in(hw.node) if path_of(c.func) == "reply_future.resolve"]
    need(1 <= len(resolves) <= 3, f"C17-1: expected the reply site(s) of the three replication modes in PrimaryNode._handle_write, found {len(resolves)}")
    bad_by_mode: dict[str, list[str]] = {}
    site_of_mode: dict[str, ast.AST] = {}
    local = [n for n in ff.cfg.nodes if any(isinstance(x, ast.YieldFrom) and path_of(getattr(x.value, "func", None)) == "self._store.put" for e in own_exprs(n) for x in walk_scope(e))]
    modes_seen = set()
    for rc in resolves:
        rn = node_of(ff.cfg, rc)
        bad = []
        mode = None
        for p in _paths_to(ff, rn):
            is_async = p.decided(lambda t: t == "self._mode==ReplicationMode.ASYNC")
            is_semi = p.decided(lambda t: t == "self._mode==ReplicationMode.SEMI_SYNC")
            mode = "ASYNC" if is_async else "SEMI_SYNC" if is_semi else "SYNC" if (is_async is False and is_semi is False) else "?"
            if not any(n in local for n in p.nodes):
                bad.append(f"[{p.describe()[:100]}] replies before the primary's own store write")
            waits_all = any(_yields_value(n, "all_of(*ack_futures)") for n in p.nodes)
            waits_any = any(_yields_value(n, "any_of(*ack_futures)") for n in p.nodes)
            waits_one = any(_yields_value(n, "ack_futures[0]") for n in p.nodes)
            # which numbers of outstanding acks (0, 1, 2, 3 stand for none / one / several) are consistent with the branch decisions of this
            # path?  The decisions are closed tests over `ack_futures` (`len(ack_futures) >= 2`, `len(ack_futures) == 1`, `ack_futures`, ...):
            # they are tabulated over the four cases, so the rule does not depend on how the case split is spelled or ordered.
            feasible = []
            for k_ in (0, 1, 2, 3):
                ok_k = True
                for n_, l_ in zip(p.nodes, p.labels):
                    if n_.kind != "test" or l_ is None:
                        continue
                    names = {x.id for x in ast.walk(n_.ast) if isinstance(x, ast.Name)}
                    if "ack_futures" not in names:
                        continue
                    if not names <= {"ack_futures", "len"}:
                        ok_k = None
                        break
                    try:
                        ev_ = OrderEval({"ack_futures": (None,) * k_}, calls={"len": lambda e_, c_: len(e_.ev(c_.args[0]))})
                        val = ev_.truth(ev_.ev(n_.ast))
                    except NotTabulable:
                        ok_k = None
                        break
                    if val != l_[1]:
                        ok_k = False
                        break
                if ok_k is None:
                    feasible = None
                    break
                if ok_k:
                    feasible.append(k_)
            if feasible is None:
                okp = False
            elif mode == "ASYNC":
                okp = True
            elif mode in ("SYNC", "SEMI_SYNC"):
                okp = True
                for k_ in feasible:
                    if k_ == 0:
                        continue
                    if k_ == 1:
                        okp = okp and (waits_all or waits_any or waits_one)
                    elif mode == "SYNC":
                        okp = okp and waits_all
                    else:
                        okp = okp and (waits_all or waits_any or waits_one)
            else:
                okp = False
            if not okp:
                bad.append(f"[{p.describe()[:140]}] mode {mode}: reply not preceded by the required wait")
            # one verdict per replication mode, whether the three modes reply at three sites or share one after the if/elif/else
            modes_seen.add(mode)
            site_of_mode.setdefault(mode, rc)
            bad_by_mode.setdefault(mode, []).extend(bad)
            bad = []
    for mode in sorted(site_of_mode):
        bad = bad_by_mode.get(mode, [])
        ctx.ob("C17-1", "G2", hw, f"reply in {mode} mode", not bad, f"PrimaryNode replies in {mode} mode only after its own store write and the acks that mode promises (all / any / none)" + ("" if not bad else " — " + bad[0]), node=site_of_mode[mode])
    need(modes_seen == {"ASYNC", "SEMI_SYNC", "SYNC"}, f"C17-1: reply sites cover modes {modes_seen}")
    # one fresh future per backup, carried in that backup's message, and collected
    loops = [s for s in walk_stmts(hw.node.body) if isinstance(s, ast.For) and path_of(s.iter) == "self._backups" and any(path_of(c.func) == "self._network.send" for c in calls_in(s))]
    need(len(loops) == 3, "C17-1: expected three send loops over the backups")
    for lp in loops:
        uses_future = "ack_future" in unparse(lp)
        send = [c for c in calls_in(lp) if path_of(c.func) == "self._network.send"][0]
        pl = [k.value for k in send.keywords if k.arg == "payload"]
        d = {k.value: unparse(v) for k, v in zip(pl[0].keys, pl[0].values) if isinstance(k, ast.Constant)} if pl and isinstance(pl[0], ast.Dict) else {}
        ok = d.get("key") == "key" and d.get("value") == "value" and d.get("seq") == "seq" and [path_of(a) for a in send.args[:3]] == ["self", path_of(lp.target), None] and unparse(send.args[2]) == "'Replicate'"
        ok = ok and not any(isinstance(s, (ast.Break, ast.Continue, ast.Return)) for s in walk_stmts(lp.body))
        if uses_future:
            fresh = [s for s in lp.body if isinstance(s, ast.Assign) and path_of(s.targets[0]) == "ack_future" and isinstance(s.value, ast.Call) and path_of(s.value.func) == "SimFuture"]
            coll = [c for c in calls_in(lp) if path_of(c.func) == "ack_futures.append" and [path_of(a) for a in c.args] == ["ack_future"]]
            ok = ok and len(fresh) == 1 and len(coll) == 1 and d.get("ack_future") == "ack_future"
        ctx.ob("C17-1", "G2", hw, lp, ok, "every backup is sent the write (key, value, seq)" + (" with its own fresh ack future, which the primary collects" if uses_future else ""))
    sq = [s for s in walk_stmts(hw.node.body) if isinstance(s, ast.AugAssign) and path_of(s.target) == "self._seq"]
    sd = stmts_matching(hw, "seq = self._seq")
    ok = len(sq) == 1 and len(sd) == 1 and not always_before(ctx, hw, lambda x: x.ast is sq[0], lambda x: x.ast is sd[0][0]) \
        and all(not always_before(ctx, hw, lambda x: x.ast is sd[0][0], lambda x, l=l: x is l) for l in local)
    ctx.ob("C17-1", "G2", hw, sd[0][0] if sd else None, ok, "each write takes a fresh, increasing sequence number before the primary's store write suspends")

    hr = prog.func(PB, "BackupNode._handle_replicate")
    rf = ctx.flow(hr)
    ack = [c for c in calls_in(hr.node) if path_of(c.func) == "ack_future.resolve"]
    need(len(ack) == 1, "C17-1: BackupNode should resolve the ack future at one site")
    an = node_of(rf.cfg, ack[0])
    bad = []
    for p in _paths_to(rf, an):
        applied = any(any(isinstance(x, ast.YieldFrom) and path_of(getattr(x.value, "func", None)) == "self._store.put" for e in own_exprs(n) for x in walk_scope(e)) for n in p.nodes)
        waited = any(_yields_value(n, "self._store.write_latency") for n in p.nodes)
        if not (applied or waited):
            bad.append(p.describe()[:140])
    ctx.ob("C17-1", "G2", hr, ack[0], not bad, "a backup acknowledges only after applying the write, or (superseded write) after waiting out the newer write's store operation" + ("" if not bad else " — " + bad[0]))
    evs = [c for c in calls_in(hr.node) if path_of(c.func) == "self._network.send"]
    ok = len(evs) == 1 and not always_before(ctx, hr, lambda x: x is an or any(_calls_on(x, lambda c: path_of(c.func) == "self._store.put")) or _yields_value(x, "self._store.write_latency"), lambda x: x is node_of(rf.cfg, evs[0]))
    ctx.ob("C17-1", "G2", hr, evs[0] if evs else None, ok, "the ReplicationAck event is sent only after the apply/wait as well")


def _apply_guard(ctx: Ctx, rule: str, fn, table: str, who: str) -> None:
    ff = ctx.flow(fn)
    puts = [n for n in ff.cfg.nodes if any(isinstance(x, ast.YieldFrom) and path_of(getattr(x.value, "func", None)) == "self._store.put" for e in own_exprs(n) for x in walk_scope(e))]
    need(len(puts) == 1, f"{rule}: {who} should write its store at one site")
    pn = puts[0]
    guard_f = Fact("lt", f"{table}.get(key, -1)", "seq")
    rec = [s for s in walk_stmts(fn.node.body) if isinstance(s, ast.Assign) and unparse(s.targets[0]).replace(" ", "") == f"{table}[key]" and path_of(s.value) == "seq"]
    ok = len(rec) == 1
    why = ""
    if ok:
        rn = node_of(ff.cfg, rec[0])
        if not ff.holds_at(rn, guard_f):
            ok, why = False, f"sequence recorded without `seq > {table}.get(key, -1)` (facts: {ff.describe(rn)})"
        elif always_before(ctx, fn, lambda x: x is rn, lambda x: x is pn):
            ok, why = False, "store write not preceded by recording the sequence number"
        else:
            # no suspension between the comparison and the record, nor between the record and the start of the store write
            tests = [n for n in ff.cfg.nodes if n.kind == "test" and guard_f.sig in {f.sig for f in atoms(n.ast, True)}]
            for t in tests:
                for p in enumerate_paths(ff, t, stop=lambda x: x is pn):
                    if p.end == "stop" and p.nodes[-1] is pn and any(_susp(ctx, fn, n) for n in p.nodes[1:-1]):
                        ok, why = False, "a suspension separates the staleness test from the store write"
            if not tests:
                ok, why = False, "staleness test not found"
    else:
        why = f"expected exactly one `{table}[key] = seq`"
    ctx.ob(rule, "G1", fn, pn.ast, ok, f"{who}: a replicated write is applied only if newer than the newest one applied for its key, and is recorded as such before the store write suspends" + (f" — {why}" if why else ""))
    # who else writes the table
    for m in fn.cls.methods.values() if fn.cls else []:
        if m is fn or m.name == "__init__":
            continue
        for st in walk_stmts(m.node.body):
            if isinstance(st, (ast.Assign, ast.AugAssign, ast.Delete)) and table in unparse(st) and not isinstance(st, ast.Delete) and any(unparse(t).startswith(table) for t in (st.targets if isinstance(st, ast.Assign) else [st.target])):
                ctx.ob(rule, "G6", m, st, False, f"{table} is written outside the replicate handler")
    vals = [x for e in own_exprs(pn) for x in walk_scope(e) if isinstance(x, ast.Call) and path_of(x.func) == "self._store.put"]
    ctx.ob(rule, "G7", fn, vals[0], [path_of(a) for a in vals[0].args] == ["key", "value"], f"{who} stores the key and value carried by the message")


def rule_reordering(ctx: Ctx) -> None:
    prog = ctx.prog
    _apply_guard(ctx, "C17-2", prog.func(PB, "BackupNode._handle_replicate"), "self._applied_seq_by_key", "BackupNode")
    _apply_guard(ctx, "C17-2", prog.func(CH, "ChainNode._handle_propagate"), "self._applied_seq", "ChainNode")
    hr = prog.func(PB, "BackupNode._handle_replicate")
    la = [s for s in walk_stmts(hr.node.body) if isinstance(s, ast.Assign) and path_of(s.targets[0]) == "self._last_applied_seq"]
    ok = len(la) == 1 and unparse(la[0].value).replace(" ", "") in ("max(self._last_applied_seq,seq)", "max(seq,self._last_applied_seq)")
    ctx.ob("C17-2", "G6", hr, la[0] if la else None, ok, "BackupNode.last_applied_seq only grows")
    ha = prog.func(PB, "PrimaryNode._handle_ack")
    af = ctx.flow(ha)
    ws = [s for s in walk_stmts(ha.node.body) if isinstance(s, ast.Assign) and unparse(s.targets[0]).replace(" ", "") == "self._backup_lag[acked_key]"]
    ok = len(ws) == 1 and af.holds_at(node_of(af.cfg, ws[0]), Fact("lt", "prev", "seq"))
    ctx.ob("C17-2", "G6", ha, ws[0] if ws else None, ok, "the primary's per-backup acked position only grows (acks can be reordered too)")


def rule_chain(ctx: Ctx) -> None:
    prog = ctx.prog
    hw = prog.func(CH, "ChainNode._handle_write")
    ff = ctx.flow(hw)
    oks = [c for c in calls_in(hw.node) if path_of(c.func) == "reply_future.resolve" and "'ok'" in unparse(c)]
    need(len(oks) == 1, "C17-3: head should acknowledge a write at one site")
    rn = node_of(ff.cfg, oks[0])
    bad = []
    for p in _paths_to(ff, rn):
        head = p.decided(lambda t: t == "self._role!=ChainNodeRole.HEAD")
        has_next = p.decided(lambda t: t == "self.next_nodeisnotNone")
        applied = any(_calls_on(n, lambda c: path_of(c.func) == "self._store.put") for n in p.nodes)
        waited = any(_yields_value(n, "ack_future") for n in p.nodes)
        if head is not False or not applied or (has_next is not False and not waited):
            bad.append(p.describe()[:140])
    ctx.ob("C17-3", "G2", hw, oks[0], not bad, "the head acknowledges a write only after applying it and (in a chain of 2+) after the tail's ack future resolved" + ("" if not bad else " — " + bad[0]))
    reg = [s for s in walk_stmts(hw.node.body) if isinstance(s, ast.Assign) and unparse(s.targets[0]).replace(" ", "") == "self._pending_writes[seq]" and path_of(s.value) == "ack_future"]
    fresh = stmts_matching(hw, "ack_future = SimFuture()")
    send = [c for c in calls_in(hw.node) if path_of(c.func) == "self._network.send"]
    ok = len(reg) == 1 and len(fresh) == 1 and len(send) == 1 and not always_before(ctx, hw, lambda x: x.ast is reg[0], lambda x: x is node_of(ff.cfg, send[0]))
    ctx.ob("C17-3", "G2", hw, reg[0] if reg else None, ok, "the ack future is registered under the write's sequence number before the propagation is sent")
    sq = [s for s in walk_stmts(hw.node.body) if isinstance(s, ast.AugAssign) and path_of(s.target) == "self._next_seq"]
    sd = stmts_matching(hw, "seq = self._next_seq")
    ctx.ob("C17-3", "G2", hw, sd[0][0] if sd else None, len(sq) == 1 and len(sd) == 1 and not always_before(ctx, hw, lambda x: x.ast is sq[0], lambda x: x.ast is sd[0][0]), "each write takes a fresh sequence number")
    wa = prog.func(CH, "ChainNode._handle_write_ack")
    got = stmts_matching(wa, "future = self._pending_writes.get(seq)")
    sq2 = stmts_matching(wa, "seq = metadata.get('seq', 0)")
    res = [c for c in calls_in(wa.node) if path_of(c.func) == "future.resolve"]
    ctx.ob("C17-3", "G7", wa, got[0][0] if got else None, len(got) == 1 and len(sq2) == 1 and len(res) == 1, "a WriteAck resolves exactly the future registered under the acked sequence number")

    hp = prog.func(CH, "ChainNode._handle_propagate")
    pf = ctx.flow(hp)
    sends = [c for c in calls_in(hp.node) if path_of(c.func) == "self._network.send"]
    kinds = {}
    for c in sends:
        typ = unparse(c.args[2]).strip("'\"")
        kinds[typ] = c
        cn = node_of(pf.cfg, c)
        bad = []
        for p in _paths_to(pf, cn):
            applied = any(_calls_on(n, lambda k: path_of(k.func) == "self._store.put") for n in p.nodes)
            waited = any(_yields_value(n, "self._store.write_latency") for n in p.nodes)
            tail = p.decided(lambda t: t == "self._role==ChainNodeRole.TAIL")
            if not (applied or waited):
                bad.append("not applied: " + p.describe()[:120])
            if typ == "WriteAck" and tail is not True:
                bad.append("ack sent by a non-tail node")
            if typ == "Propagate" and tail is not False:
                bad.append("tail forwards")
        pl = [k.value for k in c.keywords if k.arg == "payload"]
        d = {k.value: unparse(v) for k, v in zip(pl[0].keys, pl[0].values) if isinstance(k, ast.Constant)} if pl and isinstance(pl[0], ast.Dict) else {}
        okd = d.get("seq") == "seq" and d.get("key") == "key" and (typ != "Propagate" or d.get("value") == "value")
        ctx.ob("C17-3", "G2", hp, c, not bad and okd, f"ChainNode sends {typ} for (key, seq) only after applying the write (or waiting out the newer one)" + ("" if not bad else " — " + bad[0]))
    need({"WriteAck", "Propagate"} <= set(kinds), f"C17-3: _handle_propagate sends {sorted(kinds)}")
    # every path through the handler forwards or acks (a superseded write is not dropped)
    bad = []
    for p in enumerate_paths(pf, pf.cfg.entry):
        if p.end != "exit":
            continue
        sent = [c for n in p.nodes for c in _calls_on(n, lambda k: path_of(k.func) == "self._network.send")]
        tail = p.decided(lambda t: t == "self._role==ChainNodeRole.TAIL")
        nxt = p.decided(lambda t: t == "self.next_nodeisnotNone")
        hd = p.decided(lambda t: t == "headisnotNone")
        if not sent and not (tail is True and hd is False) and not (tail is False and nxt is False):
            bad.append(p.describe()[:140])
    ctx.ob("C17-3", "G2", hp, "every propagation is forwarded or acknowledged", not bad, "no path through _handle_propagate drops the write silently (the head would wait forever)" + ("" if not bad else " — " + bad[0]))

    # CRAQ
    for fn, arg in ((hw, "seq"), (hp, "seq")):
        f2 = ctx.flow(fn)
        md = [c for c in calls_in(fn.node) if path_of(c.func) == "self._mark_dirty"]
        put = [n for n in f2.cfg.nodes if _calls_on(n, lambda k: path_of(k.func) == "self._store.put")]
        ok = len(md) == 1 and [path_of(a) for a in md[0].args] == ["key", "seq"] and len(put) == 1
        if ok:
            mn = node_of(f2.cfg, md[0])
            # on every path to the store write with CRAQ enabled the key was marked dirty first
            for p in _paths_to(f2, put[0]):
                cr = p.decided(lambda t: t == "self._craq_enabled")
                if cr is not False and mn not in p.nodes:
                    ok = False
        ctx.ob("C17-3", "G2", fn, md[0] if md else None, ok, f"CRAQ: {fn.name} marks the key dirty before the store write suspends (no read can see the uncommitted value as clean)")
        for c in calls_in(fn.node):
            if path_of(c.func) == "self._mark_clean":
                cn = node_of(f2.cfg, c)
                bad = []
                for p in _paths_to(f2, cn):
                    if fn is hw:
                        nxt = p.decided(lambda t: t == "self.next_nodeisnotNone")
                        okp = (nxt is False and any(n in put for n in p.nodes)) or any(_yields_value(n, "ack_future") for n in p.nodes)
                    else:
                        okp = p.decided(lambda t: t == "self._role==ChainNodeRole.TAIL") is True and (any(n in put for n in p.nodes) or any(_yields_value(n, "self._store.write_latency") for n in p.nodes))
                    if not okp:
                        bad.append(p.describe()[:120])
                ctx.ob("C17-3", "G2", fn, c, not bad and [path_of(a) for a in c.args] == ["key", "seq"], f"CRAQ: {fn.name} marks a write clean only once it is committed at the tail" + ("" if not bad else " — " + bad[0]))
    mc = prog.func(CH, "ChainNode._mark_clean")
    mf = ctx.flow(mc)
    dis = [c for c in calls_in(mc.node) if path_of(c.func) == "self._dirty_keys.discard"]
    ok = len(dis) >= 1
    for d_ in dis:
        dn = node_of(mf.cfg, d_)
        for p in _paths_to(mf, dn):
            has = p.decided(lambda t: t == "pendingisnotNone")
            left = p.decided(lambda t: t == "pending")
            if has is True and left is not False:
                ok = False
    md = prog.func(CH, "ChainNode._mark_dirty")
    okd = any(unparse(c).replace(" ", "") == "self._dirty_seqs.setdefault(key,set()).add(seq)" for c in calls_in(md.node)) and any(path_of(c.func) == "self._dirty_keys.add" for c in calls_in(md.node))
    pend = stmts_matching(mc, "pending = self._dirty_seqs.get(key)")
    okc = any(path_of(c.func) == "pending.discard" and [path_of(a) for a in c.args] == ["seq"] for c in calls_in(mc.node)) and len(pend) == 1
    ctx.ob("C17-3", "G2", mc, dis[0] if dis else None, ok and okd and okc, "CRAQ: dirtiness is tracked per write — a key becomes clean only when none of its uncommitted writes is pending")
    rd = prog.func(CH, "ChainNode._handle_read")
    rf = ctx.flow(rd)
    rep = [c for c in calls_in(rd.node) if path_of(c.func) == "reply_future.resolve"]
    need(len(rep) == 1, "C17-3: ChainNode._handle_read should reply at one site")
    rn = node_of(rf.cfg, rep[0])
    bad = []
    for p in _paths_to(rf, rn):
        last = max([i for i, n in enumerate(p.nodes) if _susp(ctx, rd, n)] or [-1])
        chk = [i for i, n in enumerate(p.nodes) if i > last and n.kind == "stmt" and isinstance(n.ast, ast.Assign) and path_of(n.ast.targets[0]) == "tail" and unparse(n.ast.value) == "self._craq_forward_target(key)"]
        tst = [i for i, (n, l) in enumerate(zip(p.nodes, p.labels)) if chk and i > chk[-1] and n.kind == "test" and unparse(n.ast).replace(" ", "") == "tailisNone" and l is not None and l[1] is True]
        if not (chk and tst):
            bad.append(p.describe()[:140])
    ctx.ob("C17-3", "G5", rd, rep[0], not bad, "CRAQ: a read is answered locally only if the key is clean when re-checked after the read's last suspension" + ("" if not bad else " — " + bad[0]))
    ft = prog.func(CH, "ChainNode._craq_forward_target")
    # on every way to returning a node (not None) the function has established: key dirty, this node not the tail — however the guards are
    # spelled (nested ifs, early returns, De Morgan)
    ftf = ctx.flow(ft)
    okft, n_tail = True, 0
    for p_ in enumerate_paths(ftf, ftf.cfg.entry):
        if p_.end != "exit":
            continue
        r_ = [n_.ast for n_ in p_.nodes if n_.kind == "stmt" and isinstance(n_.ast, ast.Return)]
        if r_ and r_[-1].value is not None and not (isinstance(r_[-1].value, ast.Constant) and r_[-1].value.value is None):
            n_tail += 1
            okft = okft and ("in", "key", "self._dirty_keys") in p_.facts and ("ne", "ChainNodeRole.TAIL", "self._role") in p_.facts
    ctx.ob("C17-3", "G1", ft, "dirty ⇒ forward to tail", okft and n_tail >= 1, f"a non-tail CRAQ node forwards reads of dirty keys to the tail")


def _dominance_tabulated(fn) -> tuple[str, str] | None:
    """Decide what a two-vector predicate computes by tabulating it: the body is evaluated (OrderEval, finite collections) on all 256 pairs of
    vectors over keys {x, y} with component values missing/0/1/2 and compared with "A dominates B" (∀k A[k] ≥ B[k] ∧ ∃k A[k] > B[k], missing = 0)
    for both role assignments.  Independent of how the loop / any() / flags are written.  Returns (A, B) or None."""
    import itertools

    params = [p_ for p_ in fn.params() if p_ != "self"]
    if fn.cls is not None and len(params) == 1:
        roles = ("self._vector", f"{params[0]}._vector")
    elif len(params) == 2:
        roles = (params[0], params[1])
    else:
        return None
    vals = (None, 0, 1, 2)
    vecs = [{k_: v_ for k_, v_ in (("x", vx), ("y", vy)) if v_ is not None} for vx in vals for vy in vals]

    def dom(a_, b_):
        ks = set(a_) | set(b_)
        return all(a_.get(k_, 0) >= b_.get(k_, 0) for k_ in ks) and any(a_.get(k_, 0) > b_.get(k_, 0) for k_ in ks)
    agree = {(0, 1): True, (1, 0): True}
    try:
        for v1, v2 in itertools.product(vecs, repeat=2):
            env = {roles[0]: dict(v1), roles[1]: dict(v2)}
            if "." in roles[0]:
                env["self"] = {"_vector": dict(v1)}
                env[params[0]] = {"_vector": dict(v2)}
            got = OrderEval(env).run(fn.node)
            if bool(got) != dom(v1, v2):
                agree[(0, 1)] = False
            if bool(got) != dom(v2, v1):
                agree[(1, 0)] = False
            if not agree[(0, 1)] and not agree[(1, 0)]:
                return None
    except NotTabulable:
        return None
    if agree[(0, 1)]:
        return roles[0], roles[1]
    if agree[(1, 0)]:
        return roles[1], roles[0]
    return None


def _dominance_summary(fn) -> tuple[str, str] | None:
    """What does this predicate over two vectors compute?  (A, B) meaning "A dominates B", or None.  First the flag-loop idiom
    `∀k a[k] >= b[k] ∧ ∃k a[k] > b[k]` is recognised syntactically; any other spelling is decided by tabulation (`_dominance_tabulated`)."""
    got = _dominance_syntactic(fn)
    return got if got is not None else _dominance_tabulated(fn)


def _dominance_syntactic(fn) -> tuple[str, str] | None:
    """Recognise the flag-loop idiom `∀k a[k] >= b[k] ∧ ∃k a[k] > b[k]`; returns (A, B) meaning "A dominates B", or None."""
    body = [s for s in fn.node.body if not (isinstance(s, ast.Expr) and isinstance(s.value, ast.Constant))]
    if len(body) == 4:
        # early-return form: no `all` flag — `if A[k] < B[k]: return False` inside the loop, `return any_flag` after it
        keys, f2, loop, ret = body
        if not (isinstance(f2, ast.Assign) and isinstance(f2.value, ast.Constant) and f2.value.value is False and isinstance(loop, ast.For) and len(loop.body) == 4
                and isinstance(ret, ast.Return) and path_of(ret.value) == path_of(f2.targets[0])):
            return None
        i1 = loop.body[2]
        if not (isinstance(i1, ast.If) and not i1.orelse and len(i1.body) == 1 and isinstance(i1.body[0], ast.Return) and isinstance(i1.body[0].value, ast.Constant) and i1.body[0].value.value is False):
            return None
        # rewrite into the flag form and recognise that
        import copy
        flag = ast.Name(id="__all", ctx=ast.Store())
        f1 = ast.Assign(targets=[flag], value=ast.Constant(True))
        loop2 = copy.deepcopy(loop)
        loop2.body[2] = ast.If(test=loop2.body[2].test, body=[ast.Assign(targets=[ast.Name(id="__all", ctx=ast.Store())], value=ast.Constant(False)), ast.Break()], orelse=[])
        ret2 = ast.Return(value=ast.BoolOp(op=ast.And(), values=[ast.Name(id="__all", ctx=ast.Load()), ast.Name(id=path_of(f2.targets[0]), ctx=ast.Load())]))
        body = [keys, f1, f2, loop2, ret2]
    if len(body) != 5:
        return None
    keys, f1, f2, loop, ret = body
    if not (isinstance(keys, ast.Assign) and isinstance(keys.value, ast.BinOp) and isinstance(keys.value.op, ast.BitOr)):
        return None
    sides = []
    for side in (keys.value.left, keys.value.right):
        if not (isinstance(side, ast.Call) and path_of(side.func) == "set" and len(side.args) == 1):
            return None
        sides.append(unparse(side.args[0]))
    if not (isinstance(f1, ast.Assign) and isinstance(f1.value, ast.Constant) and f1.value.value is True and isinstance(f2, ast.Assign) and isinstance(f2.value, ast.Constant) and f2.value.value is False):
        return None
    all_flag, any_flag = path_of(f1.targets[0]), path_of(f2.targets[0])
    if not (isinstance(loop, ast.For) and path_of(loop.iter) == path_of(keys.targets[0]) and not loop.orelse and len(loop.body) == 4):
        return None
    k = path_of(loop.target)
    g1, g2, i1, i2 = loop.body
    vals = {}
    for g in (g1, g2):
        if not (isinstance(g, ast.Assign) and isinstance(g.value, ast.Call) and isinstance(g.value.func, ast.Attribute) and g.value.func.attr == "get"
                and [unparse(a) for a in g.value.args] == [k, "0"]):
            return None
        vals[path_of(g.targets[0])] = unparse(g.value.func.value)
    if set(vals.values()) != set(sides):
        return None
    if not (isinstance(i1, ast.If) and not i1.orelse and len(i1.body) == 2 and isinstance(i1.body[1], ast.Break) and isinstance(i1.body[0], ast.Assign)
            and path_of(i1.body[0].targets[0]) == all_flag and isinstance(i1.body[0].value, ast.Constant) and i1.body[0].value.value is False):
        return None
    if not (isinstance(i2, ast.If) and not i2.orelse and len(i2.body) == 1 and isinstance(i2.body[0], ast.Assign) and path_of(i2.body[0].targets[0]) == any_flag
            and isinstance(i2.body[0].value, ast.Constant) and i2.body[0].value.value is True):
        return None
    a1, a2 = atoms(i1.test, True), atoms(i2.test, True)
    if not (len(a1) == 1 and len(a2) == 1 and a1[0].op == "lt" and a2[0].op == "lt" and a1[0].a == a2[0].b and a1[0].b == a2[0].a and a1[0].a in vals and a1[0].b in vals):
        return None
    if not (isinstance(ret, ast.Return) and isinstance(ret.value, ast.BoolOp) and isinstance(ret.value.op, ast.And) and sorted(path_of(v) for v in ret.value.values) == sorted([all_flag, any_flag])):
        return None
    # break when A[k] < B[k]  ⇒  A dominates B
    return vals[a1[0].a], vals[a1[0].b]


def rule_multi_leader(ctx: Ctx) -> None:
    prog = ctx.prog
    n_sites = 0
    for q in ("LeaderNode._handle_replicate", "LeaderNode._handle_anti_entropy_request", "LeaderNode._handle_anti_entropy_response", "LeaderNode._handle_write"):
        fn = prog.func(ML, q)
        ff = ctx.flow(fn)
        for st in walk_stmts(fn.node.body):
            if not (isinstance(st, ast.Assign) and unparse(st.targets[0]).replace(" ", "") == "self._versions[key]"):
                continue
            n_sites += 1
            ver = path_of(st.value)
            sn = node_of(ff.cfg, st)
            # (a) what follows: store write of that version's value, then the merkle update, nothing suspending before the store write starts
            nxt_put = None
            okf = True
            why = ""
            for p in enumerate_paths(ff, sn, stop=lambda x: bool(_calls_on(x, lambda c: path_of(c.func) == "self._store.put"))):
                if p.end != "stop":
                    okf, why = False, "a path from the version write does not reach a store write"
                    continue
                if any(_susp(ctx, fn, n) for n in p.nodes[1:-1]):
                    okf, why = False, "something suspends between the version write and the store write"
                c = _calls_on(p.nodes[-1], lambda c: path_of(c.func) == "self._store.put")[0]
                nxt_put = c
                val = unparse(c.args[1]) if len(c.args) == 2 else None
                if path_of(c.args[0]) != "key" or val not in (f"{ver}.value", "value"):
                    okf, why = False, f"the store write after `{norm_stmt(st)}` writes `{val}`"
                if val == "value":
                    # `value` must be the field the version was built from
                    mk = [s for s in walk_stmts(fn.node.body) if isinstance(s, ast.Assign) and path_of(s.targets[0]) == ver and isinstance(s.value, ast.Call) and path_of(s.value.func) == "VersionedValue"]
                    if not (len(mk) == 1 and any(k.arg == "value" and unparse(k.value) == "value" for k in mk[0].value.keywords)):
                        okf, why = False, f"`value` is not the value of `{ver}`"
            # (b) under which decision
            if q.endswith("_handle_write"):
                okd = True
            else:
                facts = {k[:3] for k in ff.facts_at(sn)}
                aliases = {}
                for s2 in walk_stmts(fn.node.body):
                    if isinstance(s2, ast.Assign) and isinstance(s2.value, ast.BoolOp) and isinstance(s2.value.op, ast.Or) and isinstance(s2.value.values[0], ast.Attribute) and s2.value.values[0].attr == "vector_clock":
                        aliases[path_of(s2.targets[0])] = path_of(s2.value.values[0].value)
                ex_vc = [a for a, o in aliases.items() if o == "existing"]
                in_vc = [a for a, o in aliases.items() if o != "existing"]
                incoming = [o for a, o in aliases.items() if o != "existing"]
                dom_in = any(("truthy", f"_vc_dominates({i}, {e})", "") in facts for i in in_vc for e in ex_vc)
                no_dom = any(("falsy", f"_vc_dominates({i}, {e})", "") in facts for i in in_vc for e in ex_vc) and any(("falsy", f"_vc_dominates({e}, {i})", "") in facts for i in in_vc for e in ex_vc)
                first = ("is", "existing", "None") in facts
                resolved = ("isnot", "winner", "existing") in facts and no_dom and ver == "winner"
                okd = (first and ver in incoming) or (dom_in and ver in incoming and not first) or resolved
                if not okd:
                    why = why or f"written under facts {sorted(facts)[:6]}"
                # the decision was taken on the current table entry: `existing` was read after the last suspension before this write
                for p in _paths_to(ff, sn):
                    last = max([i for i, n in enumerate(p.nodes) if _susp(ctx, fn, n)] or [-1])
                    rd = [i for i, n in enumerate(p.nodes) if n.kind == "stmt" and isinstance(n.ast, ast.Assign) and path_of(n.ast.targets[0]) == "existing" and unparse(n.ast.value) == "self._versions.get(key)"]
                    if not rd or rd[-1] < last:
                        okd, why = False, "the existing version was read before a suspension (stale decision)"
            ctx.ob("C17-4", "G5", fn, st, okf and okd, f"{q}: the version table is updated before the store write suspends, only for a first / dominating / resolver-chosen version, and the store gets that version's value" + (f" — {why}" if why else ""))
        # every store write in these handlers is preceded by a version write in the same step
        for n in ff.cfg.nodes:
            for c in _calls_on(n, lambda c: path_of(c.func) == "self._store.put"):
                vw = [x for x in ff.cfg.nodes if x.kind == "stmt" and isinstance(x.ast, ast.Assign) and unparse(x.ast.targets[0]).replace(" ", "") == "self._versions[key]"]
                bad = []
                for p in _paths_to(ff, n):
                    last = max([i for i, m in enumerate(p.nodes[:-1]) if _susp(ctx, fn, m)] or [-1])
                    if not any(i > last and m in vw for i, m in enumerate(p.nodes)):
                        bad.append(p.describe()[:100])
                ctx.ob("C17-4", "G2", fn, c, not bad, f"{q}: no store write without the matching version-table write in the same step" + ("" if not bad else " — " + bad[0]))
    need(n_sites >= 10, f"C17-4: expected >= 10 version-table writes, found {n_sites}")
    # resolver call shape in the three handlers
    for q in ("LeaderNode._handle_replicate", "LeaderNode._handle_anti_entropy_request", "LeaderNode._handle_anti_entropy_response"):
        fn = prog.func(ML, q)
        rs = [c for c in calls_in(fn.node) if path_of(c.func) == "self._resolver.resolve"]
        ok = len(rs) == 1 and path_of(rs[0].args[0]) == "key" and isinstance(rs[0].args[1], ast.List) and path_of(rs[0].args[1].elts[0]) == "existing" and len(rs[0].args[1].elts) == 2
        ctx.ob("C17-4", "G4", fn, rs[0] if rs else None, ok, f"{q}: concurrent versions are resolved over [existing, incoming], existing first (the same pair, in the same order, in all three handlers)")
    # dominance routines
    wants = ((ML, "_vc_dominates", ("a", "b")), (CR, "_vc_dominates", ("a", "b")), (LC, "VectorClock.happened_before", ("other._vector", "self._vector")))
    for rel, q, want in wants:
        fn = prog.func(rel, q)
        got = _dominance_summary(fn)
        ctx.ob("C17-4", "G4", fn, "∀≥ ∧ ∃>", got == want, f"{rel.split('/')[-1]}::{q} computes `{want[0]} ≥ {want[1]}` componentwise with at least one strict (recognised summary: {got})")
    lw = prog.func(CR, "LastWriterWins.resolve")
    rets = [s for s in walk_stmts(lw.node.body) if isinstance(s, ast.Return)]
    ok = len(rets) == 1 and unparse(rets[0].value).replace(" ", "") == "max(versions,key=self._sort_key)"
    sk = prog.func(CR, "LastWriterWins._sort_key")
    # per path: an HLC timestamp sorts by (physical, logical, node), anything else by (timestamp, 0, writer) — whichever branch is written first
    skf = ctx.flow(sk)
    n_k = 0
    for p_ in enumerate_paths(skf, skf.cfg.entry):
        last = [n_ for n_ in p_.nodes if n_.kind == "stmt" and isinstance(n_.ast, ast.Return)]
        is_hlc = p_.decided(lambda t: t == "isinstance(ts,HLCTimestamp)")
        got = unparse(last[-1].ast.value).replace(" ", "") if last else None
        n_k += 1
        ok = ok and is_hlc is not None and got == ("(ts.physical_ns,ts.logical,ts.node_id)" if is_hlc else "(ts,0,v.writer_id)")
    ok = ok and n_k == 2 and len(stmts_matching(sk, "ts = v.timestamp")) == 1
    ctx.ob("C17-4", "G3", lw, rets[0] if rets else None, ok, "LastWriterWins picks the maximum of a total order (timestamp, then writer id): every replica picks the same winner for the same pair")
    vm = prog.func(CR, "VectorClockMerge._resolve_pair")
    vf = ctx.flow(vm)
    r = [(s, {k[:3] for k in vf.facts_at(node_of(vf.cfg, s))}) for s in walk_stmts(vm.node.body) if isinstance(s, ast.Return) and path_of(s.value) in ("a", "b")]
    ok = len(r) == 2 and all(("truthy", f"_vc_dominates(vc_{path_of(s.value)}, vc_{'b' if path_of(s.value) == 'a' else 'a'})", "") in fs for s, fs in r)
    ctx.ob("C17-4", "G3", vm, r[0][0] if r else None, ok, "VectorClockMerge returns the causally dominating version when there is one")
    other = [s2 for s2 in walk_stmts(vm.node.body) if isinstance(s2, ast.Return) and path_of(s2.value) not in ("a", "b")]
    okf = len(other) == 2 and any(unparse(s2.value).replace(" ", "") == "self._merge_fn(key,a,b)" for s2 in other) and any(unparse(s2.value).replace(" ", "") == "LastWriterWins().resolve(key,[a,b])" for s2 in other)
    ctx.ob("C17-4", "G3", vm, other[-1] if other else None, okf, "for concurrent versions VectorClockMerge uses the merge function or falls back to LastWriterWins — the same total order (timestamp, writer) at every replica, whichever version it holds locally")
    # local write: version stamped with a fresh clock tick and the same stamp is replicated
    w = prog.func(ML, "LeaderNode._handle_write")
    snap = stmts_matching(w, "vc_snapshot = self._vclock.send()")
    send = [c for c in calls_in(w.node) if path_of(c.func) == "self._network.send"]
    d = {}
    if send:
        pl = [k.value for k in send[0].keywords if k.arg == "payload"]
        d = {k.value: unparse(v) for k, v in zip(pl[0].keys, pl[0].values) if isinstance(k, ast.Constant)} if pl and isinstance(pl[0], ast.Dict) else {}
    mk = [c for c in calls_in(w.node) if path_of(c.func) == "VersionedValue"]
    kw = {k.arg: unparse(k.value) for k in mk[0].keywords} if len(mk) == 1 else {}
    ok = len(snap) == 1 and d == {"key": "key", "value": "value", "timestamp": "timestamp", "writer_id": "self.name", "vector_clock": "vc_snapshot"} \
        and kw == {"value": "value", "timestamp": "timestamp", "writer_id": "self.name", "vector_clock": "vc_snapshot"}
    lp = [s for s in walk_stmts(w.node.body) if isinstance(s, ast.For) and path_of(s.iter) == "self._peers"]
    ok = ok and len(lp) == 1 and not any(isinstance(x, (ast.Break, ast.Continue, ast.Return)) for x in walk_stmts(lp[0].body))
    ctx.ob("C17-4", "G7", w, send[0] if send else None, ok, "a local write is stamped with a fresh vector-clock tick and exactly that version is sent to every peer")
    rp = prog.func(ML, "LeaderNode._handle_replicate")
    rc = [c for c in calls_in(rp.node) if path_of(c.func) == "self._vclock.receive"]
    ctx.ob("C17-4", "G2", rp, rc[0] if rc else None, len(rc) == 1 and [path_of(a) for a in rc[0].args] == ["remote_vc"], "a replicated write advances the receiver's vector clock (later local writes dominate it)")
    protocol_schema(ctx, "C17-4", prog.cls(ML, "LeaderNode"))


def rule_replicated_store(ctx: Ctx) -> None:
    prog = ctx.prog
    for q, op in (("ReplicatedStore.put", "replica.put"), ("ReplicatedStore.delete", "replica.delete")):
        fn = prog.func(RS, q)
        lp = [s for s in walk_stmts(fn.node.body) if isinstance(s, ast.For) and (path_of(s.iter) == "self._replicas" or unparse(s.iter).replace(" ", "") == "enumerate(self._replicas)")]
        ok = len(lp) == 1 and any(path_of(c.func) == op for c in calls_in(lp[0]))
        # per replica and key, mutations land in the order they were started: the replica call is bracketed by taking a turn and giving it
        # back on every exit (put and delete have different latencies — unordered, a later delete overtakes an earlier put on some replicas)
        if ok:
            turns = [s_ for s_ in walk_stmts(lp[0].body) if isinstance(s_, ast.Assign) and any(isinstance(y, ast.YieldFrom) and path_of(getattr(y.value, "func", None)) == "self._mutation_turn" for y in ast.walk(s_.value))]
            dones = [t_ for t_ in walk_stmts(lp[0].body) if isinstance(t_, ast.Try) and any(path_of(k.func) == "self._mutation_done" for b_ in t_.finalbody for k in calls_in(b_))
                     and any(path_of(k.func) == "next" or (isinstance(k.func, ast.Attribute) and k.func.attr in ("send", "__next__")) for b_ in t_.body for k in calls_in(b_))]
            ordered = len(turns) == 1 and len(dones) == 1
            ctx.ob("C17-5", "G2", fn, turns[0] if turns else lp[0], ordered, f"{q}: on each replica the operation waits for its turn among the mutations of the key and hands the turn on in a `finally` "
                   "(same per-key order on every replica)")
        if ok:
            # no early exit from the replica loop (break / return); `continue` only inside the except clause
            for s in walk_stmts(lp[0].body):
                if isinstance(s, ast.Return):
                    ok = False
                if isinstance(s, ast.Break):
                    # allowed only inside the inner `while True` draining the replica's generator
                    inner = [w_ for w_ in walk_stmts(lp[0].body) if isinstance(w_, ast.While) and any(s is x for x in walk_stmts(w_.body))]
                    if not inner:
                        ok = False
            # ... and no iteration is cut short before the replica was asked: a `continue` is reached only after the turn was taken (i.e. from
            # the failure handling of the replica call), never from a pre-check made before waiting for the turn — what the replica holds
            # *now* says nothing about the mutations of the key still queued ahead of this one
            if ok and turns:
                for s in walk_stmts(lp[0].body):
                    if isinstance(s, ast.Continue) and not any(isinstance(w_, (ast.While, ast.For)) and w_ is not lp[0] and any(s is x for x in walk_stmts(w_.body)) for w_ in walk_stmts(lp[0].body)):
                        # the turn must have been taken in *this* iteration: on the way from the loop head to the `continue`
                        ff_ = ctx.flow(fn)
                        head = next(n_ for n_ in ff_.cfg.nodes if n_.kind == "for" and n_.ast is lp[0])
                        tn, cn_ = node_of(ff_.cfg, turns[0]), node_of(ff_.cfg, s)
                        for p_ in enumerate_paths(ff_, head, stop=lambda x: x is cn_):
                            if p_.end == "stop" and p_.nodes[-1] is cn_ and tn not in p_.nodes[1:]:
                                ok = False
        ctx.ob("C17-5", "G2", fn, lp[0] if lp else None, ok, f"{q} sends the operation to every replica, whatever the consistency level asked for and whatever the replica holds at the moment (replicas do not diverge by construction)")
    rr = prog.func(RS, "ReplicatedStore._required_responses")
    rets = [unparse(s.value).replace(" ", "") for s in walk_stmts(rr.node.body) if isinstance(s, ast.Return)]
    qs = prog.func(RS, "ReplicatedStore.quorum_size")
    qr = [unparse(s.value).replace(" ", "") for s in walk_stmts(qs.node.body) if isinstance(s, ast.Return)]
    ctx.ob("C17-5", "G3", rr, "ONE / QUORUM / ALL", rets == ["1", "self.quorum_size", "len(self._replicas)"] and qr == ["len(self._replicas)//2+1"], "required responses: 1, a strict majority, all")
    pt = prog.func(RS, "ReplicatedStore.put")
    pf = ctx.flow(pt)
    succ = [s for s in walk_stmts(pt.node.body) if isinstance(s, ast.Return) and isinstance(s.value, ast.Constant) and s.value.value is True]
    ok = len(succ) == 1 and pf.holds_at(node_of(pf.cfg, succ[0]), Fact("le", "required", "acks"))
    ctx.ob("C17-5", "G1", pt, succ[0] if succ else None, ok, "ReplicatedStore.put reports success only with at least the required number of replica acknowledgements")


def rule_merkle_tracks_store(ctx: Ctx) -> None:
    """C17-4: a leader's Merkle tree is its summary of the store — anti-entropy compares root hashes and stops when they are equal.  Every
    `self._merkle.update(key, V)` therefore records exactly the value written to the store in the same block, which is the value of the
    version entered into the version table there."""
    prog = ctx.prog
    n = 0
    for fn in prog.module(ML).all_functions:
        if fn.cls is None or fn.cls.name != "LeaderNode":
            continue
        for blk in [b for x in ast.walk(fn.node) for fld in ("body", "orelse") for b in [getattr(x, fld, None)] if isinstance(b, list) and b and isinstance(b[0], ast.stmt)]:
            ups = [k for st_ in blk for k in calls_in(st_) if path_of(k.func) == "self._merkle.update" and any(st_ is z for z in blk) and not isinstance(st_, (ast.If, ast.For, ast.While, ast.Try, ast.With))]
            for u in ups:
                n += 1
                puts = [k for st_ in blk if not isinstance(st_, (ast.If, ast.For, ast.While, ast.Try, ast.With)) for k in calls_in(st_) if path_of(k.func) in ("self._store.put", "self._store.put_sync")]
                vers = [st_ for st_ in blk if isinstance(st_, ast.Assign) and unparse(st_.targets[0]).replace(" ", "").startswith("self._versions[")]
                ok = len(puts) == 1 and len(vers) == 1 and len(u.args) == 2 and len(puts[0].args) == 2 and unparse(u.args[0]) == unparse(puts[0].args[0]) and unparse(u.args[1]) == unparse(puts[0].args[1])
                if ok:
                    w = path_of(vers[0].value)
                    v = unparse(u.args[1])
                    ctor_vals = [unparse(kw.value) for st_ in walk_stmts(fn.node.body) if isinstance(st_, ast.Assign) and path_of(st_.targets[0]) == w and isinstance(st_.value, ast.Call)
                                 for kw in st_.value.keywords if kw.arg == "value"]
                    ok = w is not None and (v == f"{w}.value" or v in ctor_vals)
                ctx.ob("C17-4", "G4", fn, u, ok, f"{fn.qual}: the Merkle summary records, for the same key, the very value written to the store, which is the value of the version entered in the version table "
                       f"(`{unparse(u)[:70]}`)")
    need(n >= 8, f"C17-4: expected >= 8 Merkle updates in LeaderNode, found {n}")


def rule_conflict_only_for_distinct_versions(ctx: Ctx) -> None:
    """C17-4: the resolver is asked only about two *different* writes neither of which dominates the other.  A version compared with itself
    (every anti-entropy round carries the whole table) is not a conflict: a merging resolver would merge a write with itself, and with a
    non-idempotent merge function values grow and the replicas never converge."""
    prog = ctx.prog
    n = 0
    for q in ("LeaderNode._handle_replicate", "LeaderNode._handle_anti_entropy_request", "LeaderNode._handle_anti_entropy_response"):
        fn = prog.func(ML, q)
        ff = ctx.flow(fn)
        for c in [k for k in calls_in(fn.node) if path_of(k.func) == "self._resolver.resolve"]:
            n += 1
            cn = node_of(ff.cfg, c)
            bad = []
            for p_ in _paths_to(ff, cn):
                same = p_.decided(lambda t: t.startswith("_same_version(existing,"))
                if same is not False:
                    bad.append(p_.describe()[-100:])
            ctx.ob("C17-4", "G1", fn, c, not bad, f"{q}: the conflict resolver runs only after `_same_version(existing, <incoming>)` was found false (and neither version dominates)")
    need(n == 3, f"C17-4: expected 3 resolver calls in LeaderNode, found {n}")


def run(ctx: Ctx) -> None:
    ctx.guarded(rule_conflict_only_for_distinct_versions)
    ctx.guarded(rule_merkle_tracks_store)
    rule_primary_backup(ctx)
    rule_reordering(ctx)
    rule_chain(ctx)
    rule_multi_leader(ctx)
    rule_replicated_store(ctx)
    for r, k in (("C17-1", 9), ("C17-2", 6), ("C17-3", 14), ("C17-4", 30), ("C17-5", 4)):
        ctx.floor(r, k)


MUTANTS = [
    ("ml-same-version-is-a-conflict", ML, '            elif _vc_dominates(existing_vc, incoming_vc) or _same_version(existing, incoming):', "            elif _vc_dominates(existing_vc, incoming_vc):", "C17-4"),
    ("replicated-delete-skips-replicas-without-the-key", RS, "        for index, replica in enumerate(self._replicas):\n            turn = yield from self._mutation_turn(index, key)\n            try:\n                gen = replica.delete(key)", "        for index, replica in enumerate(self._replicas):\n            if hasattr(replica, \"contains\") and not replica.contains(key):\n                acks += 1\n                continue\n            turn = yield from self._mutation_turn(index, key)\n            try:\n                gen = replica.delete(key)", "C17-5"),
    ("replicated-delete-skips-turn", RS, "        for index, replica in enumerate(self._replicas):\n            turn = yield from self._mutation_turn(index, key)\n            try:\n                gen = replica.delete(key)", "        for index, replica in enumerate(self._replicas):\n            turn = SimFuture()\n            try:\n                gen = replica.delete(key)", "C17-5"),
    ("replicate-merkle-records-incoming-not-winner", ML, "                    yield from self._store.put(key, winner.value)\n                    self._merkle.update(key, winner.value)\n\n        return None", "                    yield from self._store.put(key, winner.value)\n                    self._merkle.update(key, incoming.value)\n\n        return None", "C17-4"),
    ("vcmerge-fallback-local-wins-ties", CR, "        return LastWriterWins().resolve(key, [a, b])", "        return b if a.timestamp < b.timestamp else a", "C17-4"),
    ("sync-waits-for-any", PB, "            if len(ack_futures) >= 2:\n                yield all_of(*ack_futures)", "            if len(ack_futures) >= 2:\n                from happysimulator.core.sim_future import any_of\n\n                yield any_of(*ack_futures)", "C17-1"),
    ("sync-single-backup-no-wait", PB, "                yield all_of(*ack_futures)\n            elif ack_futures:\n                yield ack_futures[0]\n", "                yield all_of(*ack_futures)\n", "C17-1"),
    ("semi-sync-no-wait", PB, "                _idx, _val = yield any_of(*ack_futures)\n            elif ack_futures:\n                yield ack_futures[0]\n", "                pass\n", "C17-1"),
    ("sync-shared-ack-future", PB, ["        else:  # SYNC\n            # Wait for all acks\n            ack_futures = []\n            events = []\n            for backup in self._backups:\n                ack_future = SimFuture()\n"],
     ["        else:  # SYNC\n            # Wait for all acks\n            ack_futures = []\n            events = []\n            ack_future = SimFuture()\n            for backup in self._backups:\n"], "C17-1"),
    ("reply-before-local-apply", PB, "        # Apply locally\n        yield from self._store.put(key, value)\n\n        # Update lag tracking", "        # Update lag tracking", "C17-1"),
    ("backup-acks-before-apply", PB, ["        # Resolve ack future if present (for SEMI_SYNC/SYNC)\n        if ack_future is not None:\n            ack_future.resolve({\"backup\": self.name, \"seq\": seq})\n\n", "        if seq > self._applied_seq_by_key.get(key, -1):\n            self._applied_seq_by_key[key] = seq\n            yield from"],
     ["", "        if ack_future is not None:\n            ack_future.resolve({\"backup\": self.name, \"seq\": seq})\n        if seq > self._applied_seq_by_key.get(key, -1):\n            self._applied_seq_by_key[key] = seq\n            yield from"], "C17-1"),
    ("backup-superseded-acks-at-once", PB, "            yield self._store.write_latency\n        self._last_applied_seq = max(", "            pass\n        self._last_applied_seq = max(", "C17-1"),
    ("backup-applies-unconditionally", PB, "        if seq > self._applied_seq_by_key.get(key, -1):\n            self._applied_seq_by_key[key] = seq\n            yield from self._store.put(key, value)\n            self._replications_applied += 1\n        else:\n            # Superseded: the newer write may still be in its store write, so\n            # wait as long before acking (an ack means \"applied here\").\n            yield self._store.write_latency",
     "        if True:\n            self._applied_seq_by_key[key] = seq\n            yield from self._store.put(key, value)\n            self._replications_applied += 1", "C17-2"),
    ("backup-records-seq-after-write", PB, "            self._applied_seq_by_key[key] = seq\n            yield from self._store.put(key, value)\n            self._replications_applied += 1", "            yield from self._store.put(key, value)\n            self._applied_seq_by_key[key] = seq\n            self._replications_applied += 1", "C17-2"),
    ("backup-guard-global-seq", PB, "        if seq > self._applied_seq_by_key.get(key, -1):", "        if seq > self._last_applied_seq:", "C17-2"),
    ("backup-last-applied-overwritten", PB, "        self._last_applied_seq = max(self._last_applied_seq, seq)", "        self._last_applied_seq = seq", "C17-2"),
    ("chain-records-seq-after-write", CH, "            self._applied_seq[key] = seq\n            yield from self._store.put(key, value)", "            yield from self._store.put(key, value)\n            self._applied_seq[key] = seq", "C17-2"),
    ("chain-guard-inclusive", CH, "        if seq > self._applied_seq.get(key, -1):", "        if seq >= self._applied_seq.get(key, -1):", "C17-2"),
    ("primary-ack-position-overwritten", PB, "        if seq > prev:\n            self._backup_lag[acked_key] = seq", "        if True:\n            self._backup_lag[acked_key] = seq", "C17-2"),
    ("head-replies-before-tail-ack", CH, "            # Wait for ack from tail\n            yield ack_future\n", "", "C17-3"),
    ("head-registers-future-after-send", CH, ["            self._pending_writes[seq] = ack_future\n\n", "            yield 0.0, [prop_event]\n\n            # Wait for ack from tail"], ["", "            yield 0.0, [prop_event]\n            self._pending_writes[seq] = ack_future\n\n            # Wait for ack from tail"], "C17-3"),
    ("tail-acks-before-apply", CH, ["        if seq > self._applied_seq.get(key, -1):\n            self._applied_seq[key] = seq\n            yield from self._store.put(key, value)\n        else:\n            yield self._store.write_latency\n\n        if self._role == ChainNodeRole.TAIL:", "                yield 0.0, events\n\n        elif self.next_node is not None:"],
     ["        if self._role == ChainNodeRole.TAIL:", "                yield 0.0, events\n            if seq > self._applied_seq.get(key, -1):\n                self._applied_seq[key] = seq\n                yield from self._store.put(key, value)\n\n        elif self.next_node is not None:"], "C17-3"),
    ("superseded-propagation-dropped", CH, "        else:\n            yield self._store.write_latency\n\n        if self._role == ChainNodeRole.TAIL:", "        else:\n            return None\n\n        if self._role == ChainNodeRole.TAIL:", "C17-3"),
    ("ack-resolves-latest-future", CH, "        future = self._pending_writes.get(seq)", "        future = self._pending_writes.get(max(self._pending_writes, default=seq))", "C17-3"),
    ("craq-dirty-after-apply-head", CH, ["        if self._craq_enabled:\n            self._mark_dirty(key, seq)\n\n        # Apply locally\n        yield from self._store.put(key, value)\n\n        if self.next_node is not None:"],
     ["        # Apply locally\n        yield from self._store.put(key, value)\n        if self._craq_enabled:\n            self._mark_dirty(key, seq)\n\n        if self.next_node is not None:"], "C17-3"),
    ("craq-dirty-after-apply-propagate", CH, ["        if self._craq_enabled:\n            self._mark_dirty(key, seq)\n\n        # Apply locally, unless a newer write", "            yield self._store.write_latency\n\n        if self._role == ChainNodeRole.TAIL:"],
     ["        # Apply locally, unless a newer write", "            yield self._store.write_latency\n        if self._craq_enabled:\n            self._mark_dirty(key, seq)\n\n        if self._role == ChainNodeRole.TAIL:"], "C17-3"),
    ("craq-head-clean-before-ack", CH, ["            # Wait for ack from tail\n            yield ack_future\n\n            # Clean up\n            self._pending_writes.pop(seq, None)\n            if self._craq_enabled:\n                self._mark_clean(key, seq)"],
     ["            if self._craq_enabled:\n                self._mark_clean(key, seq)\n            # Wait for ack from tail\n            yield ack_future\n\n            # Clean up\n            self._pending_writes.pop(seq, None)"], "C17-3"),
    ("craq-clean-ignores-other-writes", CH, "            pending.discard(seq)\n            if pending:\n                return\n            del self._dirty_seqs[key]", "            pending.discard(seq)\n            del self._dirty_seqs[key]", "C17-3"),
    ("craq-read-not-rechecked", CH, "            tail = self._craq_forward_target(key)\n            if tail is None:\n                if reply_future is not None:\n                    reply_future.resolve({\"status\": \"ok\", \"value\": value})\n                return None",
     "            if reply_future is not None:\n                reply_future.resolve({\"status\": \"ok\", \"value\": value})\n            return None", "C17-3"),
    ("ml-version-after-store-write", ML, "            if _vc_dominates(incoming_vc, existing_vc):\n                # Incoming is newer — apply\n                self._versions[key] = incoming\n                yield from self._store.put(key, value)", "            if _vc_dominates(incoming_vc, existing_vc):\n                # Incoming is newer — apply\n                yield from self._store.put(key, value)\n                self._versions[key] = incoming", "C17-4"),
    ("ml-applies-dominated", ML, "                # Existing is newer (or is this very write, seen before) — discard\n                pass", "                self._versions[key] = incoming\n                yield from self._store.put(key, value)", "C17-4"),
    ("ml-resolver-loser-stored", ML, "                if winner is not existing:\n                    self._versions[key] = winner\n                    yield from self._store.put(key, winner.value)\n                    self._merkle.update(key, winner.value)\n\n        return None\n\n    def _handle_anti_entropy(", "                if winner is not existing:\n                    self._versions[key] = winner\n                    yield from self._store.put(key, value)\n                    self._merkle.update(key, winner.value)\n\n        return None\n\n    def _handle_anti_entropy(", "C17-4"),
    ("ml-ae-response-applies-concurrent-blindly", ML, "                    # Concurrent — resolve\n                    self._conflicts_detected += 1\n                    winner = self._resolver.resolve(key, [existing, remote_vv])\n                    self._conflicts_resolved += 1\n                    if winner is not existing:",
     "                    # Concurrent — resolve\n                    self._conflicts_detected += 1\n                    winner = remote_vv\n                    self._conflicts_resolved += 1\n                    if winner is not existing:", "C17-4"),
    ("ml-ae-request-existing-read-once", ML, ["        # Apply their data locally (reconcile)\n        for key, vdata in remote_versions.items():\n            remote_vv = VersionedValue(", "            )\n            existing = self._versions.get(key)\n            if existing is None:\n                self._versions[key] = remote_vv"],
     ["        # Apply their data locally (reconcile)\n        snapshot = dict(self._versions)\n        for key, vdata in remote_versions.items():\n            remote_vv = VersionedValue(", "            )\n            existing = snapshot.get(key)\n            if existing is None:\n                self._versions[key] = remote_vv"], "C17-4"),
    ("ml-dominates-weak", ML, "        if val_a > val_b:\n            any_gt = True\n    return all_geq and any_gt", "        if val_a > val_b:\n            any_gt = True\n    return all_geq", "C17-4"),
    ("cr-dominates-swapped", CR, "        if val_a < val_b:\n            all_geq = False\n            break\n        if val_a > val_b:\n            any_gt = True", "        if val_a > val_b:\n            all_geq = False\n            break\n        if val_a < val_b:\n            any_gt = True", "C17-4"),
    ("lww-no-tiebreak", CR, "        return (ts, 0, v.writer_id)", "        return (ts, 0, 0)", "C17-4"),
    ("ml-write-replicates-fresh-clock", ML, "                        \"vector_clock\": vc_snapshot,\n                    },\n                )\n            )\n            self._replications_sent += 1", "                        \"vector_clock\": self._vclock.send() if self._vclock else vc_snapshot,\n                    },\n                )\n            )\n            self._replications_sent += 1", "C17-4"),
    ("ml-replicate-skips-clock-merge", ML, "        if self._vclock is not None and remote_vc:\n            self._vclock.receive(remote_vc)\n", "", "C17-4"),
    ("rs-put-stops-at-quorum", RS, "                latencies.append(replica_latency)\n                acks += 1\n", "                latencies.append(replica_latency)\n                acks += 1\n                if acks >= required:\n                    break\n", "C17-5"),
    ("rs-success-without-quorum", RS, "        if acks >= required:\n            self._write_successes += 1", "        if acks >= 1:\n            self._write_successes += 1", "C17-5"),
    ("rs-quorum-half", RS, "        return len(self._replicas) // 2 + 1", "        return (len(self._replicas) + 1) // 2", "C17-5"),
]
REFACTORS = [
    ("backup-guard-flipped", PB, "        if seq > self._applied_seq_by_key.get(key, -1):", "        if self._applied_seq_by_key.get(key, -1) < seq:"),
    ("ml-dominates-renamed-locals", ML, ["        val_a = a.get(k, 0)\n        val_b = b.get(k, 0)\n        if val_a < val_b:\n            all_geq = False\n            break\n        if val_a > val_b:\n            any_gt = True"],
     ["        x = a.get(k, 0)\n        y = b.get(k, 0)\n        if x < y:\n            all_geq = False\n            break\n        if y < x:\n            any_gt = True"]),
]
