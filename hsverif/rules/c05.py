"""C05 — partitioned parallel execution is equivalent to sequential execution (structural clauses)."""

from __future__ import annotations

import ast

from ..astutil import calls_in, norm_stmt, path_of, unparse, walk_scope, walk_stmts
from ..cfg import own_exprs
from ..facts import Fact, atoms, enumerate_paths
from ..report import Ctx
from .c01 import LoopInfo, _rule_horizon
from .common import always_before, expand, guard, need, node_of, single_defs, stmts_matching, xpath

SIM = "happysimulator/core/simulation.py"
PSIM = "happysimulator/parallel/simulation.py"
COORD = "happysimulator/parallel/coordinator.py"
ROUT = "happysimulator/parallel/routing.py"
VAL = "happysimulator/parallel/validation.py"
LINK = "happysimulator/parallel/link.py"

EXPLANATION = (
    "Structural necessary conditions of conservative window synchronisation: the window loop must not deliver beyond its "
    "horizon; the partition router sends every produced event to exactly one of {local heap, outbox with the send time, error}; "
    "the barrier exchange schedules every outbox entry exactly once (or drops it by the loss draw / raises) after validating the "
    "declared minimum latency and clears the outbox; window size <= min link latency is validated before any partition is built "
    "and min_latency > 0; every window's partitions are all joined before the exchange; each partition owns its clock and heap."
)
RULE_TEXT = "Instances: per loop / router / exchange path family / validation site / barrier ordering clause. Distinct by (rule, construct)."
NOT_DECIDED = ["float round-trip of window_end (truncation only shortens a window)", "thread scheduling of the worker pool",
               "that user models declare links truthfully / sampled link latencies respect min_latency"]
ASSUMPTIONS = ["ThreadPoolExecutor futures: result() returns only after the task finished"]


def _is_min_over(e, elt: str, it: str) -> bool:
    return (isinstance(e, ast.Call) and path_of(e.func) == "min" and len(e.args) == 1 and isinstance(e.args[0], (ast.GeneratorExp, ast.ListComp))
            and path_of(e.args[0].elt) == elt and len(e.args[0].generators) == 1 and path_of(e.args[0].generators[0].iter) == it
            and not e.args[0].generators[0].ifs)


def _has_call(n, pred) -> bool:
    return any(isinstance(c, ast.Call) and pred(c) for e in own_exprs(n) for c in walk_scope(e))


def rule_per_partition_accumulators(ctx: Ctx) -> None:
    """C05-2: a container that is stored *per partition* (`table[p.name] = frozenset(acc)`, `self._outboxes[p.name] = acc`) inside a loop over the
    partitions is created inside that loop — one object per partition.  An accumulator hoisted out of the loop makes every later
    partition's set contain the earlier partitions' members: their cross-partition traffic is then treated as local and bypasses the barrier."""
    prog = ctx.prog
    n = 0
    for rel in (PSIM, COORD, ROUT, VAL):
        for fn in prog.module(rel).all_functions:
            for lp in walk_scope(fn.node):
                if not (isinstance(lp, ast.For) and isinstance(lp.target, ast.Name) and unparse(lp.iter).replace(" ", "") in ("partitions", "self._partitions")):
                    continue
                v = lp.target.id
                for st in walk_stmts(lp.body):
                    if not (isinstance(st, ast.Assign) and isinstance(st.targets[0], ast.Subscript) and unparse(st.targets[0].slice).replace(" ", "") == f"{v}.name"):
                        continue
                    accs = {y.id for y in ast.walk(st.value) if isinstance(y, ast.Name) and y.id != v}
                    for a in sorted(accs):
                        # is `a` a container grown in this loop?
                        grown = any(isinstance(c, ast.Call) and isinstance(c.func, ast.Attribute) and path_of(c.func.value) == a and c.func.attr in ("add", "update", "append", "extend", "__ior__")
                                    for c in calls_in(lp)) or any(isinstance(c, ast.AugAssign) and path_of(c.target) == a for c in walk_stmts(lp.body))
                        binds_in = [d for d in walk_stmts(lp.body) if isinstance(d, (ast.Assign, ast.AnnAssign)) and path_of(d.targets[0] if isinstance(d, ast.Assign) else d.target) == a and d.value is not None]
                        binds_all = [d for d in walk_scope(fn.node, include_root=False) if isinstance(d, (ast.Assign, ast.AnnAssign)) and path_of(d.targets[0] if isinstance(d, ast.Assign) else d.target) == a and d.value is not None]
                        if not grown and not binds_in:
                            continue  # a value computed elsewhere and merely looked up here (e.g. a parameter): not an accumulator
                        n += 1
                        ok = bool(binds_in) and len(binds_in) == len(binds_all) and binds_in[0] in lp.body and all(
                            isinstance(d.value, (ast.List, ast.Set, ast.Dict, ast.ListComp, ast.SetComp, ast.DictComp, ast.Call)) for d in binds_in)  # built here, not an alias of an outer object
                        ctx.ob("C05-2", "G6", fn, st, ok, f"{fn.qual}: `{a}`, stored for partition `{v}` by `{norm_stmt(st)[:60]}`, is a fresh container created inside the loop over the partitions "
                               "(one object per partition; a shared accumulator leaks earlier partitions' members into later ones)")
    need(n >= 2, f"C05-2: expected >= 2 per-partition accumulators (entity-id sets, outboxes), found {n}")


def rule_window_loop_shape(ctx: Ctx) -> None:
    """C05-1: the loop that runs a partition up to a window end treats each popped event in exactly one of four ways — cancelled (counted,
    nothing else), late (dropped, nothing else), delivered, delivered with products pushed.  In particular a cancelled event does not move the
    partition's clock: an idle partition whose next heap entry is a cancelled far-future timer would otherwise jump ahead and later discard
    the cross-partition arrivals of the windows in between as time travel."""
    from .c04 import LoopInfo, _project

    fast = LoopInfo(ctx, ctx.prog.func(SIM, "Simulation._execute_until"))
    seqs = {}
    for p_ in enumerate_paths(fast.ff, fast.loop_head, stop=fast.is_loop_head):
        if p_.end == "raise" or not any(n_ is fast.pop_node for n_ in p_.nodes):
            continue
        seqs.setdefault(_project(ctx, fast, p_), p_.describe())
    want = {("POP", "CANC+1"), ("POP",), ("POP", "CLOCK", "PROC+1", "TIME", "INVOKE"), ("POP", "CLOCK", "PROC+1", "TIME", "INVOKE", "PUSH")}
    got = set(seqs)
    ctx.ob("C05-1", "G4", fast.fn, "window loop: per-event effect sequences", got == want,
           "Simulation._execute_until: per popped event the core effects are " + ", ".join("·".join(s_) for s_ in sorted(got))
           + ("" if got == want else " — expected " + ", ".join("·".join(s_) for s_ in sorted(want)) + " (a cancelled or late event must not touch the clock)"), node=fast.while_stmt)


def rule_membership_tables(ctx: Ctx) -> None:
    """C05-2: every table that says which partition a component lives in covers entities, sources and probes alike (a cross-partition
    event may target a source or a probe; the coordinator drops events whose target it cannot place)."""
    prog = ctx.prog
    n = 0
    for rel in (PSIM, COORD, ROUT, VAL):
        for fn in prog.module(rel).all_functions:
            kinds = set()
            keyed = False
            for x in walk_scope(fn.node):
                it = None
                if isinstance(x, ast.For):
                    it = x.iter
                elif isinstance(x, ast.comprehension):
                    it = x.iter
                if it is not None and isinstance(it, (ast.Tuple, ast.List)) and it.elts and all(isinstance(e_, ast.Attribute) and e_.attr in ("entities", "sources", "probes") for e_ in it.elts):
                    # `for group in (p.entities, p.sources, p.probes): for member in group: table[id(member)] = …` — one loop over all kinds
                    gvar = path_of(x.target)
                    inner_ok = isinstance(x, ast.For) and any(isinstance(y, ast.For) and path_of(y.iter) == gvar and any(
                        isinstance(c, ast.Call) and path_of(c.func) == "id" and [path_of(a) for a in c.args] == [path_of(y.target)] for st in y.body for c in ast.walk(st)) for y in walk_stmts(x.body))
                    if inner_ok or not isinstance(x, ast.For):
                        kinds |= {e_.attr for e_ in it.elts}
                if it is not None and isinstance(it, ast.Attribute) and it.attr in ("entities", "sources", "probes") and isinstance(it.value, ast.Name):
                    var = path_of(x.target)
                    scope = x.body if isinstance(x, ast.For) else None
                    if scope is None:
                        kinds.add(it.attr)  # comprehension: the element expression is the table entry
                    elif any(isinstance(c, ast.Call) and path_of(c.func) == "id" and [path_of(a) for a in c.args] == [var] for st in scope for c in ast.walk(st)):
                        kinds.add(it.attr)
                if isinstance(x, ast.Call) and path_of(x.func) == "id":
                    keyed = True
            # only tables that leave the function (returned, or handed to the coordinator / a router factory): a table used locally to validate
            # the configuration places nothing
            tables = set()
            for x in walk_scope(fn.node):
                if isinstance(x, (ast.Assign, ast.AnnAssign)):
                    t = x.targets[0] if isinstance(x, ast.Assign) else x.target
                    v = x.value
                    if isinstance(t, ast.Subscript) and isinstance(t.slice, ast.Call) and path_of(t.slice.func) == "id":
                        tables.add(path_of(t.value))
                    if isinstance(t, ast.Name) and v is not None and any(isinstance(c, ast.Call) and path_of(c.func) == "id" for c in ast.walk(v)) and isinstance(v, (ast.DictComp, ast.SetComp, ast.Dict, ast.Set)):
                        tables.add(t.id)
                if isinstance(x, ast.Call) and isinstance(x.func, ast.Attribute) and x.func.attr in ("add", "update") and any(isinstance(c, ast.Call) and path_of(c.func) == "id" for a in x.args for c in ast.walk(a)):
                    tables.add(path_of(x.func.value))
            escapes = False
            for x in walk_scope(fn.node):
                if isinstance(x, ast.Return) and x.value is not None and any(path_of(y) in tables for y in ast.walk(x.value)):
                    escapes = True
                if isinstance(x, ast.Call) and not (isinstance(x.func, ast.Attribute) and path_of(x.func.value) in tables):
                    for a in list(x.args) + [k.value for k in x.keywords]:
                        if path_of(a) in tables:
                            escapes = True
            if (rel, fn.qual) == (VAL, "validate_partitions"):
                continue  # named exemption: its table only serves the "entity referenced across partitions without a link" validation of *entities*; it places no event
            if "entities" in kinds and keyed and escapes:
                n += 1
                ctx.ob("C05-2", "G4", fn, "membership covers entities, sources, probes", kinds == {"entities", "sources", "probes"},
                       f"{fn.qual} builds a component→partition table by identity; it iterates {sorted(kinds)} of each partition (all three kinds are needed)")
    need(n >= 2, f"C05-2: expected >= 2 partition membership tables, found {n}")


def run(ctx: Ctx) -> None:
    prog = ctx.prog
    ctx.guarded(rule_membership_tables)
    ctx.guarded(rule_per_partition_accumulators)
    ctx.guarded(rule_window_loop_shape)
    # ---- C05-1 horizon of the window loop
    L = LoopInfo(ctx, prog.func(SIM, "Simulation._execute_until"))
    _rule_horizon(ctx, L, rule="C05-1")
    rw = prog.func(SIM, "Simulation._run_window")
    wparam = [p for p in rw.params() if p != "self"][0]
    calls = [c for c in calls_in(rw.node) if path_of(c.func) == "self._execute_until"]
    ok = len(calls) == 1 and unparse(calls[0].args[0]) == f"{wparam}.nanoseconds"
    ctx.ob("C05-1", "G7", rw, calls[0] if calls else None, ok, "a window runs the shared loop up to exactly the window end passed by the coordinator")
    # router receives the produced events and the *current* time as send time
    rcalls = [c for c in calls_in(L.fn.node) if xpath(c.func, L.al) == "self._event_router"]
    need(len(rcalls) == 1, "C05-2: expected one router call in _execute_until")
    args = [path_of(a) for a in rcalls[0].args]
    ctx.ob("C05-2", "G7", L.fn, rcalls[0], args == [L.result, L.carrier],
           f"the router is given the produced events and the delivery instant as send time (got {args})")
    rn = node_of(L.ff.cfg, rcalls[0])
    ok = isinstance(rn.ast, ast.Assign) and path_of(rn.ast.targets[0]) == L.result
    ctx.ob("C05-2", "G2", L.fn, "router result replaces produced events", ok, "only the events the router classifies as local are pushed onto this partition's heap", node=rcalls[0])

    # ---- C05-2 route(): exactly one of local / outbox / raise per event
    route = prog.func(ROUT, "make_event_router.<locals>.route")
    rff = ctx.flow(route)
    loops = [st for st in walk_stmts(route.node.body) if isinstance(st, ast.For)]
    need(len(loops) == 1, "C05-2: route() should have one loop over events")
    lp = loops[0]
    evp, tparam = route.params()[0], route.params()[1]
    ctx.ob("C05-2", "G2", route, lp, path_of(lp.iter) == evp, "route() visits every produced event")
    ev = path_of(lp.target)
    head = node_of(rff.cfg, lp)
    rets = [s for s in walk_stmts(route.node.body) if isinstance(s, ast.Return)]
    local_name = path_of(rets[-1].value) if rets else None
    bad = []
    kinds = {"local": 0, "outbox": 0, "raise": 0}
    for p in enumerate_paths(rff, head, stop=lambda n: n is head):
        if not p.nodes or p.labels[0] is None or p.labels[0][1] is not True:
            continue  # loop exit
        loc = sum(1 for n in p.nodes if _has_call(n, lambda c: path_of(c.func) == f"{local_name}.append" and [path_of(a) for a in c.args] == [ev]))
        out = [c for n in p.nodes for e in own_exprs(n) for c in walk_scope(e) if isinstance(c, ast.Call) and path_of(c.func) == "outbox.append"]
        if p.end == "raise":
            kinds["raise"] += 1
            if loc or out:
                bad.append(f"path [{p.describe()}] raises after already routing the event")
            continue
        if loc + len(out) != 1:
            bad.append(f"path [{p.describe()}]: local x{loc}, outbox x{len(out)} (want exactly one)")
        if loc:
            kinds["local"] += 1
        for c in out:
            kinds["outbox"] += 1
            a = c.args[0] if c.args else None
            if not (isinstance(a, ast.Tuple) and [path_of(x) for x in a.elts] == [ev, tparam]):
                bad.append(f"outbox entry must be (event, send time `{tparam}`), got `{unparse(a)}`")
    need(kinds["local"] and kinds["outbox"] and kinds["raise"], f"C05-2: route() lacks a branch kind {kinds}")
    ctx.ob("C05-2", "G2", route, "each event: local | outbox | error", not bad,
           f"every produced event takes exactly one of local list / outbox (with its send time) / error ({kinds}) — " + ("ok" if not bad else "; ".join(bad[:3])), node=lp)
    # membership tests use the identities the closure was built with
    for fact_src, what in ((f"tid in local_entity_ids", "local"), (f"tid in linked_entity_ids", "linked")):
        pass

    # ---- C05-2/3 exchange
    ex = prog.func(COORD, "WindowedCoordinator._exchange_events")
    eff = ctx.flow(ex)
    inner = [st for st in walk_stmts(ex.node.body) if isinstance(st, ast.For) and isinstance(st.target, ast.Tuple) and path_of(st.iter) == "outbox"]
    need(len(inner) == 1, "C05-2: inner loop over the outbox not found in _exchange_events")
    il = inner[0]
    evn, stn = [path_of(x) for x in il.target.elts]
    ih = node_of(eff.cfg, il)
    bad = []
    kinds = {"scheduled": 0, "lost": 0, "unknown-target": 0, "raise": 0}
    for p in enumerate_paths(eff, ih, stop=lambda n: n is ih):
        if not p.nodes or p.labels[0] is None or p.labels[0][1] is not True:
            continue
        sched = [c for n in p.nodes for e in own_exprs(n) for c in walk_scope(e) if isinstance(c, ast.Call) and isinstance(c.func, ast.Attribute) and c.func.attr == "schedule"]
        if p.end == "raise":
            kinds["raise"] += 1
            if sched:
                bad.append("raises after scheduling")
            continue
        if sched:
            kinds["scheduled"] += 1
            if len(sched) != 1 or [path_of(a) for a in sched[0].args] != [evn]:
                bad.append(f"path [{p.describe()}] schedules {len(sched)}x / wrong event")
            recv = unparse(sched[0].func.value).replace(" ", "")
            if recv != "self._simulations[dest_name]":
                bad.append(f"event scheduled on `{recv}` instead of the destination partition")
            override = p.decided(lambda t: t == "link.latencyisnotNone")
            stamp_at = -1
            if override is True:
                ws = [(i, n.ast) for i, n in enumerate(p.nodes) if n.kind == "stmt" and isinstance(n.ast, ast.Assign) and path_of(n.ast.targets[0]) == f"{evn}.time"]
                if len(ws) != 1 or not (isinstance(ws[0][1].value, ast.BinOp) and isinstance(ws[0][1].value.op, ast.Add) and path_of(ws[0][1].value.left) == stn):
                    bad.append("latency override must re-stamp the event at send_time + sampled latency")
                else:
                    stamp_at = ws[0][0]
                    for c in walk_scope(ws[0][1].value.right):
                        if isinstance(c, ast.Call) and isinstance(c.func, ast.Attribute) and path_of(c.func.value) == "link.latency":
                            ld = prog.cls("happysimulator/distributions/latency_distribution.py", "LatencyDistribution")
                            if c.func.attr not in ld.methods:
                                bad.append(f"latency override calls `link.latency.{c.func.attr}()`, which LatencyDistribution does not define")
            # min-latency validation must have passed on the *final* arrival time (sampled or sender-stamped): an earlier arrival
            # can land behind the destination partition's clock
            chk = [(i, n, l) for i, (n, l) in enumerate(zip(p.nodes, p.labels)) if n.kind == "test" and l is not None and "min_latency" in unparse(n.ast)]
            if not chk or chk[-1][2][1] is not False:
                bad.append(f"path [{p.describe()}] schedules a cross-partition event without the min_latency check having passed")
            elif chk[-1][0] < stamp_at:
                bad.append(f"path [{p.describe()}] validates min_latency before the latency override re-stamps the event")
            else:
                f = atoms(chk[-1][1].ast, True)[0]
                if not (f.op == "lt" and "min_latency" in f.b):
                    bad.append(f"min-latency test has the wrong direction: `{unparse(chk[-1][1].ast)}`")
                dl_ = [i for i, n in enumerate(p.nodes) if n.kind == "stmt" and isinstance(n.ast, ast.Assign) and path_of(n.ast.targets[0]) == "delay"]
                if not dl_ or dl_[-1] < stamp_at:
                    bad.append(f"path [{p.describe()}] measures the delay before the latency override re-stamps the event")
        else:
            if p.decided(lambda t: "packet_loss" in t and "random()" in t) is True:
                kinds["lost"] += 1
            elif p.decided(lambda t: t == "dest_nameisNone") is True:
                kinds["unknown-target"] += 1
            else:
                bad.append(f"path [{p.describe()}] silently drops a cross-partition event")
    need(kinds["scheduled"] >= 2 and kinds["raise"] >= 2, f"C05-2: exchange lacks path kinds {kinds}")
    ctx.ob("C05-2", "G2", ex, "each outbox entry: schedule once | loss draw | error", not bad,
           f"no cross-partition event is lost or duplicated at the barrier ({kinds}) — " + ("ok" if not bad else "; ".join(bad[:3])), node=il)
    # delay is measured from the send time
    dl = stmts_matching(ex, "delay = _E_")
    ok = len(dl) == 1 and unparse(dl[0][1]["_E_"]).replace(" ", "") == f"({evn}.time-{stn}).to_seconds()"
    ctx.ob("C05-3", "G7", ex, dl[0][0] if dl else il, ok, "the validated delay is event.time − send_time")
    # outbox cleared after its loop
    clr = [c for c in calls_in(ex.node) if path_of(c.func) == "outbox.clear"]
    ok = len(clr) == 1
    if ok:
        cn = node_of(eff.cfg, clr[0])
        outer = [st for st in walk_stmts(ex.node.body) if isinstance(st, ast.For) and any(x is il for x in ast.walk(st)) and st is not il]
        ok = bool(outer) and any(s is cn.ast for s in outer[0].body) and cn.in_loops == node_of(eff.cfg, outer[0]).in_loops
    ctx.ob("C05-2", "G2", ex, "outbox.clear()", ok, "each outbox is emptied exactly once per barrier, after all its entries were handled (no event is exchanged twice)",
           node=clr[0] if clr else il)

    # ---- C05-4 validation
    pinit = prog.func(PSIM, "ParallelSimulation.__init__")
    pff = ctx.flow(pinit)
    vcalls = [c for c in calls_in(pinit.node) if path_of(c.func) == "validate_partitions"]
    need(len(vcalls) == 1, "C05-4: ParallelSimulation.__init__ does not call validate_partitions")
    ok_args = len(vcalls[0].args) >= 3 and path_of(vcalls[0].args[2]) == "window_size"
    ctx.ob("C05-4", "G7", pinit, vcalls[0], ok_args, "the user's window_size is what gets validated")
    vn = node_of(pff.cfg, vcalls[0])
    bad_nodes = always_before(ctx, pinit, lambda n: n is vn, lambda n: _has_call(n, lambda c: path_of(c.func) == "Simulation"))
    ctx.ob("C05-4", "G2", pinit, "validate before building partitions", not bad_nodes, "validation (including window <= min latency) runs before any partition Simulation is built")
    vp = prog.func(VAL, "validate_partitions")
    raises = [st for st in walk_stmts(vp.node.body) if isinstance(st, ast.If) and "window_size" in unparse(st.test) and "min" in unparse(st.test) + unparse(st.body[0])
              and any(isinstance(b, ast.Raise) for b in st.body)]
    okw = False
    for st in raises:
        f = atoms(st.test, True)
        if len(f) == 1 and f[0].op == "lt" and f[0].b == "window_size":
            src = None
            for s2 in walk_stmts(vp.node.body):
                if isinstance(s2, ast.Assign) and path_of(s2.targets[0]) == f[0].a:
                    src = s2.value
            if src is not None and _is_min_over(src, "link.min_latency", "links"):
                okw = True
    ctx.ob("C05-4", "G1", vp, "window_size > min latency raises", okw,
           "a window larger than the smallest declared link latency is rejected (strictly-greater test against min over all links)", node=vp.node)
    ws = stmts_matching(pinit, "self._window_size = _E_")
    sd_p = single_defs(pinit)
    pff = ctx.flow(pinit)

    def _min_lat(e_):
        return _is_min_over(expand(e_, sd_p), "link.min_latency", "self._links")

    def _default_of(e_, node_):
        """the value this write gives the window when no window_size was passed: an expression, or None if the write is not reached then"""
        if isinstance(e_, ast.IfExp) and unparse(e_.test).replace(" ", "") == "window_sizeisnotNone":
            return e_.orelse
        if isinstance(e_, ast.IfExp) and unparse(e_.test).replace(" ", "") == "window_sizeisNone":
            return e_.body
        have = set(pff.facts_at(node_).keys())
        if ("isnot", "window_size", "None") in have:
            return None
        return e_
    # (written as one conditional expression, or as an if / elif / else chain over `self._links` and `window_size`)
    defaults = [d_ for st_, b_ in ws for d_ in [_default_of(b_["_E_"], node_of(pff.cfg, st_))] if d_ is not None and not (isinstance(d_, ast.Constant) and d_.value == 0.0)]
    okd = bool(defaults) and all(_min_lat(d_) for d_ in defaults)
    ctx.ob("C05-4", "G7", pinit, "default window = min link latency", okd, "without an explicit window the barrier window is the minimum link latency")
    # every write of the window size is the validated argument or the minimum link latency (never something larger)
    for st_, b_ in ws:
        txt = unparse(b_["_E_"]).replace(" ", "")
        allowed = txt in ("window_sizeifwindow_sizeisnotNoneelsemin_link_latency", "0.0", "min_link_latency", "window_size") or _min_lat(b_["_E_"]) or (
            isinstance(b_["_E_"], ast.IfExp) and all(unparse(x_).replace(" ", "") in ("window_size", "0.0") or _min_lat(x_) for x_ in (b_["_E_"].body, b_["_E_"].orelse))) or (
            isinstance(b_["_E_"], ast.Call) and path_of(b_["_E_"].func) == "min" and any(path_of(a) == "min_link_latency" for a in b_["_E_"].args))
        ctx.ob("C05-4", "G6", pinit, st_, allowed, f"the barrier window is only ever set to the validated window_size or (at most) the minimum link latency — `{norm_stmt(st_)}`"
               + ("" if allowed else ": this value was never validated against the smallest link latency"))
    cinit = prog.func(COORD, "WindowedCoordinator.__init__")
    cws = stmts_matching(cinit, "self._window_size = _E_")
    ctx.ob("C05-4", "G7", cinit, cws[0][0] if cws else None, len(cws) == 1 and path_of(cws[0][1]["_E_"]) == "window_size", "the coordinator uses exactly the window it was given")
    for fn_ in [f for f in prog.module(COORD).all_functions if f.cls is not None and f.name != "__init__"]:
        for st_ in walk_stmts(fn_.node.body):
            if isinstance(st_, (ast.Assign, ast.AugAssign)) and path_of(st_.targets[0] if isinstance(st_, ast.Assign) else st_.target) == "self._window_size":
                ctx.ob("C05-4", "G6", fn_, st_, False, "the window size is changed after validation")
    pl = prog.func(LINK, "PartitionLink.__post_init__")
    guard_ok = False
    for st in walk_stmts(pl.node.body):
        if isinstance(st, ast.If) and any(isinstance(b, ast.Raise) for b in st.body):
            f = atoms(st.test, True)
            if len(f) == 1 and f[0].sig == ("le", "self.min_latency", "0"):
                guard_ok = True
    ctx.ob("C05-4", "G1", pl, "min_latency <= 0 raises", guard_ok, "links must declare a strictly positive minimum latency")

    # ---- C05-5 barrier ordering in WindowedCoordinator.run
    run_ = prog.func(COORD, "WindowedCoordinator.run")
    cff = ctx.flow(run_)
    exc = [c for c in calls_in(run_.node) if path_of(c.func) == "self._exchange_events"]
    need(len(exc) == 1, "C05-5: run() must call _exchange_events once per window")
    exn = node_of(cff.cfg, exc[0])
    join_loops = [st for st in walk_stmts(run_.node.body) if isinstance(st, ast.For) and isinstance(st.iter, ast.Call) and path_of(st.iter.func) == "as_completed"]
    need(len(join_loops) == 1, "C05-5: no as_completed(...) join loop")
    jl = join_loops[0]
    joined = any(isinstance(c.func, ast.Attribute) and c.func.attr == "result" and path_of(c.func.value) == path_of(jl.target) for c in calls_in(jl))
    fut_name = path_of(jl.iter.args[0])
    # submission: one iteration over all of self._simulations (a for loop or a comprehension) whose every element is submitted and kept in
    # the collection that is joined
    def _key_var(target, it):
        txt = unparse(it).replace(" ", "")
        if txt in ("self._simulations", "self._simulations.keys()") and isinstance(target, ast.Name):
            return target.id
        if txt == "self._simulations.items()" and isinstance(target, ast.Tuple) and isinstance(target.elts[0], ast.Name):
            return target.elts[0].id
        return None
    subs, sub_keys, sub_ok = [], [], False
    for st in walk_stmts(run_.node.body):
        if isinstance(st, ast.For) and any(path_of(c.func) == "pool.submit" for c in calls_in(st)):
            kv = _key_var(st.target, st.iter)
            if kv is not None:
                subs.append(st)
                sub_keys.append(kv)
                sub_ok = len(st.body) >= 1 and not any(isinstance(x, (ast.If, ast.Continue, ast.Break, ast.Try)) for x in walk_stmts(st.body)) and any(
                    (isinstance(s, ast.Assign) and isinstance(s.targets[0], ast.Subscript) and path_of(s.targets[0].value) == fut_name and any(path_of(c.func) == "pool.submit" for c in calls_in(s)))
                    or (isinstance(s, ast.Expr) and isinstance(s.value, ast.Call) and path_of(s.value.func) in (f"{fut_name}.append", f"{fut_name}.add") and any(path_of(c.func) == "pool.submit" for c in calls_in(s)))
                    for s in st.body)
        elif isinstance(st, (ast.Assign, ast.AnnAssign)) and isinstance(st.value, (ast.DictComp, ast.ListComp, ast.SetComp)) and any(path_of(c.func) == "pool.submit" for c in calls_in(st.value)) \
                and path_of(st.targets[0] if isinstance(st, ast.Assign) else st.target) == fut_name:
            g = st.value.generators
            kv = _key_var(g[0].target, g[0].iter) if len(g) == 1 and not g[0].ifs else None
            if kv is not None:
                subs.append(st)
                sub_keys.append(kv)
                elt = st.value.key if isinstance(st.value, ast.DictComp) else st.value.elt
                sub_ok = isinstance(elt, ast.Call) and path_of(elt.func) == "pool.submit"
    sub_ok = sub_ok and len(subs) == 1
    ctx.ob("C05-5", "G2", run_, jl, joined and sub_ok, "every partition of the window is submitted and its future joined (result()) — the barrier covers all partitions")
    jn = node_of(cff.cfg, jl)
    # exchange must come after the join loop has finished: the false edge of the join loop dominates the exchange
    bad_nodes = always_before(ctx, run_, lambda n: n is jn, lambda n: n is exn)
    after = exn.in_loops == jn.in_loops[:-1] if jn.in_loops else True
    ctx.ob("C05-5", "G2", run_, exc[0], not bad_nodes and after, "events are exchanged only after all partitions reached the window end (exchange outside and after the join loop)")
    adv = stmts_matching(run_, "current_time = window_end")
    ok = len(adv) == 1 and not always_before(ctx, run_, lambda n: n is exn, lambda n: n.ast is adv[0][0])
    ctx.ob("C05-5", "G2", run_, adv[0][0] if adv else None, ok, "the coordinator advances to the window end only after the exchange")
    sub_args = [[unparse(a) for a in c.args] for c in calls_in(subs[0]) if path_of(c.func) == "pool.submit"] if subs else []
    ctx.ob("C05-5", "G7", run_, "all partitions get the same window end", len(subs) == 1 and sub_args == [["self._run_partition_window", sub_keys[0], "window_end"]],
           f"every partition runs to the same barrier time (submit args {sub_args})", node=subs[0] if subs else run_.node)
    clamp = [st for st in walk_stmts(run_.node.body) if isinstance(st, ast.If) and unparse(st.test).replace(" ", "") == "window_end_s>end_s"]
    clamp_ok = len(clamp) == 1 and norm_stmt(clamp[0].body[0]) == "window_end_s = end_s"
    if not clamp:
        # the same clamp written with min(): `window_end_s = min(window_end_s, <end_time in seconds>)`
        sd_r = single_defs(run_)
        clamp = [st for st in walk_stmts(run_.node.body) if isinstance(st, ast.Assign) and path_of(st.targets[0]) == "window_end_s" and isinstance(st.value, ast.Call)
                 and path_of(st.value.func) == "min" and len(st.value.args) == 2 and not st.value.keywords and any(path_of(a) == "window_end_s" for a in st.value.args)
                 and any(unparse(expand(a, sd_r)).replace(" ", "") == "self._end_time.to_seconds()" for a in st.value.args)]
        clamp_ok = len(clamp) == 1
    ctx.ob("C05-5", "G1", run_, "window end clamped to end_time", clamp_ok,
           "the last window is clamped to end_time", node=clamp[0] if clamp else run_.node)
    rpw = prog.func(COORD, "WindowedCoordinator._run_partition_window")
    c2 = [c for c in calls_in(rpw.node) if isinstance(c.func, ast.Attribute) and c.func.attr == "_run_window"]
    rebinds = [norm_stmt(s_) for s_ in walk_stmts(rpw.node.body) if isinstance(s_, (ast.Assign, ast.AugAssign, ast.AnnAssign))
               and path_of(s_.targets[0] if isinstance(s_, ast.Assign) else s_.target) in ("window_end", "name")]
    ok = len(c2) == 1 and unparse(c2[0].func.value).replace(" ", "") == "self._simulations[name]" and [path_of(a) for a in c2[0].args] == ["window_end"] and not rebinds
    # early termination is decided on the state *after* the exchange
    brk = [x for x in cff.cfg.nodes if x.kind == "stmt" and isinstance(x.ast, ast.Break)]
    wl = [s_ for s_ in walk_stmts(run_.node.body) if isinstance(s_, ast.While)]
    ok_brk = True
    why_brk = ""
    for s_ in walk_stmts(wl[0].body) if wl else []:
        if isinstance(s_, ast.If) and any(isinstance(b, ast.Break) for b in walk_stmts(s_.body)):
            names = {x.id for x in ast.walk(s_.test) if isinstance(x, ast.Name)}
            defs = [d for d in walk_stmts(wl[0].body) if isinstance(d, (ast.Assign, ast.AugAssign)) and path_of(d.targets[0] if isinstance(d, ast.Assign) else d.target) in names]
            src = unparse(s_.test) + " ".join(unparse(d) for d in defs)
            if "has_events" not in src or "self._simulations" not in src:
                ok_brk, why_brk = False, f"the exhaustion test `{unparse(s_.test)[:60]}` does not inspect every partition's heap"
            tn = node_of(cff.cfg, s_.test if not isinstance(s_.test, ast.BoolOp) else s_.test.values[0]) if not isinstance(s_.test, ast.UnaryOp) else None
            for d in defs:
                if always_before(ctx, run_, lambda x: x is exn, lambda x, d=d: x.ast is d):
                    ok_brk, why_brk = False, f"`{norm_stmt(d)}` is computed before the exchange: events delivered at the barrier are not seen"
            if not defs:
                # direct inspection in the test: the test itself must come after the exchange
                tests = [x for x in cff.cfg.nodes if x.kind in ("test",) and any(y is x.ast for y in ast.walk(s_.test))]
                if any(always_before(ctx, run_, lambda x: x is exn, lambda x, t=t: x is t) for t in tests):
                    ok_brk, why_brk = False, "the exhaustion test runs before the exchange"
    ctx.ob("C05-5", "G2", run_, "early termination looks at the heaps after the exchange", ok_brk and bool(wl),
           "the run may stop early only when every partition heap is empty *after* the barrier exchange (cross-partition events in flight are deliveries too)" + ("" if ok_brk else " — " + why_brk))
    ctx.ob("C05-5", "G7", rpw, c2[0] if c2 else None, ok, "a worker runs exactly its own partition up to the window end")

    # ---- C05-6 ownership: every Simulation builds its own Clock and EventHeap; routers installed for every partition
    sinit = prog.func(SIM, "Simulation.__init__")
    own_clock = stmts_matching(sinit, "self._clock = Clock(_X_)")
    own_heap = [st for st, _ in stmts_matching(sinit, "self._event_heap = _H_") if isinstance(st.value, ast.Call) and path_of(st.value.func) == "EventHeap"]
    ctx.ob("C05-6", "G2", sinit, "own clock + heap", len(own_clock) == 1 and len(own_heap) == 1, "each partition Simulation constructs its own Clock and EventHeap (nothing shared between partitions)")
    ir = prog.func(PSIM, "ParallelSimulation._install_routers")
    # shape, independent of local names: inside `for V in self._partitions`, the router built from V's own entity set, the linked set
    # L[V.name] and a fresh outbox O registered as self._outboxes[V.name] is stored on self._simulations[V.name]
    mk = [c for c in calls_in(ir.node) if path_of(c.func) == "make_event_router"]
    sd = single_defs(ir)
    nsp = lambda e: unparse(e).replace(" ", "") if e is not None else None
    ok, why, L = False, "no make_event_router call inside a loop over self._partitions", None
    loops = [st for st in walk_stmts(ir.node.body) if isinstance(st, ast.For) and nsp(st.iter) == "self._partitions" and isinstance(st.target, ast.Name)
             and any(c in list(ast.walk(st)) for c in mk)]
    if len(mk) == 1 and len(loops) == 1:
        V = loops[0].target.id
        kwn = {k.arg: k.value for k in mk[0].keywords}
        kw = {k: nsp(v) for k, v in kwn.items()}
        stores = [st for st in walk_stmts(loops[0].body) if isinstance(st, ast.Assign) and nsp(st.targets[0]) == f"self._simulations[{V}.name]._event_router"]
        installed = len(stores) == 1 and (stores[0].value is mk[0] or (isinstance(stores[0].value, ast.Name) and sd.get(stores[0].value.id) is not None
                                                                          and nsp(sd[stores[0].value.id]) == nsp(mk[0])))
        linked = kwn.get("linked_entity_ids")
        inner = linked.args[0] if isinstance(linked, ast.Call) and path_of(linked.func) in ("frozenset", "set") and len(linked.args) == 1 else linked
        if isinstance(inner, ast.Subscript) and isinstance(inner.value, ast.Name) and nsp(inner.slice) == f"{V}.name":
            L = inner.value.id
        O = kwn.get("outbox")
        out_ok = isinstance(O, ast.Name) and any(isinstance(st, (ast.Assign, ast.AnnAssign)) and nsp(st.targets[0] if isinstance(st, ast.Assign) else st.target) == O.id
                                                and isinstance(st.value, ast.List) and not st.value.elts for st in loops[0].body) \
            and any(isinstance(st, ast.Assign) and nsp(st.targets[0]) == f"self._outboxes[{V}.name]" and nsp(st.value) == O.id for st in loops[0].body)
        ok = installed and kw.get("partition_name") == f"{V}.name" and kw.get("local_entity_ids") == f"self._entity_sets[{V}.name]" and L is not None and out_ok
        why = f"installed={installed} kwargs={kw} linked-map={L} outbox-registered={out_ok}"
    ctx.ob("C05-6", "G7", ir, mk[0] if mk else None, ok, "each partition's router knows exactly its own entities as local and the destinations of its outgoing links as linked, "
           "and is installed on that partition's Simulation with that partition's registered outbox" + ("" if ok else " — " + why))
    lf = [st for st in walk_stmts(ir.node.body) if isinstance(st, ast.Expr) and isinstance(st.value, ast.Call) and L is not None and isinstance(st.value.func, ast.Attribute)
          and st.value.func.attr in ("update", "__ior__") and isinstance(st.value.func.value, ast.Subscript) and path_of(st.value.func.value.value) == L]
    lf_all = [st for st in walk_stmts(ir.node.body) if L is not None and any(isinstance(x, ast.Subscript) and path_of(x.value) == L and not isinstance(x.ctx, ast.Load) for x in ast.walk(st))]
    ok = len(lf) == 1 and not lf_all
    if ok:
        lp = [st for st in walk_stmts(ir.node.body) if isinstance(st, ast.For) and nsp(st.iter) == "self._links" and isinstance(st.target, ast.Name) and lf[0] in list(walk_stmts(st.body))]
        ok = len(lp) == 1
        if ok:
            K = lp[0].target.id
            ok = nsp(lf[0].value.func.value.slice) == f"{K}.source_partition" and len(lf[0].value.args) == 1 and nsp(expand(lf[0].value.args[0], sd)) == f"self._entity_sets[{K}.dest_partition]"
    init_l = [st for st in walk_stmts(ir.node.body) if L is not None and isinstance(st, (ast.Assign, ast.AnnAssign)) and nsp(st.targets[0] if isinstance(st, ast.Assign) else st.target) == L]
    ok = ok and len(init_l) == 1 and isinstance(init_l[0].value, ast.DictComp) and nsp(init_l[0].value.generators[0].iter) == "self._partitions" \
        and isinstance(init_l[0].value.value, ast.Call) and path_of(init_l[0].value.value.func) == "set" and not init_l[0].value.value.args
    ctx.ob("C05-6", "G7", ir, "links are directional", ok, "linked entities of a partition are those of the destination partitions of its outgoing links (the map starts empty for every partition and is only "
           "extended, per link, at the link's source with the entity set of the link's destination)")
    ri = prog.func(PSIM, "ParallelSimulation._run_independent")
    runs = [c for c in calls_in(ri.node) + [c for f in ri.module.all_functions if f.parent is ri for c in calls_in(f.node)] if isinstance(c.func, ast.Attribute) and c.func.attr == "run"
            and "self._simulations" in unparse(c.func.value)]
    ctx.ob("C05-6", "G2", ri, "independent partitions run as plain simulations", len(runs) == 1, "without links each partition is executed by its own Simulation.run() exactly once")
    prun = prog.func(PSIM, "ParallelSimulation.run")
    guard(ctx, "C05-6", prun, "return self._run_independent()", "not self._links", "the fire-and-forget mode is used only when there are no links")
    for r in ("C05-1", "C05-2", "C05-4", "C05-5", "C05-6"):
        ctx.floor(r, 2)


MUTANTS = [
    ("window-loop-cancelled-event-moves-clock", SIM, "            if event._cancelled:\n                events_cancelled += 1\n                continue\n\n            event_time = event.time\n            if event_time < current_time:", "            event_time = event.time\n            if event._cancelled:\n                events_cancelled += 1\n                current_time = event_time\n                continue\n\n            if event_time < current_time:", "C05-1"),
    ("entity-set-accumulator-hoisted", VAL, "    for p in partitions:\n        ids: set[int] = set()\n", "    ids: set[int] = set()\n    for p in partitions:\n", "C05-2"),
    ("coordinator-map-omits-sources-and-probes", PSIM, "                entity_to_partition[id(probe)] = p.name\n\n        coordinator = WindowedCoordinator(", "                pass\n\n        coordinator = WindowedCoordinator(", "C05-2"),
    ("override-calls-missing-method", COORD, "                    event.time = send_time + link.latency.get_latency(send_time)", "                    event.time = send_time + link.latency.sample()", "C05-2"),
    ("override-skips-min-latency-check", COORD, "                    event.time = send_time + link.latency.get_latency(send_time)\n\n", "                    event.time = send_time + link.latency.get_latency(send_time)\n                    self._simulations[dest_name].schedule(event)\n                    delivered += 1\n                    continue\n\n", "C05-2"),
    ("route-linked-also-local", ROUT, "                outbox.append((event, current_time))", "                outbox.append((event, current_time))\n                local.append(event)", "C05-2"),
    ("route-unknown-silently-dropped", ROUT, "                raise RuntimeError(\n                    f\"Partition '{partition_name}': event targets entity \"", "                continue\n                raise RuntimeError(\n                    f\"Partition '{partition_name}': event targets entity \"", "C05-2"),
    ("route-send-time-is-event-time", ROUT, "outbox.append((event, current_time))", "outbox.append((event, event.time))", "C05-2"),
    ("exchange-no-clear", COORD, "            outbox.clear()\n", "", "C05-2"),
    ("exchange-clear-inside-loop", COORD, "                delivered += 1\n\n            outbox.clear()\n", "                delivered += 1\n                outbox.clear()\n", "C05-2"),
    ("exchange-min-latency-unchecked", COORD, "                if delay < link.min_latency - 1e-12:", "                if False and delay < link.min_latency - 1e-12:", "C05-2"),
    ("exchange-schedules-on-source", COORD, "self._simulations[dest_name].schedule(event)", "self._simulations[source_name].schedule(event)", "C05-2"),
    ("exchange-delay-from-window-end", COORD, "delay = (event.time - send_time).to_seconds()", "delay = (event.time - window_end).to_seconds()", "C05-3"),
    ("window-check-dropped", VAL, "        if window_size > min_link_latency:", "        if window_size > 10 * min_link_latency:", "C05-4"),
    ("window-check-max", VAL, "min_link_latency = min(link.min_latency for link in links)", "min_link_latency = max(link.min_latency for link in links)", "C05-4"),
    ("default-window-max", PSIM, "min_link_latency = min(link.min_latency for link in self._links)", "min_link_latency = max(link.min_latency for link in self._links)", "C05-4"),
    ("link-zero-latency-allowed", LINK, "        if self.min_latency <= 0:", "        if self.min_latency < 0:", "C05-4"),
    ("validate-after-build", PSIM, "        validate_partitions(partitions, self._links, window_size)\n", "", "C05-4"),
    ("exchange-before-join", COORD, "                for future in as_completed(futures):\n                    name, elapsed = future.result()\n                    partition_wall_times[name] += elapsed\n\n                # 2. EXCHANGE (main thread, sequential)\n                barrier_start = _time.monotonic()\n                cross_events = self._exchange_events(window_end)\n",
     "                # 2. EXCHANGE (main thread, sequential)\n                barrier_start = _time.monotonic()\n                cross_events = self._exchange_events(window_end)\n                for future in as_completed(futures):\n                    name, elapsed = future.result()\n                    partition_wall_times[name] += elapsed\n\n", "C05-5"),
    ("no-clamp", COORD, "                    if window_end_s > end_s:\n                        window_end_s = end_s\n", "", "C05-5"),
    ("router-linked-both-ways", PSIM, "            linked_from[link.source_partition].update(dest_eids)", "            linked_from[link.dest_partition].update(dest_eids)", "C05-6"),
    ("fast-loop-router-ignored", SIM, "                    new_events = router(new_events, current_time)\n", "                    router(new_events, current_time)\n", "C05-2"),
]
MUTANTS += [
    ("free-running-partitions", COORD, "        t0 = _time.monotonic()\n        self._simulations[name]._run_window(window_end)", "        t0 = _time.monotonic()\n        if name.startswith(\"sink\"):\n            window_end = self._end_time\n        self._simulations[name]._run_window(window_end)", "C05-5"),
    ("default-window-retiled", PSIM, "            self._window_size = window_size if window_size is not None else min_link_latency\n", "            self._window_size = window_size if window_size is not None else min_link_latency\n            if window_size is None:\n                self._window_size = min_link_latency * 1.03\n", "C05-4"),
]
REFACTORS = [
    ("route-early-continue", ROUT, "            if tid in local_entity_ids:\n                local.append(event)\n            elif tid in linked_entity_ids:", "            if tid in local_entity_ids:\n                local.append(event)\n                continue\n            if tid in linked_entity_ids:"),
]
