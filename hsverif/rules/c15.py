"""C15 — durably acknowledged writes survive a crash at any point (ordering clauses)."""

from __future__ import annotations

import ast

from ..astutil import calls_in, norm_stmt, path_of, unparse, walk_scope, walk_stmts
from ..cfg import own_exprs
from ..facts import Fact, atoms, enumerate_paths
from ..report import Ctx
from ..suspend import node_suspension
from .common import NotTabulable, OrderEval, always_before, expand, filtered_copy, guard, increment_of, need, node_of, single_defs, stmts_matching

WAL = "happysimulator/components/storage/wal.py"
LSM = "happysimulator/components/storage/lsm_tree.py"
MEMT = "happysimulator/components/storage/memtable.py"

EXPLANATION = (
    "Write-ahead log: the durability point `synced_up_to = seq` is set only after the sync suspension of the same append and under "
    "the policy's should_sync test; sequence numbers are issued read-then-increment; crash keeps exactly the entries with "
    "sequence <= synced_up_to; recover replays in sequence order; truncate removes only a prefix. LSM tree: every write goes to the log "
    "before the memtable and is tracked as in flight across the log append; the truncation bound of a flush is computed before the "
    "flush suspends, from the oldest in-flight sequence, and is the only thing truncate is called with; a flush that was suspended "
    "across a crash does nothing afterwards; crash drops active and immutable memtables and crashes the log; recovery replays the log "
    "through the ordinary put path (idempotent: overwrites only)."
)
RULE_TEXT = "Instances: per ordering clause of append / flush / crash / recover. Distinct by (rule, construct)."
NOT_DECIDED = ["that every crash point between two events preserves the map (needs the event sequence)", "interplay of crash with a suspended compaction",
               "sync completion order equals sequence order (true for the constant latencies modelled; `synced_up_to = seq` is deliberately not required to use max)"]
ASSUMPTIONS = ["WAL write/sync latencies are constant per log", "handlers are atomic between suspension points"]


def _reaches(a, b) -> bool:
    seen, work = set(), [a]
    while work:
        n = work.pop()
        for t, _ in n.succ:
            if t is b:
                return True
            if t.id not in seen:
                seen.add(t.id)
                work.append(t)
    return False


def rule_crash_drops_unfinished_flush(ctx: Ctx) -> None:
    """C15-2: `_flush_memtable` installs the new SSTable in L0 *before* it suspends for the write latency (reads must find the data while the
    memtable is being retired).  Until that suspension ends the file is not on disk: a crash in between must take the table out of L0 again,
    otherwise never-fsynced writes it holds (an unsynced delete or overwrite) survive the crash and mask durable values."""
    prog = ctx.prog
    fl = prog.func(LSM, "LSMTree._flush_memtable")
    ff = ctx.flow(fl)
    from ..suspend import node_suspension
    inst = [n_ for n_ in ff.cfg.nodes if n_.kind == "stmt" and any(unparse(k.func).replace(" ", "") == "self._levels[0].append" for k in calls_in(n_.ast))]
    susp = [n_ for n_ in ff.cfg.nodes if n_.kind in ("stmt", "test", "for") and node_suspension(prog, fl, n_)]
    need(len(inst) == 1 and susp, "C15-2: _flush_memtable no longer installs an SSTable in L0 around a suspension")
    installs_first = any(not always_before(ctx, fl, lambda x: x is inst[0], lambda x, s_=s_: x is s_) for s_ in susp)
    cr = prog.func(LSM, "LSMTree.crash")
    removes = [k for k in calls_in(cr.node) if unparse(k.func).replace(" ", "").startswith("self._levels[") and k.func.attr in ("remove", "pop", "clear")] \
        + [s_ for s_ in walk_stmts(cr.node.body) if isinstance(s_, (ast.Assign, ast.Delete)) and "self._levels" in unparse(s_.targets[0] if isinstance(s_, ast.Assign) else s_.targets[0])]
    ok = (not installs_first) or bool(removes)
    ctx.ob("C15-2", "G2", cr, "crash() drops SSTables whose flush had not finished", ok,
           "an SSTable installed in L0 before its write latency elapsed is removed again by crash(): the file was never completely written, and the unsynced writes in it must not survive")


def rule_hunted(ctx: Ctx) -> None:
    """Rules distilled from hunted defects.
    C15-1: an append that was suspended while crash() discarded the log tail must not claim durability afterwards: the WAL counts crashes,
    `_synced_up_to_sequence = seq` is reached only with an unchanged count, and the tree's put/delete apply to the memtable only then.
    C15-1: appends complete in log order — an append that does not fsync itself waits behind an fsync in progress.
    C15-2: crash() forgets the in-flight sequence numbers (their processes may be gone; a leaked number freezes the checkpoint bound)."""
    prog = ctx.prog
    ap = prog.func(WAL, "WriteAheadLog.append")
    af = ctx.flow(ap)
    dur = [n_ for n_ in af.cfg.nodes if n_.kind == "stmt" and isinstance(n_.ast, ast.Assign) and path_of(n_.ast.targets[0]) == "self._synced_up_to_sequence"]
    ok = len(dur) == 1 and (af.holds_at(dur[0], Fact("eq", "crash_count", "self._crash_count")) or af.holds_at(dur[0], Fact("eq", "self._crash_count", "crash_count")))
    cr = prog.func(WAL, "WriteAheadLog.crash")
    ok = ok and any(increment_of(s_, "self._crash_count") == 1 for s_ in walk_stmts(cr.node.body))
    ctx.ob("C15-1", "G5", ap, dur[0].ast if dur else None, ok, "WriteAheadLog.append marks an entry durable only if no crash() happened since the append began (crash count read before the first suspension, compared after the fsync; crash() advances it)")
    for q, val in (("LSMTree.put", "value"), ("LSMTree.delete", "_TOMBSTONE")):
        fn = prog.func(LSM, q)
        ff = ctx.flow(fn)
        mp = [n_ for n_ in ff.cfg.nodes if n_.kind == "stmt" and any(isinstance(y, ast.YieldFrom) and path_of(getattr(y.value, "func", None)) == "self._memtable.put" for y in ast.walk(n_.ast))]
        bad = []
        for p_ in enumerate_paths(ff, ff.cfg.entry, stop=lambda x: mp and x is mp[0]):
            if not (p_.end == "stop" and mp and p_.nodes[-1] is mp[0]):
                continue
            has_wal = p_.decided(lambda t: t == "self._walisnotNone")
            crashed = p_.decided(lambda t: t in ("crash_count!=self._crash_count", "self._crash_count!=crash_count"))
            if has_wal is True and crashed is not False:
                bad.append(p_.describe()[-80:])
        ctx.ob("C15-1", "G5", fn, mp[0].ast if mp else None, len(mp) == 1 and not bad, f"{q}: the memtable is written only after the WAL append returned *and* no crash happened during it (a write that died with the power loss is not applied to the post-recovery memtable)")
    busy_set = [n_ for n_ in af.cfg.nodes if n_.kind == "stmt" and isinstance(n_.ast, ast.Assign) and path_of(n_.ast.targets[0]) == "self._sync_busy_until_ns"]
    from ..suspend import node_suspension
    fs = [n_ for n_ in af.cfg.nodes if n_.kind == "stmt" and node_suspension(prog, ap, n_) and "self._sync_latency" in unparse(n_.ast)]
    waits = [n_ for n_ in af.cfg.nodes if n_.kind == "stmt" and node_suspension(prog, ap, n_) and af.holds_at(n_, Fact("lt", "self.now.nanoseconds", "self._sync_busy_until_ns"))]
    ok2 = len(busy_set) == 1 and len(fs) == 1 and not always_before(ctx, ap, lambda x: x is busy_set[0], lambda x: x is fs[0]) and len(waits) == 1
    ctx.ob("C15-1", "G5", ap, busy_set[0].ast if busy_set else None, ok2, "WriteAheadLog.append: an fsync records when it will finish before it suspends, and an append that does not fsync itself waits until then when one is in progress — "
           "appends return in sequence order (the tree applies writes in return order; recovery replays in sequence order)")
    lc = prog.func(LSM, "LSMTree.crash")
    clr = [k for k in calls_in(lc.node) if path_of(k.func) == "self._wal_in_flight.clear"]
    ctx.ob("C15-2", "G2", lc, clr[0] if clr else None, len(clr) == 1, "LSMTree.crash() forgets the sequence numbers of writes that were in flight (else the checkpoint bound stays below every later write and the log is never truncated again)")


def rule_round4(ctx: Ctx) -> None:
    """(a) C15-1: log sequence numbers are never reused — every write of `_next_sequence` outside the constructor is `+= 1`.  The LSM tree
    identifies an append in flight by its number; a number handed out twice lets the late `discard` of a dead append release the marker of a
    live one, and the next checkpoint truncates a record that is in no memtable yet.
    (b) C15-3 (dependency on C14-2): the compaction latch is not cleared by crash().
    (c) C15-3: `Memtable.flush()` hands over *everything* it discards: the SSTable is built from all of `self._data` (no slice, no filter)
    and the memtable is emptied — `_flush_memtable` drops the flushed memtable and truncates the log past all of its entries."""
    prog = ctx.prog
    n = 0
    for rel in (WAL, LSM, MEMT):
        for fn in prog.module(rel).all_functions:
            for st in walk_stmts(fn.node.body):
                tg = st.targets if isinstance(st, ast.Assign) else [st.target] if isinstance(st, (ast.AnnAssign, ast.AugAssign)) else []
                if not any(isinstance(t, ast.Attribute) and t.attr == "_next_sequence" for t in tg):
                    continue
                n += 1
                ok = (fn.name == "__init__" and isinstance(getattr(st, "value", None), ast.Constant)) or increment_of(st, unparse(tg[0])) == 1
                ctx.ob("C15-1", "G6", fn, st, ok, f"{fn.qual}: `{norm_stmt(st)}` — the log's sequence counter only moves forward by one per append (never re-based, not even after a crash)")
    need(n >= 3, f"C15-1: expected >= 3 writes of _next_sequence (init, append, append_sync), found {n}")
    from .c14 import compaction_latch_rules
    compaction_latch_rules(ctx, "C15-3")
    fl = prog.func(MEMT, "Memtable.flush")
    sd = single_defs(fl)
    mk = [c for c in calls_in(fl.node) if path_of(c.func) == "SSTable"]
    ok = len(mk) == 1 and bool(mk[0].args)
    why = ""
    if ok:
        data = expand(mk[0].args[0], sd)
        src = None
        if isinstance(data, ast.ListComp) and len(data.generators) == 1 and not data.generators[0].ifs:
            src = data.generators[0].iter
        elif isinstance(data, ast.Call) and path_of(data.func) in ("list", "sorted", "tuple") and len(data.args) == 1:
            src = data.args[0]
        full = src is not None and unparse(src).replace(" ", "") in ("self._data.items()",)
        emptied = [c for c in calls_in(fl.node) if path_of(c.func) == "self._data.clear"] or \
                  [st for st in walk_stmts(fl.node.body) if isinstance(st, ast.Assign) and path_of(st.targets[0]) == "self._data" and ((isinstance(st.value, ast.Dict) and not st.value.keys) or (isinstance(st.value, ast.Call) and path_of(st.value.func) == "dict" and not st.value.args))]
        ok = full and bool(emptied)
        why = "" if ok else (f" — the table is built from `{unparse(data)[:80]}`" if not full else " — the memtable is not emptied")
    ctx.ob("C15-3", "G6", fl, mk[0] if mk else None, ok, "Memtable.flush builds the SSTable from every entry of `self._data` and empties the memtable: what the caller discards and truncates from the log is exactly what the table holds" + why)


def run(ctx: Ctx) -> None:
    ctx.guarded(rule_round4)
    ctx.guarded(rule_hunted)
    ctx.guarded(rule_crash_drops_unfinished_flush)
    prog = ctx.prog
    # ---------------------------------------------------------------- WAL
    ap = prog.func(WAL, "WriteAheadLog.append")
    ff = ctx.flow(ap)
    dur = stmts_matching(ap, "self._synced_up_to_sequence = _S_")
    need(len(dur) == 1, "C15-1: append should set the durability point at one site")
    dn = node_of(ff.cfg, dur[0][0])
    seqn = path_of(dur[0][1]["_S_"])
    seq_def = stmts_matching(ap, f"{seqn} = self._next_sequence")
    inc = [s for s in walk_stmts(ap.node.body) if increment_of(s, "self._next_sequence") == 1]
    ok = len(seq_def) == 1 and len(inc) == 1 and not always_before(ctx, ap, lambda x: x.ast is seq_def[0][0], lambda x: x.ast is inc[0])
    ctx.ob("C15-1", "G2", ap, seq_def[0][0] if seq_def else None, ok, "each append takes the next sequence number (read, then increment) — sequence numbers are unique and increasing")
    # durability point only after the sync suspension, under should_sync
    sync_nodes = [n for n in ff.cfg.nodes if n.kind == "stmt" and isinstance(n.ast, ast.Expr) and isinstance(n.ast.value, ast.Yield) and path_of(n.ast.value.value) == "self._sync_latency"]
    after = bool(sync_nodes) and not always_before(ctx, ap, lambda x: x in sync_nodes, lambda x: x is dn)
    pol = any(f[0] == "truthy" and "should_sync" in f[1] for f in ff.facts_at(sync_nodes[0])) if sync_nodes else False
    ctx.ob("C15-1", "G2", ap, dur[0][0], after and pol,
           "an entry is declared durable only after the sync latency of its own append has elapsed, and a sync happens exactly when the policy asks for it")
    ent = [c for c in calls_in(ap.node) if path_of(c.func) == "self._entries.append"]
    write_y = [n for n in ff.cfg.nodes if n.kind == "stmt" and isinstance(n.ast, ast.Expr) and isinstance(n.ast.value, ast.Yield) and path_of(n.ast.value.value) == "self._write_latency"]
    ok = len(ent) == 1 and bool(write_y) and not always_before(ctx, ap, lambda x: x is node_of(ff.cfg, ent[0]), lambda x: x in write_y)
    ctx.ob("C15-1", "G2", ap, ent[0] if ent else None, ok, "the entry is in the log before the write latency is paid (a crash in between finds it, unsynced)")
    rets = [s for s in walk_stmts(ap.node.body) if isinstance(s, ast.Return)]
    ctx.ob("C15-1", "G7", ap, rets[-1] if rets else None, bool(rets) and all(path_of(r.value) == seqn for r in rets), "append reports the sequence number it assigned")
    kw = {k.arg: unparse(k.value) for c in calls_in(ap.node) if path_of(c.func) == "WALEntry" for k in c.keywords}
    ctx.ob("C15-1", "G7", ap, "entry carries its own sequence/key/value", kw.get("sequence_number") == seqn and kw.get("key") == "key" and kw.get("value") == "value", f"WALEntry fields {kw}")
    # who writes the durability point
    for fn in prog.module(WAL).all_functions:
        for st in walk_stmts(fn.node.body):
            if isinstance(st, (ast.Assign, ast.AugAssign)) and path_of(st.targets[0] if isinstance(st, ast.Assign) else st.target) == "self._synced_up_to_sequence" and fn.qual not in ("WriteAheadLog.__init__", "WriteAheadLog.append"):
                ctx.ob("C15-1", "G6", fn, st, False, "the durability point is written outside append()")
    cr = prog.func(WAL, "WriteAheadLog.crash")
    st_c, sig_c = filtered_copy(cr, "self._entries", "self._entries")[1:]
    ctx.ob("C15-2", "G3", cr, st_c, sig_c == frozenset({("le", "E.sequence_number", "self._synced_up_to_sequence")}), "a crash keeps exactly the entries with sequence <= synced_up_to (all of them, nothing else)"
           + ("" if sig_c else " — the rebuilt entry list is not a recognisable filter of the old one"))
    tr = prog.func(WAL, "WriteAheadLog.truncate")
    st_t, sig_t = filtered_copy(tr, "self._entries", "self._entries")[1:]
    ctx.ob("C15-2", "G3", tr, st_t, sig_t == frozenset({("lt", tr.params()[1], "E.sequence_number")}), "truncate(n) removes exactly the prefix with sequence <= n"
           + ("" if sig_t else " — the rebuilt entry list is not a recognisable filter of the old one"))
    rc = prog.func(WAL, "WriteAheadLog.recover")
    srt = [c for c in calls_in(rc.node) if path_of(c.func) == "sorted" and path_of(c.args[0]) == "self._entries"]
    okr = len(srt) == 1 and any(k.arg == "key" and "sequence_number" in unparse(k.value) for k in srt[0].keywords) and not any(k.arg == "reverse" for k in srt[0].keywords)
    muts = [c for c in calls_in(rc.node) if isinstance(c.func, ast.Attribute) and c.func.attr in ("clear", "pop", "remove") and "self._entries" in unparse(c.func.value)]
    ctx.ob("C15-4", "G3", rc, srt[0] if srt else None, okr and not muts, "recover returns all surviving entries in sequence order and leaves the log intact (recovering twice gives the same result)")

    # ---------------------------------------------------------------- LSM write path
    for q, val in (("LSMTree.put", "value"), ("LSMTree.delete", "_TOMBSTONE")):
        fn = prog.func(LSM, q)
        pff = ctx.flow(fn)
        wa = [c for c in calls_in(fn.node) if path_of(c.func) == "self._wal.append"]
        mp = [c for c in calls_in(fn.node) if path_of(c.func) == "self._memtable.put"]
        need(len(wa) == 1 and len(mp) == 1, f"C15-3: {q} should append to the log once and write the memtable once")
        wn, mn = node_of(pff.cfg, wa[0]), node_of(pff.cfg, mp[0])
        # write-ahead: the memtable write is preceded on every path by the `self._wal is not None` decision, and can never be followed by the append
        wal_tests = [n for n in pff.cfg.nodes if n.kind == "test" and {f.sig for f in atoms(n.ast, True)} == {("isnot", "self._wal", "None")}]
        ordered = bool(wal_tests) and not always_before(ctx, fn, lambda x: x in wal_tests, lambda x: x is mn) and not _reaches(mn, wn)
        ctx.ob("C15-3", "G2", fn, wa[0], ordered and [unparse(a) for a in wa[0].args] == ["key", val] and [unparse(a) for a in mp[0].args] == ["key", val],
               f"{q}: write-ahead — the log append (same key/value) completes before the memtable is touched")
        # in-flight tracking brackets the append
        add = [c for c in calls_in(fn.node) if path_of(c.func) == "self._wal_in_flight.add"]
        dis = [c for c in calls_in(fn.node) if path_of(c.func) == "self._wal_in_flight.discard"]
        seqd = stmts_matching(fn, "seq = self._wal._next_sequence")
        ok = len(add) == 1 and len(dis) == 1 and len(seqd) == 1 and [path_of(a) for a in add[0].args] == ["seq"] and [path_of(a) for a in dis[0].args] == ["seq"]
        if ok:
            an_, dn_, sn_ = node_of(pff.cfg, add[0]), node_of(pff.cfg, dis[0]), node_of(pff.cfg, seqd[0][0])
            ok = (not always_before(ctx, fn, lambda x: x is sn_, lambda x: x is an_)      # seq read before registered
                  and not always_before(ctx, fn, lambda x: x is an_, lambda x: x is wn)   # registered before the append starts
                  and not always_before(ctx, fn, lambda x: x is wn, lambda x: x is dn_)   # cleared only after the append returned
                  and not _reaches(dn_, wn))
            # nothing suspends between reading the sequence number and starting the append
            for p in enumerate_paths(pff, sn_, stop=lambda x: x is wn):
                if any(node_suspension(prog, fn, n) for n in p.nodes[:-1]):
                    ok = False
        ctx.ob("C15-3", "G2", fn, add[0] if add else None, ok,
               f"{q}: the sequence number about to be appended is registered as in flight before the (suspending) log append and cleared only after it returns, so a concurrent "
               "flush never truncates an entry that is not yet in a memtable")

    # ---------------------------------------------------------------- flush
    fl = prog.func(LSM, "LSMTree._flush_memtable")
    fff = ctx.flow(fl)
    tr_calls = [c for c in calls_in(fl.node) if path_of(c.func) == "self._wal.truncate"]
    need(len(tr_calls) == 1, "C15-3: _flush_memtable should truncate the log at one site")
    tn = node_of(fff.cfg, tr_calls[0])
    bound = path_of(tr_calls[0].args[0])
    bdef = [s for s in walk_stmts(fl.node.body) if isinstance(s, ast.Assign) and path_of(s.targets[0]) == bound]
    susp = [n for n in fff.cfg.nodes if n.kind in ("stmt", "test", "for") and node_suspension(prog, fl, n)]
    ok = bound is not None and len(bdef) == 1 and isinstance(bdef[0].value, ast.Call) and path_of(bdef[0].value.func) == "self._wal_checkpoint_bound"
    if ok:
        bn = node_of(fff.cfg, bdef[0])
        # the bound is taken before the first suspension of the flush
        for p in enumerate_paths(fff, fff.cfg.entry, stop=lambda x: x is bn):
            if p.end == "stop" and any(n in susp for n in p.nodes[:-1]):
                ok = False
        # and after the memtable swap (so that later writes go to the new memtable)
        swap = [s for s in walk_stmts(fl.node.body) if isinstance(s, ast.Assign) and path_of(s.targets[0]) == "self._memtable"]
        ok = ok and len(swap) == 1 and not always_before(ctx, fl, lambda x: x.ast is swap[0], lambda x: x is bn)
    ctx.ob("C15-3", "G5", fl, tr_calls[0], ok,
           "the log is truncated up to a bound fixed *before* the flush suspends (after the memtable swap): entries synced into the new memtable during the flush stay in the log"
           + ("" if ok else f" — truncate argument `{unparse(tr_calls[0].args[0])}`"))
    cb = prog.func(LSM, "LSMTree._wal_checkpoint_bound")
    rets = [s for s in walk_stmts(cb.node.body) if isinstance(s, ast.Return) and s.value is not None and not isinstance(s.value, ast.Constant)]
    okb = len(rets) == 1 and unparse(rets[0].value).replace(" ", "") == "min(self._wal_in_flight,default=self._wal._next_sequence)-1"
    if not okb:
        # the same function written out: tabulate it for an empty and a non-empty in-flight set
        def _min(e_, c_):
            vals = e_.ev(c_.args[0])
            dflt = [k_.value for k_ in c_.keywords if k_.arg == "default"]
            return min(vals) if vals else (e_.ev(dflt[0]) if dflt else None)
        try:
            outs = []
            for inflight, nxt in (((), 7), ((5, 9), 12), ((3,), 4)):
                ev_ = OrderEval({"self._wal_in_flight": inflight, "self._wal._next_sequence": nxt, "self._wal": {"_next_sequence": nxt}}, calls={"min": _min})
                outs.append(ev_.run(cb.node))
            okb = outs == [6, 4, 2]
        except NotTabulable:
            okb = False
    ctx.ob("C15-3", "G3", cb, rets[0] if rets else None, okb, "the checkpoint bound is one below the oldest sequence number still in flight (or below the next one to be issued)")
    # every other truncate call in the package uses the same bound
    for fn in prog.all_functions("happysimulator/components/storage/"):
        for c in calls_in(fn.node):
            if isinstance(c.func, ast.Attribute) and c.func.attr == "truncate" and "wal" in unparse(c.func.value).lower() and c is not tr_calls[0]:
                okx = unparse(c.args[0]).replace(" ", "") == "self._wal_checkpoint_bound()" and not fn.is_generator
                ctx.ob("C15-3", "G5", fn, c, okx, f"{fn.qual}: truncation uses the checkpoint bound (no suspension between computing and using it)")
    # crash epoch: a flush suspended across crash() must not act
    epoch = stmts_matching(fl, "crash_count = self._crash_count")
    chk = [s for s in walk_stmts(fl.node.body) if isinstance(s, ast.If) and {f.sig for f in atoms(s.test, True)} in ({("ne", "crash_count", "self._crash_count")},) and any(isinstance(b, ast.Return) for b in s.body)]
    ok = len(epoch) == 1 and len(chk) == 1
    if ok:
        en = node_of(fff.cfg, epoch[0][0])
        # the epoch is read before the suspension, the test sits right after it, and everything destructive comes after the test
        first_susp_after = [n for n in susp if not always_before(ctx, fl, lambda x: x is en, lambda x, n=n: x is n)]
        ok = bool(first_susp_after)
        rm = [c for c in calls_in(fl.node) if path_of(c.func) == "self._immutable_memtables.remove"]
        tests = [n for n in fff.cfg.nodes if n.kind == "test" and any(x is n.ast for x in ast.walk(chk[0].test))]
        for c in rm + tr_calls:
            if always_before(ctx, fl, lambda x: x in tests, lambda x, c=c: x is node_of(fff.cfg, c)):
                ok = False
    ctx.ob("C15-3", "G5", fl, chk[0] if chk else None, ok,
           "a flush that was suspended while the tree crashed notices it (crash epoch read before, compared after the suspension) and neither truncates the log nor touches the lists")
    crs = prog.func(LSM, "LSMTree.crash")
    inc = [s for s in walk_stmts(crs.node.body) if increment_of(s, "self._crash_count") == 1]
    sd_c = single_defs(crs)
    newm = [s for s in walk_stmts(crs.node.body) if isinstance(s, ast.Assign) and path_of(s.targets[0]) == "self._memtable"
            and isinstance(expand(s.value, sd_c), ast.Call) and path_of(expand(s.value, sd_c).func) == "Memtable"]  # built in place or via a once-bound local
    clr = [c for c in calls_in(crs.node) if path_of(c.func) == "self._immutable_memtables.clear"]
    wc = [c for c in calls_in(crs.node) if path_of(c.func) == "self._wal.crash"]
    ctx.ob("C15-2", "G2", crs, None, len(inc) == 1 and len(newm) == 1 and len(clr) == 1 and len(wc) == 1,
           "crash() advances the crash epoch, drops the active and the immutable memtables, and crashes the log (volatile state only)")
    lv = [c for c in calls_in(crs.node) if "self._levels" in unparse(c.func)]
    ctx.ob("C15-2", "G2", crs, "SSTables survive", not lv and not any(isinstance(s, ast.Assign) and "self._levels" in unparse(s.targets[0]) for s in walk_stmts(crs.node.body)), "crash() leaves the SSTable levels (durable state) alone")
    rv = prog.func(LSM, "LSMTree.recover_from_crash")
    loops = [s for s in walk_stmts(rv.node.body) if isinstance(s, ast.For)]
    src = stmts_matching(rv, "entries = self._wal.recover()")
    ok = len(src) == 1 and any(path_of(lp.iter) == "entries" and any(path_of(c.func) == "self._memtable.put_sync" and [unparse(a) for a in c.args] == [f"{path_of(lp.target)}.key", f"{path_of(lp.target)}.value"] for c in calls_in(lp)) for lp in loops)
    ctx.ob("C15-4", "G2", rv, src[0][0] if src else None, ok, "recovery replays the surviving log entries, in the order recover() returns them, through the memtable's ordinary put (overwrite-only, hence idempotent)")
    # who may truncate: the checkpoint bound assumes every logged entry up to it sits in an SSTable or in the memtable being flushed;
    # during crash()/recovery the memtable holds only a prefix of the log, so neither may reach a truncation (directly or through helpers)
    lsm = prog.cls(LSM, "LSMTree")
    direct = {m.name for m in lsm.methods.values() if any(path_of(c.func) == "self._wal.truncate" for c in calls_in(m.node))}
    reach = {m.name: {c.func.attr for c in calls_in(m.node) if isinstance(c.func, ast.Attribute) and path_of(c.func.value) == "self" and c.func.attr in lsm.methods} for m in lsm.methods.values()}
    trunc = set(direct)
    changed = True
    while changed:
        changed = False
        for m, cs in reach.items():
            if m not in trunc and cs & trunc:
                trunc.add(m)
                changed = True
    for q in ("recover_from_crash", "crash"):
        fn = prog.func(LSM, f"LSMTree.{q}")
        via = sorted(reach[q] & trunc)
        ctx.ob("C15-4", "G7", fn, "never truncates the log", q not in trunc, f"LSMTree.{q} cannot reach a log truncation" + ("" if q not in trunc else f" — it does, through {via or 'a direct call'}"))
    ctx.ob("C15-4", "G7", rv, "replay leaves the log alone", not any(isinstance(c.func, ast.Attribute) and path_of(c.func.value) == "self._wal" and c.func.attr not in ("recover",) for c in calls_in(rv.node)),
           "recovery only reads the log (entries stay until a later flush checkpoints them)")
    from .common import applied_before_suspension
    applied_before_suspension(ctx, "C15-3", prog.func(MEMT, "Memtable.put"), "self._data[key]",
                              "Memtable.put applies the write before its latency suspends: a write acknowledged by the log is in the memtable the next flush carries away (applied after the latency it can land in a memtable already flushed and dropped, while the log entry is truncated)")
    for r, k in (("C15-1", 5), ("C15-2", 4), ("C15-3", 9), ("C15-4", 5)):
        ctx.floor(r, k)


MUTANTS = [
    ("wal-crash-rebases-sequence", WAL, "        self._writes_since_sync = 0\n        self._crash_count += 1\n        return lost", "        self._writes_since_sync = 0\n        self._next_sequence = self._synced_up_to_sequence + 1\n        self._crash_count += 1\n        return lost", "C15-1"),
    ("lsm-crash-clears-compaction-latch", LSM, "        self._immutable_memtables.clear()\n\n        # Writes suspended in their WAL append", "        self._immutable_memtables.clear()\n        self._compaction_in_progress = False\n\n        # Writes suspended in their WAL append", "C15-3"),
    ("memtable-flush-keeps-overflow", MEMT, "        data = [(k, v) for k, v in self._data.items()]\n", "        data = [(k, v) for k, v in self._data.items()][: self._size_threshold]\n", "C15-3"),
    ("crash-keeps-in-flight-sequences", LSM, "        self._wal_in_flight.clear()\n", "", "C15-2"),
    ("append-claims-durability-across-crash", WAL, "            if crash_count != self._crash_count:\n                # Power was lost mid-fsync: this sync never completed, so it\n                # must not mark the (discarded) entry as durable.\n                return seq\n", "", "C15-1"),
    ("put-applies-after-crash", LSM, "            if crash_count != self._crash_count:\n                # Power was lost mid-write: the write died with the process.\n                # If its log entry was already durable, recovery replayed it.\n                return\n", "", "C15-1"),
    ("append-overtakes-fsync", WAL, "        elif self.now.nanoseconds < self._sync_busy_until_ns:", "        elif False:", "C15-1"),
    ("memtable-put-applies-after-latency", MEMT, "        self._data[key] = value\n        self._total_writes += 1\n        self._total_bytes_written += 64  # estimate\n        yield self._write_latency\n", "        self._total_writes += 1\n        self._total_bytes_written += 64  # estimate\n        yield self._write_latency\n        self._data[key] = value\n", "C15-3"),
    ("recover-flushes-mid-replay", LSM, "                self._memtable.put_sync(entry.key, entry.value)\n            wal_recovered", "                if self._memtable.put_sync(entry.key, entry.value):\n                    self._flush_memtable_sync()\n            wal_recovered", "C15-4"),
    ("durable-before-sync", WAL, "            yield self._sync_latency\n            if crash_count != self._crash_count:\n                # Power was lost mid-fsync: this sync never completed, so it\n                # must not mark the (discarded) entry as durable.\n                return seq\n            self._synced_up_to_sequence = seq\n", "            self._synced_up_to_sequence = seq\n            yield self._sync_latency\n            if crash_count != self._crash_count:\n                return seq\n", "C15-1"),
    ("durable-without-policy", WAL, "        if self._sync_policy.should_sync(self._writes_since_sync, time_since_sync):\n            self._sync_busy_until_ns", "        if True:\n            self._sync_busy_until_ns", "C15-1"),
    ("sequence-not-advanced", WAL, "        seq = self._next_sequence\n        self._next_sequence += 1\n\n        now_s = self.now.to_seconds()\n        entry = WALEntry(", "        seq = self._next_sequence\n\n        now_s = self.now.to_seconds()\n        entry = WALEntry(", "C15-1"),
    ("entry-logged-after-latency", WAL, ["        self._entries.append(entry)\n\n        # Estimate 64 bytes per entry", "        yield self._write_latency\n        if crash_count != self._crash_count:"], ["        # Estimate 64 bytes per entry", "        yield self._write_latency\n        self._entries.append(entry)\n        if crash_count != self._crash_count:"], "C15-1"),
    ("crash-keeps-strictly-below", WAL, "            e for e in self._entries if e.sequence_number <= self._synced_up_to_sequence", "            e for e in self._entries if e.sequence_number < self._synced_up_to_sequence", "C15-2"),
    ("crash-keeps-everything", WAL, "            e for e in self._entries if e.sequence_number <= self._synced_up_to_sequence", "            e for e in self._entries if e.sequence_number <= self._next_sequence", "C15-2"),
    ("truncate-off-by-one", WAL, "        self._entries = [e for e in self._entries if e.sequence_number > up_to_sequence]", "        self._entries = [e for e in self._entries if e.sequence_number > up_to_sequence + 1]", "C15-2"),
    ("recover-unsorted", WAL, "        result = sorted(self._entries, key=lambda e: e.sequence_number)", "        result = list(self._entries)", "C15-4"),
    ("recover-consumes-log", WAL, "        self._entries_recovered = len(result)\n        return result", "        self._entries_recovered = len(result)\n        self._entries.clear()\n        return result", "C15-4"),
    ("put-memtable-before-wal", LSM, "        self._logical_data[key] = value\n\n        # WAL append\n        if self._wal is not None:\n            seq = self._wal._next_sequence\n            self._wal_in_flight.add(seq)\n            crash_count = self._crash_count\n            yield from self._wal.append(key, value)\n            self._wal_in_flight.discard(seq)\n            if crash_count != self._crash_count:\n                # Power was lost mid-write: the write died with the process.\n                # If its log entry was already durable, recovery replayed it.\n                return\n            self._total_wal_writes += 1\n\n        # Memtable put\n        is_full = yield from self._memtable.put(key, value)\n", "        self._logical_data[key] = value\n\n        # Memtable put\n        is_full = yield from self._memtable.put(key, value)\n\n        # WAL append\n        if self._wal is not None:\n            seq = self._wal._next_sequence\n            self._wal_in_flight.add(seq)\n            crash_count = self._crash_count\n            yield from self._wal.append(key, value)\n            self._wal_in_flight.discard(seq)\n            if crash_count != self._crash_count:\n                return\n            self._total_wal_writes += 1\n", "C15-3"),
    ("put-inflight-cleared-early", LSM, "            self._wal_in_flight.add(seq)\n            crash_count = self._crash_count\n            yield from self._wal.append(key, value)\n            self._wal_in_flight.discard(seq)", "            self._wal_in_flight.add(seq)\n            self._wal_in_flight.discard(seq)\n            crash_count = self._crash_count\n            yield from self._wal.append(key, value)", "C15-3"),
    ("delete-not-tracked", LSM, "            self._wal_in_flight.add(seq)\n            crash_count = self._crash_count\n            yield from self._wal.append(key, _TOMBSTONE)\n            self._wal_in_flight.discard(seq)", "            crash_count = self._crash_count\n            yield from self._wal.append(key, _TOMBSTONE)", "C15-3"),
    ("flush-bound-after-suspension", LSM, "            self._wal.truncate(wal_bound)", "            self._wal.truncate(self._wal._next_sequence - 1)", "C15-3"),
    ("flush-bound-computed-late", LSM, ["        wal_bound = self._wal_checkpoint_bound()\n\n        # Flush to SSTable", "        # Truncate WAL\n        if self._wal is not None:\n            self._wal.truncate(wal_bound)"],
     ["        # Flush to SSTable", "        # Truncate WAL\n        if self._wal is not None:\n            wal_bound = self._wal_checkpoint_bound()\n            self._wal.truncate(wal_bound)"], "C15-3"),
    ("checkpoint-bound-ignores-inflight", LSM, "        return min(self._wal_in_flight, default=self._wal._next_sequence) - 1", "        return self._wal._next_sequence - 1", "C15-3"),
    ("flush-ignores-crash", LSM, "        if crash_count != self._crash_count:\n            # Power was lost mid-flush", "        if False:\n            # Power was lost mid-flush", "C15-3"),
    ("crash-keeps-immutables", LSM, "        self._immutable_memtables.clear()\n\n        # Writes suspended in their WAL append", "        # Writes suspended in their WAL append", "C15-2"),
    ("crash-epoch-not-advanced", LSM, "        self._crash_count += 1\n", "", "C15-2"),
    ("recover-replays-keys-only", LSM, "                self._memtable.put_sync(entry.key, entry.value)", "                self._memtable.put_sync(entry.key, entry.key)", "C15-4"),
]
REFACTORS = [
    ("flush-bound-renamed", LSM, ["        wal_bound = self._wal_checkpoint_bound()", "            self._wal.truncate(wal_bound)"], ["        checkpoint = self._wal_checkpoint_bound()", "            self._wal.truncate(checkpoint)"]),
]
