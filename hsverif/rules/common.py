"""Rule templates shared by the rule packs (G1 guard, G2 pairing/counting, G3 decision tables…)."""

from __future__ import annotations

import ast
import itertools
from collections.abc import Callable, Iterable

from .. import AnalysisError, ShapeMismatch
from ..astutil import (
    calls_in, dump, find_all, match, norm_stmt, parse_expr, parse_stmt, path_of, same, subst, unparse, walk_scope,
    walk_stmts,
)
from ..cfg import CFG, Node, own_exprs
from ..facts import Fact, FactFlow, atoms, fact_of, implies
from ..model import ClassInfo, FunctionInfo, Program
from ..report import Ctx

# ------------------------------------------------------------------------------------------
# locating constructs
# ------------------------------------------------------------------------------------------


def stmts_matching(fn: FunctionInfo, pattern: str | ast.AST) -> list[tuple[ast.stmt, dict]]:
    """Statements of ``fn`` (own scope) matching a statement pattern with metavariables."""
    pat = parse_stmt(pattern) if isinstance(pattern, str) else pattern
    out = []
    for st in walk_stmts(fn.node.body):
        b = match(pat, st)
        if b is not None:
            out.append((st, b))
    return out


def exprs_matching(fn: FunctionInfo | ast.AST, pattern: str | ast.AST) -> list[tuple[ast.AST, dict]]:
    pat = parse_expr(pattern) if isinstance(pattern, str) else pattern
    root = fn.node if isinstance(fn, FunctionInfo) else fn
    return find_all(root, pat)


def need(cond, msg: str):
    if not cond:
        raise ShapeMismatch(msg)
    return cond


def node_of(cfg: CFG, a: ast.AST) -> Node:
    ns = cfg.nodes_for(a)
    if not ns:
        raise ShapeMismatch(f"no CFG node for construct at line {getattr(a, 'lineno', '?')}: {norm_stmt(a)}")
    return ns[0]


def method_callers(prog: Program, fn: FunctionInfo) -> list[tuple[FunctionInfo, ast.Call]]:
    """Call sites ``self.<fn.name>(...)`` in the class hierarchy of ``fn`` (and module-level calls for functions)."""
    out = []
    if fn.cls is None:
        for other in fn.module.all_functions:
            for c in calls_in(other.node):
                if isinstance(c.func, ast.Name) and c.func.id == fn.name:
                    out.append((other, c))
        return out
    classes = [fn.cls] + prog.subclasses(fn.cls) + prog.mro(fn.cls)[1:]
    seen = set()
    for c in classes:
        for m in c.module.all_functions:
            if m.cls is not c or m.key in seen:
                continue
            seen.add(m.key)
            for call in calls_in(m.node):
                f = call.func
                if isinstance(f, ast.Attribute) and f.attr == fn.name and isinstance(f.value, ast.Name) and f.value.id == "self":
                    out.append((m, call))
    return out


def bind_actuals(fn: FunctionInfo, call: ast.Call) -> dict[str, ast.AST]:
    """Map formal parameter names of ``fn`` to the actual argument expressions at ``call``."""
    params = [a.arg for a in fn.node.args.posonlyargs + fn.node.args.args]
    if fn.cls is not None and params and params[0] in ("self", "cls"):
        params = params[1:]
    out: dict[str, ast.AST] = {}
    for p, a in zip(params, call.args):
        out[p] = a
    for kw in call.keywords:
        if kw.arg:
            out[kw.arg] = kw.value
    return out


# ------------------------------------------------------------------------------------------
# G1 — guarded transition
# ------------------------------------------------------------------------------------------


def holds_with_callers(ctx: Ctx, fn: FunctionInfo, at: ast.AST, wants: list[ast.AST], depth: int = 2) -> tuple[bool, str]:
    """Is every requirement expression a must-fact at ``at`` — in ``fn`` itself, or as a precondition
    satisfied at all resolved call sites (formal→actual substitution), up to ``depth`` levels?"""
    ff = ctx.flow(fn)
    node = node_of(ff.cfg, at)
    facts = [f for w in wants for f in atoms(w, True)]
    missing = [(w, f) for w in wants for f in atoms(w, True) if not ff.holds_at(node, f)]
    if not missing:
        return True, "guard dominates in " + fn.qual
    if depth <= 0:
        return False, f"missing {[str(f) for _, f in missing]} at {fn.loc(at)}; facts: {ff.describe(node)}"
    # A requirement that only mentions parameters / self state may be established by callers, provided
    # nothing between function entry and `at` could have invalidated it: we re-run the flow with the
    # requirement assumed at entry and see whether it survives to `at`.
    miss_facts = [f for _, f in missing]
    ff2 = FactFlow(ctx.prog, fn, ctx.effects, assume=miss_facts)
    node2 = node_of(ff2.cfg, at)
    if not all(ff2.holds_at(node2, f) for f in facts):
        return False, (f"missing {[str(f) for f in miss_facts]} at {fn.loc(at)} (and a caller-side guard would not "
                       f"survive to this point: a write or suspension intervenes); facts: {ff.describe(node)}")
    callers = method_callers(ctx.prog, fn)
    if not callers:
        return False, f"missing {[str(f) for f in miss_facts]} at {fn.loc(at)}; no caller establishes it; facts: {ff.describe(node)}"
    for caller, call in callers:
        actual = bind_actuals(fn, call)
        wants2 = []
        for w, _ in missing:
            w2 = subst(w, {k: v for k, v in actual.items()})
            if not any(same(w2, x) for x in wants2):
                wants2.append(w2)
        ok, why = holds_with_callers(ctx, caller, call, wants2, depth - 1)
        if not ok:
            return False, f"call site {caller.qual} ({caller.loc(call)}) does not establish the guard: {why}"
    return True, f"guard established at all {len(callers)} call site(s) of {fn.qual}"


def guard(ctx: Ctx, rule: str, fn: FunctionInfo, stmt_pattern: str, requires: str | list[str], what: str, *,
          min_sites: int = 1, depth: int = 2, any_of: bool = False, where: Callable[[ast.AST, dict], bool] | None = None) -> int:
    """G1: every statement of ``fn`` matching ``stmt_pattern`` is dominated by ``requires`` (metavariables shared).

    ``requires`` is a list of alternative requirement sets when ``any_of`` is true, otherwise one conjunction
    (each string may itself be a conjunction via ``and``).
    """
    sites = stmts_matching(fn, stmt_pattern)
    if where is not None:
        sites = [(s, b) for s, b in sites if where(s, b)]
    if len(sites) < min_sites:
        raise ShapeMismatch(f"{rule}: pattern `{stmt_pattern}` matched {len(sites)} site(s) in {fn.key}, expected >= {min_sites}")
    reqs = [requires] if isinstance(requires, str) else list(requires)
    for st, b in sites:
        results = []
        for r in reqs:
            want = subst(parse_expr(r), b)
            ok, why = holds_with_callers(ctx, fn, st, [want], depth)
            results.append((ok, why, r))
        if any_of:
            ok = any(r[0] for r in results)
        else:
            ok = all(r[0] for r in results)
        why = "; ".join(r[1] for r in results if r[0] == ok)
        ctx.ob(rule, "G1", fn, st, ok, f"{what}: `{norm_stmt(st)}` must be dominated by `{' | '.join(reqs) if any_of else ' and '.join(reqs)}` — "
               + ("holds: " if ok else "FAILS: ") + why)
    return len(sites)


# ------------------------------------------------------------------------------------------
# G2 — counting occurrences along paths
# ------------------------------------------------------------------------------------------

CAP = 3


def count_on_paths(cfg: CFG, weight: Callable[[Node], int], *, start: Node | None = None,
                   barrier: Callable[[Node], bool] | None = None) -> dict[int, tuple[int, int]]:
    """(min, max) number of weighted nodes on paths from ``start`` to each node's *exit* (inclusive).

    ``max`` saturates at CAP (meaning "many", e.g. inside a loop).  Nodes for which ``barrier`` is
    true are not traversed further.
    """
    start = start or cfg.entry
    state: dict[int, tuple[int, int]] = {}
    instate: dict[int, tuple[int, int]] = {start.id: (0, 0)}
    work = [start]
    while work:
        n = work.pop()
        lo, hi = instate[n.id]
        w = weight(n)
        out = (min(lo + w, CAP), min(hi + w, CAP))
        state[n.id] = out
        if barrier is not None and barrier(n) and n is not start:
            continue
        for s, _ in n.succ:
            prev = instate.get(s.id)
            if prev is None:
                instate[s.id] = out
                work.append(s)
            else:
                new = (min(prev[0], out[0]), max(prev[1], out[1]))
                if new != prev:
                    instate[s.id] = new
                    work.append(s)
    return state


def exit_counts(cfg: CFG, weight: Callable[[Node], int], **kw) -> tuple[int, int] | None:
    st = count_on_paths(cfg, weight, **kw)
    return st.get(cfg.exit.id)


def contains_match(node: Node, pats: Iterable[ast.AST]) -> bool:
    for e in own_exprs(node):
        for n in walk_scope(e):
            for p in pats:
                if match(p, n) is not None:
                    return True
    return False


def always_before(ctx: Ctx, fn: FunctionInfo, first: Callable[[Node], bool], then: Callable[[Node], bool]) -> list[Node]:
    """Nodes (of ``ctx.flow(fn).cfg``) satisfying ``then`` that are *not* preceded on every path from the function
    entry by a node satisfying ``first``.  Must-dataflow of one boolean over the shared CFG (exception edges included)."""
    cfg = ctx.flow(fn).cfg
    did_in: dict[int, bool | None] = {n.id: None for n in cfg.nodes}
    did_in[cfg.entry.id] = False
    work = [cfg.entry]
    is_first = {n.id: bool(first(n)) for n in cfg.nodes if n.kind in ("stmt", "test", "for", "with", "match")}
    while work:
        n = work.pop()
        cur = did_in[n.id]
        out = bool(cur) or is_first.get(n.id, False)
        for s, _ in n.succ:
            prev = did_in[s.id]
            if prev is None:
                did_in[s.id] = out
                work.append(s)
            elif prev and not out:
                did_in[s.id] = False
                work.append(s)
    bad = []
    for n in cfg.nodes:
        if n.kind in ("stmt", "test", "for", "with", "match") and did_in[n.id] is not None and then(n):
            if not did_in[n.id] and not is_first.get(n.id, False):
                bad.append(n)
    return bad


# ------------------------------------------------------------------------------------------
# G3 — decision tables over orderings (finite abstract domain, no repo code is executed)
# ------------------------------------------------------------------------------------------


class NotTabulable(AnalysisError):
    pass


class OrderEval:
    """Evaluates a comparison-only function body over an *ordering assignment* (loop-free, or looping over finite concrete collections of the case).

    ``env`` maps access paths (``self.time``) or parameter names to abstract values: ints act as ranks
    (representatives of an order-equivalence class), tuples/None/bools/strs are themselves.  Supported:
    if/return/assign to locals, comparisons (chained), bool ops, not, tuple displays, attribute paths,
    ``max``/``min``/``len`` of displays, ``+``/``-`` with constants, ``isinstance`` (via env hook).
    Anything else raises NotTabulable → the rule fails closed (exit 2), never passes silently.
    """

    def __init__(self, env: dict[str, object], *, calls: dict[str, Callable] | None = None, attr_default: Callable | None = None):
        self.env = dict(env)
        self.calls = calls or {}
        self.attr_default = attr_default
        self.locals: dict[str, object] = {}

    def run(self, fn_node: ast.FunctionDef):
        r = self._block(fn_node.body)
        return r[1] if r is not None else None

    def _block(self, body):
        for st in body:
            r = self._stmt(st)
            if r is not None:
                return r
        return None

    def _stmt(self, st):
        if isinstance(st, ast.Expr):
            if isinstance(st.value, ast.Constant):
                return None  # docstring
            self.ev(st.value)
            return None
        if isinstance(st, ast.Return):
            return ("ret", self.ev(st.value) if st.value is not None else None)
        if isinstance(st, ast.If):
            return self._block(st.body if self.truth(self.ev(st.test)) else st.orelse)
        if isinstance(st, ast.Assign) and len(st.targets) == 1:
            v = self.ev(st.value)
            self._assign(st.targets[0], v)
            return None
        if isinstance(st, ast.AnnAssign) and st.value is not None:
            self._assign(st.target, self.ev(st.value))
            return None
        if isinstance(st, ast.AugAssign):
            cur = self.ev(st.target)
            v = self._binop(st.op, cur, self.ev(st.value))
            self._assign(st.target, v)
            return None
        if isinstance(st, ast.Pass):
            return None
        if isinstance(st, ast.Raise):
            return ("ret", ("raise", unparse(st.exc.func) if isinstance(st.exc, ast.Call) else unparse(st.exc)))
        if isinstance(st, ast.Break):
            return ("break", None)
        if isinstance(st, ast.Continue):
            return ("continue", None)
        if isinstance(st, ast.For):
            # a loop over a *finite, concrete* collection of the case under evaluation (a display, a set/dict of the environment)
            for item in self._iterable(self.ev(st.iter)):
                self._assign(st.target, item)
                r = self._block(st.body)
                if r is not None:
                    if r[0] == "break":
                        break
                    if r[0] == "continue":
                        continue
                    return r
            else:
                if st.orelse:
                    return self._block(st.orelse)
            return None
        raise NotTabulable(f"statement not tabulable: {norm_stmt(st)}")

    @staticmethod
    def _iterable(v):
        if isinstance(v, (tuple, list)):
            return list(v)
        if isinstance(v, (set, frozenset)):
            return sorted(v, key=repr)  # deterministic; rules that tabulate set iteration must not depend on the order
        if isinstance(v, dict):
            return list(v.keys())
        raise NotTabulable("iteration over a value that is not a finite collection")

    def _comp(self, e):
        """[elt for target in iter if ...] with one or more generators, evaluated eagerly over finite collections"""
        out = []

        def rec(i):
            if i == len(e.generators):
                if isinstance(e, ast.DictComp):
                    out.append((self.ev(e.key), self.ev(e.value)))
                else:
                    out.append(self.ev(e.elt))
                return
            g = e.generators[i]
            for item in self._iterable(self.ev(g.iter)):
                self._assign(g.target, item)
                if all(self.truth(self.ev(c)) for c in g.ifs):
                    rec(i + 1)
        saved = dict(self.locals)
        rec(0)
        self.locals = saved
        return out

    def _assign(self, tgt, v):
        if isinstance(tgt, ast.Name):
            self.locals[tgt.id] = v
            return
        p = path_of(tgt)
        if p is not None:
            self.env[p] = v
            return
        if isinstance(tgt, (ast.Tuple, ast.List)) and isinstance(v, tuple) and len(v) == len(tgt.elts):
            for t, x in zip(tgt.elts, v):
                self._assign(t, x)
            return
        if isinstance(tgt, ast.Subscript) and not isinstance(tgt.slice, ast.Slice):
            base = self.ev(tgt.value)
            if isinstance(base, (list, dict)) and not (isinstance(base, dict) and "__class__" in base):
                try:
                    base[self.ev(tgt.slice)] = v
                except (IndexError, KeyError, TypeError) as exc:
                    raise NotTabulable(f"subscript store: {exc}") from exc
                return
        raise NotTabulable(f"assignment target not tabulable: {unparse(tgt)}")

    @staticmethod
    def truth(v) -> bool:
        if isinstance(v, tuple) and v and v[0] == "raise":
            raise NotTabulable("truth of raise")
        return bool(v)

    def _binop(self, op, a, b):
        if isinstance(a, (int, float)) and isinstance(b, (int, float)):
            if isinstance(op, ast.Add):
                return a + b
            if isinstance(op, ast.Sub):
                return a - b
            if isinstance(op, ast.Mult):
                return a * b
            if isinstance(op, ast.FloorDiv) and b:
                return a // b
            if isinstance(op, ast.Mod) and b:
                return a % b
            if isinstance(op, ast.Div) and b:
                return a / b
            if isinstance(a, int) and isinstance(b, int) and not isinstance(a, bool) and not isinstance(b, bool):
                if isinstance(op, ast.BitOr):
                    return a | b
                if isinstance(op, ast.BitAnd):
                    return a & b
                if isinstance(op, ast.BitXor):
                    return a ^ b
                if isinstance(op, ast.LShift) and 0 <= b < 256:
                    return a << b
                if isinstance(op, ast.RShift) and 0 <= b < 256:
                    return a >> b
        if isinstance(a, (set, frozenset)) and isinstance(b, (set, frozenset)):
            if isinstance(op, ast.BitOr):
                return a | b
            if isinstance(op, ast.BitAnd):
                return a & b
            if isinstance(op, ast.Sub):
                return a - b
        raise NotTabulable("binop not tabulable")

    def ev(self, e):
        if isinstance(e, ast.Constant):
            return e.value
        if isinstance(e, ast.Name):
            if e.id in self.locals:
                return self.locals[e.id]
            if e.id in self.env:
                return self.env[e.id]
            if e.id in ("True", "False", "None"):
                return {"True": True, "False": False, "None": None}[e.id]
            if e.id == "NotImplemented":
                return "NotImplemented"
            raise NotTabulable(f"unknown name {e.id}")
        if isinstance(e, ast.Attribute):
            p = path_of(e)
            if p is not None and p in self.env:
                return self.env[p]
            # attribute of a local / env entry that is an env-object (dict)
            base = None
            vp = path_of(e.value)
            if vp is not None and (vp in self.env or vp in self.locals or vp.split(".")[0] in self.locals or vp.split(".")[0] in self.env
                                   or any(k.startswith(vp.split(".")[0] + ".") and vp.startswith(k) for k in self.env)):
                try:
                    base = self.ev(e.value)
                except NotTabulable:
                    base = None
            if isinstance(base, dict) and e.attr in base:
                return base[e.attr]
            if self.attr_default is not None:
                return self.attr_default(p or unparse(e))
            raise NotTabulable(f"unknown path {p or unparse(e)}")
        if isinstance(e, ast.Tuple):
            return tuple(self.ev(x) for x in e.elts)
        if isinstance(e, ast.UnaryOp):
            if isinstance(e.op, ast.Not):
                return not self.truth(self.ev(e.operand))
            if isinstance(e.op, ast.USub):
                return -self.ev(e.operand)
        if isinstance(e, ast.BoolOp):
            if isinstance(e.op, ast.And):
                v = True
                for x in e.values:
                    v = self.ev(x)
                    if not self.truth(v):
                        return v
                return v
            v = False
            for x in e.values:
                v = self.ev(x)
                if self.truth(v):
                    return v
            return v
        if isinstance(e, ast.IfExp):
            return self.ev(e.body) if self.truth(self.ev(e.test)) else self.ev(e.orelse)
        if isinstance(e, ast.Compare):
            left = self.ev(e.left)
            for op, c in zip(e.ops, e.comparators):
                right = self.ev(c)
                if not self._cmp(op, left, right):
                    return False
                left = right
            return True
        if isinstance(e, ast.BinOp):
            return self._binop(e.op, self.ev(e.left), self.ev(e.right))
        if isinstance(e, (ast.GeneratorExp, ast.ListComp)):
            return tuple(self._comp(e))
        if isinstance(e, ast.SetComp):
            return frozenset(self._comp(e))
        if isinstance(e, ast.DictComp):
            return dict(self._comp(e))
        if isinstance(e, ast.Subscript) and path_of(e) is None:
            base = self.ev(e.value)
            if isinstance(base, (dict, tuple, list)) and not isinstance(e.slice, ast.Slice):
                k = self.ev(e.slice)
                try:
                    return base[k]
                except (KeyError, IndexError, TypeError) as exc:
                    raise NotTabulable(f"subscript: {exc}") from exc
        if isinstance(e, (ast.Set, ast.List)):
            vals = []
            for x in e.elts:
                if isinstance(x, ast.Starred):
                    vals.extend(self._iterable(self.ev(x.value)))
                else:
                    vals.append(self.ev(x))
            return frozenset(vals) if isinstance(e, ast.Set) else tuple(vals)
        if isinstance(e, ast.Call):
            fname = path_of(e.func)
            if fname in self.calls:
                return self.calls[fname](self, e)
            if fname in ("max", "min") and e.args and not e.keywords:
                vals = [self.ev(a) for a in e.args]
                if len(vals) == 1 and isinstance(vals[0], (tuple, list, frozenset, set)):
                    vals = list(vals[0])
                    if not vals:
                        raise NotTabulable("min/max of an empty sequence")
                return (max if fname == "max" else min)(vals)
            if fname == "range" and 1 <= len(e.args) <= 3 and not e.keywords:
                a_ = [self.ev(a) for a in e.args]
                if all(isinstance(x, int) for x in a_) and len(range(*a_)) <= 4096:
                    return tuple(range(*a_))
            if fname == "float" and len(e.args) == 1 and isinstance(e.args[0], ast.Constant) and e.args[0].value in ("inf", "-inf"):
                return float(e.args[0].value)
            if fname in ("int", "float", "bool") and len(e.args) == 1 and not e.keywords:
                v_ = self.ev(e.args[0])
                if isinstance(v_, (int, float)) and v_ == v_ and abs(v_) != float("inf"):
                    return {"int": int, "float": float, "bool": bool}[fname](v_)
                if fname == "bool":
                    return self.truth(v_)
            if fname == "enumerate" and len(e.args) == 1 and not e.keywords:
                return tuple(enumerate(self._iterable(self.ev(e.args[0]))))
            if fname == "divmod" and len(e.args) == 2 and not e.keywords:
                a_, b_ = self.ev(e.args[0]), self.ev(e.args[1])
                if isinstance(a_, int) and isinstance(b_, int) and b_:
                    return divmod(a_, b_)
            if fname in ("any", "all", "sum", "len", "set", "frozenset", "sorted", "list", "tuple", "abs") and len(e.args) == 1 and not e.keywords:
                arg = self.ev(e.args[0])
                if fname == "abs":
                    return abs(arg)
                if fname == "len":
                    return len(arg)
                items = self._iterable(arg)
                if fname == "any":
                    return any(self.truth(x) for x in items)
                if fname == "all":
                    return all(self.truth(x) for x in items)
                if fname == "sum":
                    return sum(items)
                if fname in ("set", "frozenset"):
                    return frozenset(items)
                if fname == "sorted":
                    return tuple(sorted(items))
                return tuple(items)
            if fname in ("set", "frozenset", "dict", "list", "tuple") and not e.args and not e.keywords:
                return {"set": frozenset(), "frozenset": frozenset(), "dict": {}, "list": (), "tuple": ()}[fname]
            if isinstance(e.func, ast.Attribute) and e.func.attr in ("get", "keys", "values", "items") and not e.keywords:
                try:
                    recv = self.ev(e.func.value)
                except NotTabulable:
                    recv = None
                if isinstance(recv, dict) and "__class__" not in recv:
                    if e.func.attr == "get" and 1 <= len(e.args) <= 2:
                        k = self.ev(e.args[0])
                        return recv[k] if k in recv else (self.ev(e.args[1]) if len(e.args) == 2 else None)
                    if e.func.attr == "keys" and not e.args:
                        return tuple(recv.keys())
                    if e.func.attr == "values" and not e.args:
                        return tuple(recv.values())
                    if e.func.attr == "items" and not e.args:
                        return tuple(recv.items())
            if fname == "isinstance":
                v = self.ev(e.args[0])
                if isinstance(v, dict) and "__class__" in v:
                    names = [unparse(x) for x in (e.args[1].elts if isinstance(e.args[1], ast.Tuple) else [e.args[1]])]
                    klass = v["__class__"]
                    klass = (klass,) if isinstance(klass, str) else tuple(klass)
                    return any(k in names for k in klass)
            raise NotTabulable(f"call not tabulable: {unparse(e)}")
        raise NotTabulable(f"expression not tabulable: {unparse(e)}")

    @staticmethod
    def _cmp(op, a, b) -> bool:
        try:
            if isinstance(op, ast.Lt):
                return a < b
            if isinstance(op, ast.LtE):
                return a <= b
            if isinstance(op, ast.Gt):
                return a > b
            if isinstance(op, ast.GtE):
                return a >= b
            if isinstance(op, ast.Eq):
                return a == b
            if isinstance(op, ast.NotEq):
                return a != b
            if isinstance(op, ast.Is):
                return a is b
            if isinstance(op, ast.IsNot):
                return a is not b
            if isinstance(op, ast.In):
                return a in b
            if isinstance(op, ast.NotIn):
                return a not in b
        except TypeError as exc:
            raise NotTabulable(f"comparison of incomparable abstract values: {exc}") from exc
        raise NotTabulable("comparison operator")


def orderings(n_pairs: int) -> list[tuple[tuple[int, int], ...]]:
    """All 3^n assignments of (<,=,>) to n pairs, as rank pairs."""
    opts = [(0, 1), (1, 1), (1, 0)]
    return list(itertools.product(opts, repeat=n_pairs))


def decision_table(ctx: Ctx, rule: str, fn: FunctionInfo, cases: list[tuple[str, dict, object]], what: str, *,
                   calls=None, attr_default=None) -> None:
    """G3: for each (label, env, expected) evaluate ``fn`` abstractly and compare with the specification."""
    bad = []
    for label, env, expected in cases:
        try:
            got = OrderEval(env, calls=calls, attr_default=attr_default).run(fn.node)
        except NotTabulable as exc:
            raise AnalysisError(f"{rule}: {fn.key} is not tabulable ({exc})") from exc
        if callable(expected):
            ok = expected(got)
        else:
            ok = got == expected
        if not ok:
            bad.append(f"{label}: got {got!r}, specification says {expected!r}" if not callable(expected) else f"{label}: got {got!r}")
    ctx.ob(rule, "G3", fn, None, not bad,
           f"{what}: decision table of {fn.qual} over {len(cases)} ordering case(s) "
           + ("matches the specification" if not bad else "DIFFERS: " + "; ".join(bad[:6])))
    ctx.stats["decision_table_cases"] = ctx.stats.get("decision_table_cases", 0) + len(cases)


# ------------------------------------------------------------------------------------------
# misc helpers
# ------------------------------------------------------------------------------------------


def self_attr_writes(fn: FunctionInfo, attr: str) -> list[ast.stmt]:
    """Statements of ``fn`` that assign / aug-assign ``self.<attr>`` (exact attribute)."""
    out = []
    for st in walk_stmts(fn.node.body):
        tgts = []
        if isinstance(st, ast.Assign):
            for t in st.targets:
                tgts += t.elts if isinstance(t, (ast.Tuple, ast.List)) else [t]
        elif isinstance(st, (ast.AugAssign, ast.AnnAssign)):
            tgts = [st.target]
        for t in tgts:
            if path_of(t) == f"self.{attr}":
                out.append(st)
    return out


def class_attr_writes(prog: Program, ci: ClassInfo, attr: str, *, skip_ctor: bool = True) -> list[tuple[FunctionInfo, ast.stmt]]:
    out = []
    for f in ci.module.all_functions:
        if f.cls is not ci:
            continue
        if skip_ctor and f.name in ("__init__", "__post_init__") and f.parent is None:
            continue
        for st in self_attr_writes(f, attr):
            out.append((f, st))
    return out


def package_attr_writes(prog: Program, attr: str, *, prefix: str = "") -> list[tuple[FunctionInfo, ast.stmt, str]]:
    """Every assignment anywhere in the package whose target is ``<anything>.<attr>`` (who-may-write)."""
    out = []
    for fn in prog.all_functions(prefix):
        for st in walk_stmts(fn.node.body):
            tgts = []
            if isinstance(st, ast.Assign):
                for t in st.targets:
                    tgts += t.elts if isinstance(t, (ast.Tuple, ast.List)) else [t]
            elif isinstance(st, (ast.AugAssign, ast.AnnAssign)):
                tgts = [st.target]
            elif isinstance(st, ast.Delete):
                tgts = list(st.targets)
            for t in tgts:
                base = t
                while isinstance(base, ast.Subscript):
                    base = base.value
                if isinstance(base, ast.Attribute) and base.attr == attr:
                    out.append((fn, st, unparse(base.value)))
    return out


def calls_named(root: ast.AST, name: str) -> list[ast.Call]:
    """Calls whose callee's last component is ``name`` (method or function)."""
    out = []
    for c in calls_in(root):
        f = c.func
        if (isinstance(f, ast.Attribute) and f.attr == name) or (isinstance(f, ast.Name) and f.id == name):
            out.append(c)
    return out


def enclosing_stmt(fn: FunctionInfo, inner: ast.AST) -> ast.stmt:
    """The innermost statement of ``fn`` containing expression ``inner``."""
    best = None
    for st in walk_stmts(fn.node.body):
        if isinstance(st, (ast.FunctionDef, ast.AsyncFunctionDef, ast.ClassDef)):
            continue
        own: list[ast.AST] = []
        if isinstance(st, (ast.If, ast.While)):
            own = [st.test]
        elif isinstance(st, ast.For):
            own = [st.iter, st.target]
        elif isinstance(st, ast.With):
            own = [i.context_expr for i in st.items]
        elif isinstance(st, (ast.Try, ast.Match)):
            own = [st.subject] if isinstance(st, ast.Match) else []
        else:
            own = [st]
        for e in own:
            if any(x is inner for x in ast.walk(e)):
                best = st
    if best is None:
        raise AnalysisError(f"no enclosing statement for expression at line {getattr(inner, 'lineno', '?')}")
    return best


def local_aliases(fn: FunctionInfo) -> dict[str, ast.AST]:
    """Locals assigned exactly once in ``fn`` from a plain access path (``heap_pop = heap.pop``).

    Such a local denotes the same object/bound method throughout; rules expand it so that
    introducing or removing a hot-loop alias does not change any verdict.
    """
    counts: dict[str, int] = {}
    vals: dict[str, ast.AST] = {}
    params = set(fn.params())
    for st in walk_stmts(fn.node.body):
        for t in _all_targets(st):
            if isinstance(t, ast.Name):
                counts[t.id] = counts.get(t.id, 0) + 1
                if isinstance(st, ast.Assign) and len(st.targets) == 1 and st.targets[0] is t and path_of(st.value) is not None:
                    vals[t.id] = st.value
    out = {}
    for name, v in vals.items():
        if counts.get(name) == 1 and name not in params:
            out[name] = v
    # close transitively (heap_pop -> heap.pop -> self._event_heap.pop)
    changed = True
    guard_n = 0
    while changed and guard_n < 10:
        changed = False
        guard_n += 1
        for k, v in list(out.items()):
            nv = expand(v, {kk: vv for kk, vv in out.items() if kk != k})
            if dump(nv) != dump(v):
                out[k] = nv
                changed = True
    return out


def single_defs(fn: FunctionInfo) -> dict[str, ast.AST]:
    """Locals bound exactly once in ``fn`` by a plain ``name = <expr>`` (any expression, calls included), closed transitively.

    For *shape* matching only (``max(a, b)`` with ``a`` hoisted into a temp): the expansion ignores evaluation order, so a rule
    that uses it must not depend on when the temp was computed."""
    counts: dict[str, int] = {}
    vals: dict[str, ast.AST] = {}
    params = set(fn.params())
    for st in walk_stmts(fn.node.body):
        for t in _all_targets(st):
            if isinstance(t, ast.Name):
                counts[t.id] = counts.get(t.id, 0) + 1
                if isinstance(st, ast.Assign) and len(st.targets) == 1 and st.targets[0] is t:
                    vals[t.id] = st.value
    out = {k: v for k, v in vals.items() if counts.get(k) == 1 and k not in params}
    for _ in range(6):
        changed = False
        for k, v in list(out.items()):
            nv = expand(v, {kk: vv for kk, vv in out.items() if kk != k})
            if dump(nv) != dump(v):
                out[k] = nv
                changed = True
        if not changed:
            break
    return out


def filtered_copy(fn: FunctionInfo, target: str, source: str):
    """Recognise `target = <the elements of source that satisfy P>` in ``fn`` whatever way it is written: a list comprehension over the
    source with one `if`; the same through a once-bound local; or a fresh local list filled by one loop over the source that appends the
    element under one `if` (the local then being stored, or being the target itself).
    Returns (statements involved, final store statement, frozenset of P's atom signatures with the element variable written `E`), or
    ([], store-or-None, None) when the shape is not recognised.  ``source`` is compared with the iterated expression, spaces removed."""
    sd = single_defs(fn)
    nsp = lambda e_: unparse(e_).replace(" ", "")
    stores = [s_ for s_ in walk_stmts(fn.node.body) if isinstance(s_, (ast.Assign, ast.AnnAssign)) and s_.value is not None and path_of(s_.targets[0] if isinstance(s_, ast.Assign) else s_.target) == target]
    if len(stores) != 1:
        return [], None, None
    st = stores[0]

    def from_comp(c):
        if isinstance(c, ast.ListComp) and len(c.generators) == 1 and len(c.generators[0].ifs) == 1 and nsp(c.generators[0].iter) == source \
                and isinstance(c.generators[0].target, ast.Name) and path_of(c.elt) == c.generators[0].target.id:
            return c.generators[0].target.id, c.generators[0].ifs[0]
        return None

    def from_loop(lst_name):
        loops = [l_ for l_ in walk_stmts(fn.node.body) if isinstance(l_, ast.For) and nsp(l_.iter) == source and isinstance(l_.target, ast.Name)
                 and any(path_of(k.func) == f"{lst_name}.append" for k in calls_in(l_))]
        # an `else` that only keeps a count of the rejected elements (augmented assignments to plain locals) does not change what is kept
        def counts_only(orelse):
            return all(isinstance(x, ast.AugAssign) and isinstance(x.target, ast.Name) and x.target.id != lst_name and not any(isinstance(y, ast.Call) for y in ast.walk(x.value)) for x in orelse)
        if len(loops) == 1 and len(loops[0].body) == 1 and isinstance(loops[0].body[0], ast.If) and counts_only(loops[0].body[0].orelse):
            if_ = loops[0].body[0]
            apps = [x for x in if_.body if isinstance(x, ast.Expr) and isinstance(x.value, ast.Call) and path_of(x.value.func) == f"{lst_name}.append" and [path_of(a_) for a_ in x.value.args] == [loops[0].target.id]]
            others = [k for k in calls_in(fn.node) if path_of(k.func) in (f"{lst_name}.append", f"{lst_name}.extend", f"{lst_name}.insert") and not any(k is x.value for x in apps)]
            if len(apps) == 1 and len(if_.body) == 1 and not others:
                return loops[0], (loops[0].target.id, if_.test)
        return None, None
    involved = [st]
    got = from_comp(st.value)
    if got is None and isinstance(st.value, ast.List) and not st.value.elts and "." not in target:
        lp, got = from_loop(target)
        if lp is not None:
            involved.append(lp)
    if got is None and isinstance(st.value, ast.Name):
        defs = [s_ for s_ in walk_stmts(fn.node.body) if isinstance(s_, (ast.Assign, ast.AnnAssign)) and path_of(s_.targets[0] if isinstance(s_, ast.Assign) else s_.target) == st.value.id and s_.value is not None]
        if len(defs) == 1:
            involved.append(defs[0])
            got = from_comp(defs[0].value)
            if got is None and isinstance(defs[0].value, ast.List) and not defs[0].value.elts:
                lp, got = from_loop(st.value.id)
                if lp is not None:
                    involved.append(lp)
    if got is None:
        return [], st, None
    var, test = got
    test = expand(test, {k_: v_ for k_, v_ in sd.items() if k_ != var})
    from ..facts import atoms
    sigs = frozenset((f.sig[0], f.sig[1].replace(f"{var}.", "E."), f.sig[2].replace(f"{var}.", "E.")) for f in atoms(test, True))
    return involved, st, sigs


def _all_targets(st: ast.stmt) -> list[ast.AST]:
    from ..effects import write_targets

    if isinstance(st, (ast.Assign, ast.AugAssign, ast.AnnAssign, ast.For, ast.With, ast.Delete)):
        return write_targets(st)
    return []


def expand(expr: ast.AST, aliases: dict[str, ast.AST]) -> ast.AST:
    return subst(expr, aliases) if aliases else expr


def xpath(expr: ast.AST, aliases: dict[str, ast.AST]) -> str | None:
    """Access path of ``expr`` after alias expansion."""
    return path_of(expand(expr, aliases))


# ------------------------------------------------------------------------------------------
# list "ingredients" along one path (what ends up in a returned / pushed list)
# ------------------------------------------------------------------------------------------


def ingredients_along(path_nodes: list[Node]) -> tuple[dict[str, set[str]], list[tuple[Node, set[str]]]]:
    """Abstractly follows list-valued locals along one CFG path.

    Returns (final environment name -> ingredient texts, [(return node, ingredients of returned value)]).
    Ingredients are source texts of the non-local expressions that flow into the value: calls, attribute
    paths, parameters.  `a + b`, `list(x)`, `[x, *y]`, `.append/.extend/.insert`, `+=` are followed.
    """
    env: dict[str, set[str]] = {}
    rets: list[tuple[Node, set[str]]] = []

    def ingr(e: ast.AST | None) -> set[str]:
        if e is None:
            return set()
        if isinstance(e, ast.Name):
            return (set(env[e.id]) | {e.id}) if e.id in env else {e.id}
        if isinstance(e, ast.BinOp) and isinstance(e.op, ast.Add):
            return ingr(e.left) | ingr(e.right)
        if isinstance(e, (ast.List, ast.Tuple, ast.Set)):
            out: set[str] = set()
            for x in e.elts:
                out |= ingr(x.value if isinstance(x, ast.Starred) else x)
            return out
        if isinstance(e, ast.IfExp):
            return ingr(e.body) | ingr(e.orelse)
        if isinstance(e, ast.BoolOp):
            out = set()
            for x in e.values:
                out |= ingr(x)
            return out
        if isinstance(e, ast.Call):
            fname = path_of(e.func)
            if fname in ("list", "tuple", "sorted", "reversed") and len(e.args) == 1:
                return ingr(e.args[0])
            return {unparse(e)}
        if isinstance(e, ast.Constant):
            return set()
        p = path_of(e)
        if p is not None:
            return {p}
        return {unparse(e)}

    for n in path_nodes:
        a = n.ast
        if n.kind != "stmt" or a is None:
            continue
        if isinstance(a, ast.Assign) and len(a.targets) == 1:
            t = a.targets[0]
            if isinstance(t, ast.Name):
                env[t.id] = ingr(a.value)
            elif isinstance(t, (ast.Tuple, ast.List)):
                src = ingr(a.value)
                for el in t.elts:
                    if isinstance(el, ast.Name):
                        env[el.id] = set(src) | {f"{unparse(a.value)}[{t.elts.index(el)}]"}
        elif isinstance(a, ast.AnnAssign) and isinstance(a.target, ast.Name) and a.value is not None:
            env[a.target.id] = ingr(a.value)
        elif isinstance(a, ast.AugAssign) and isinstance(a.target, ast.Name):
            env[a.target.id] = env.get(a.target.id, {a.target.id}) | ingr(a.value)
        elif isinstance(a, ast.Expr) and isinstance(a.value, ast.Call) and isinstance(a.value.func, ast.Attribute):
            c = a.value
            if isinstance(c.func.value, ast.Name) and c.func.attr in ("append", "extend", "insert", "appendleft", "add", "update"):
                nm = c.func.value.id
                arg = c.args[-1] if c.args else None
                env[nm] = env.get(nm, {nm}) | ingr(arg)
        elif isinstance(a, ast.Return):
            rets.append((n, ingr(a.value)))
    return env, rets


def increment_of(st: ast.AST | None, target_path: str):
    """Signed constant step by which ``st`` changes ``target_path`` (`p += k`, `p -= k`, `p = p ± k`, `p = k + p`).

    Returns None when ``st`` does not write ``target_path``; returns the string "other" for any other write.
    """
    if isinstance(st, ast.AugAssign) and path_of(st.target) == target_path:
        try:
            k = const_value_num(st.value)
        except ValueError:
            return "other"
        if isinstance(st.op, ast.Add):
            return k
        if isinstance(st.op, ast.Sub):
            return -k
        return "other"
    if isinstance(st, ast.Assign) and any(path_of(t) == target_path for t in st.targets):
        v = st.value
        if isinstance(v, ast.BinOp) and isinstance(v.op, (ast.Add, ast.Sub)):
            try:
                if path_of(v.left) == target_path:
                    k = const_value_num(v.right)
                    return k if isinstance(v.op, ast.Add) else -k
                if path_of(v.right) == target_path and isinstance(v.op, ast.Add):
                    return const_value_num(v.left)
            except ValueError:
                return "other"
        return "other"
    return None


def const_value_num(node: ast.AST):
    if isinstance(node, ast.Constant) and isinstance(node.value, (int, float)) and not isinstance(node.value, bool):
        return node.value
    if isinstance(node, ast.UnaryOp) and isinstance(node.op, ast.USub):
        return -const_value_num(node.operand)
    raise ValueError


def guard_latch(ctx: Ctx, rule: str, fn: FunctionInfo, flag: str, action_pattern: str, what: str) -> None:
    """One-shot discipline: `flag = True` is dominated by `not flag`, and every statement matching ``action_pattern`` is
    either dominated by `not flag` itself or only reachable through the latch statement (so it runs at most once)."""
    latch = stmts_matching(fn, f"{flag} = True")
    if len(latch) != 1:
        raise ShapeMismatch(f"{rule}: expected exactly one `{flag} = True` in {fn.key}, found {len(latch)}")
    ok, why = holds_with_callers(ctx, fn, latch[0][0], [parse_expr(f"not {flag}")], depth=0)
    ctx.ob(rule, "G1", fn, latch[0][0], ok, f"{what}: the latch `{flag} = True` is set only under `not {flag}` — " + ("holds" if ok else "FAILS: " + why))
    acts = stmts_matching(fn, action_pattern)
    if not acts:
        raise ShapeMismatch(f"{rule}: pattern `{action_pattern}` matched nothing in {fn.key}")
    for st, _ in acts:
        ok1, _ = holds_with_callers(ctx, fn, st, [parse_expr(f"not {flag}")], depth=0)
        ok2 = not always_before(ctx, fn, lambda n: n.ast is latch[0][0], lambda n, st=st: n.ast is st)
        ctx.ob(rule, "G1", fn, st, ok1 or ok2, f"{what}: `{norm_stmt(st)}` runs at most once (behind the `{flag}` latch)")


# ------------------------------------------------------------------------------------------
# G8 — message schema / handler exhaustiveness agreement inside one protocol class
# ------------------------------------------------------------------------------------------


def protocol_schema(ctx: Ctx, rule: str, cls: ClassInfo, *, send_attr: str = "self._network.send", meta_names=("metadata", "meta", "payload", "data")) -> dict:
    """For a protocol entity class: dispatch table, per event type the payload keys written at every send site, and the
    keys each handler reads *without default*.  Records obligations: every sent type has a handler (when the class dispatches
    on it), every self-scheduled type has a handler, handler reads ⊆ keys written by every send site."""
    prog = ctx.prog
    methods = [f for f in cls.module.all_functions if f.cls is cls]
    he = cls.methods.get("handle_event")
    if he is None:
        raise AnalysisError(f"{rule}: {cls.key} has no handle_event")
    dispatch: dict[str, str] = {}
    for n in walk_scope(he.node):
        if isinstance(n, ast.Dict):
            for k, v in zip(n.keys, n.values):
                if isinstance(k, ast.Constant) and isinstance(k.value, str) and isinstance(v, ast.Attribute) and path_of(v.value) == "self":
                    dispatch[k.value] = v.attr
        if isinstance(n, ast.If):
            for f in atoms(n.test, True):
                if f.op == "eq" and ("event_type" in f.a or "event_type" in f.b):
                    lit = f.a if f.a.startswith(("'", '"')) else f.b
                    try:
                        t = ast.literal_eval(lit)
                    except Exception:
                        continue
                    calls = [c for b in n.body for c in calls_in(b) if isinstance(c.func, ast.Attribute) and path_of(c.func.value) == "self"]
                    if calls and isinstance(t, str):
                        dispatch[t] = calls[0].func.attr
    sends: dict[str, list[tuple[FunctionInfo, ast.Call, set[str]]]] = {}
    self_events: dict[str, list[tuple[FunctionInfo, ast.Call]]] = {}
    for m in methods:
        for c in calls_in(m.node):
            p = path_of(c.func) or ""
            kw = {k.arg: k.value for k in c.keywords if k.arg}
            if p == send_attr and isinstance(kw.get("event_type"), ast.Constant):
                keys = set()
                pl = kw.get("payload")
                if isinstance(pl, ast.Dict):
                    keys = {k.value for k in pl.keys if isinstance(k, ast.Constant)}
                sends.setdefault(kw["event_type"].value, []).append((m, c, keys))
            elif p.split(".")[-1] == "Event" and isinstance(kw.get("event_type"), ast.Constant) and path_of(kw.get("target")) == "self":
                self_events.setdefault(kw["event_type"].value, []).append((m, c))
    reads: dict[str, set[str]] = {}
    for t, hname in dispatch.items():
        h = cls.methods.get(hname)
        if h is None:
            ctx.ob(rule, "G8", he, f"handler for {t}", False, f"dispatch table names `{hname}` for `{t}` but the class has no such method")
            continue
        rk = set()
        for n in walk_scope(h.node):
            if isinstance(n, ast.Subscript) and isinstance(n.ctx, ast.Load) and path_of(n.value) in meta_names and isinstance(n.slice, ast.Constant) and isinstance(n.slice.value, str):
                rk.add(n.slice.value)
        reads[t] = rk
    for t, sites in sends.items():
        if t in dispatch:
            for m, c, keys in sites:
                missing = sorted(reads.get(t, set()) - keys)
                ctx.ob(rule, "G8", m, f"send {t}", not missing,
                       f"every key the `{t}` handler reads without default is written by this send site (payload keys {sorted(keys)})" + ("" if not missing else f" — missing {missing}"), node=c)
    for t, sites in self_events.items():
        ctx.ob(rule, "G8", sites[0][0], f"self-scheduled {t}", t in dispatch, f"the entity schedules `{t}` to itself and its handle_event has a branch for it", node=sites[0][1])
    return {"dispatch": dispatch, "sends": sends, "reads": reads, "self_events": self_events}


# ------------------------------------------------------------------------------------------
# acquire/release symmetry of counting models (used by C08 and C09)
# ------------------------------------------------------------------------------------------

def counting_symmetry(ctx: Ctx, rule: str, relpath: str, *, up: str = "acquire", down: str = "release") -> int:
    """For every class of ``relpath`` that has both methods: the amount ``up`` adds to its counter equals the amount ``down`` takes
    from it (`x += d` vs `x -= d` / `x = max(0, x - d)` / `x = x - d`).  Returns the number of classes checked."""
    prog = ctx.prog
    n = 0
    for c in prog.module(relpath).classes.values():
        if up not in c.methods or down not in c.methods or not any(isinstance(s, (ast.AugAssign, ast.Assign)) for s in walk_stmts(c.methods[up].node.body)):
            continue
        ups = {}
        for st in walk_stmts(c.methods[up].node.body):
            if isinstance(st, ast.AugAssign) and isinstance(st.op, ast.Add) and (path_of(st.target) or "").startswith("self._"):
                ups[path_of(st.target)] = unparse(st.value)
        downs = {}
        for st in walk_stmts(c.methods[down].node.body):
            tgt = None
            amount = None
            if isinstance(st, ast.AugAssign) and isinstance(st.op, ast.Sub):
                tgt, amount = path_of(st.target), unparse(st.value)
            elif isinstance(st, ast.Assign) and len(st.targets) == 1:
                tgt = path_of(st.targets[0])
                for x in ast.walk(st.value):
                    if isinstance(x, ast.BinOp) and isinstance(x.op, ast.Sub) and path_of(x.left) == tgt:
                        amount = unparse(x.right)
            if tgt and amount is not None and tgt.startswith("self._"):
                downs[tgt] = amount
        shared = set(ups) & set(downs)
        if not shared:
            continue
        n += 1
        bad = [f"{t}: +{ups[t]} / -{downs[t]}" for t in sorted(shared) if ups[t] != downs[t]]
        ctx.ob(rule, "G4", c.methods[down], f"{c.name}: {up} and {down} move the counter by the same amount", not bad,
               f"{c.name}.{up} adds and .{down} removes the same amount ({', '.join(f'{t} ±{ups[t]}' for t in sorted(shared))})" + ("" if not bad else " — asymmetric: " + "; ".join(bad)))
    return n


def applied_before_suspension(ctx: Ctx, rule: str, fn: FunctionInfo, target_text: str, what: str) -> None:
    """Every suspension of ``fn`` is preceded on every path by the write whose target unparses to ``target_text`` (the state change
    happens before the modelled latency, so nothing that runs during the latency can miss it or act on the old container)."""
    from ..suspend import node_suspension
    ff = ctx.flow(fn)
    ws = [n for n in ff.cfg.nodes if n.kind == "stmt" and isinstance(n.ast, (ast.Assign, ast.AugAssign)) and unparse(n.ast.targets[0] if isinstance(n.ast, ast.Assign) else n.ast.target).replace(" ", "") == target_text]
    susp = [n for n in ff.cfg.nodes if n.kind in ("stmt", "test", "for") and node_suspension(ctx.prog, fn, n)]
    ok = bool(ws) and bool(susp) and all(not always_before(ctx, fn, lambda x: x in ws, lambda x, s_=s_: x is s_) for s_ in susp)
    ctx.ob(rule, "G5", fn, ws[0].ast if ws else None, ok, what)
