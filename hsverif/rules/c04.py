"""C04 — observing, pausing or stepping a run does not change it (structural clauses)."""

from __future__ import annotations

import ast

from .. import AnalysisError
from ..astutil import calls_in, norm_stmt, path_of, unparse, walk_scope, walk_stmts
from ..cfg import own_exprs
from ..facts import Fact, atoms, enumerate_paths
from ..report import Ctx
from .c01 import LoopInfo, _callee_writes_time, _is_push_of
from .common import (
    always_before, decision_table, expand, guard, increment_of, need, node_of, stmts_matching, xpath,
)

SIM = "happysimulator/core/simulation.py"
EV = "happysimulator/core/event.py"
CTL = "happysimulator/core/control/control.py"
BRK = "happysimulator/core/control/breakpoints.py"
REC = "happysimulator/instrumentation/recorder.py"

EXPLANATION = (
    "Sibling agreement of the instrumented loop (_run_loop) and the fast loop (_execute_until): the sets of core-effect "
    "sequences per feasible iteration path (pop, cancel count, time write, clock update, processed count, invoke, push) "
    "and the loop guards must be equal after inlining helpers, resolving hot-loop aliases and deleting observer "
    "statements; observer purity (control hooks, breakpoints, trace recorders, tracing blocks write nothing the engine "
    "reads and contain no control transfer); pause/step/breakpoint protocol (pause test before every pop, one notify + "
    "breakpoint check after every delivery, step countdown exact, run() re-entry does not reset); reset re-priming agreement."
)
RULE_TEXT = ("Instances: one per loop skeleton comparison, per observer function, per tracing block, per protocol clause. "
             "Distinct by (rule, construct).")
NOT_DECIDED = ["purity of user callbacks registered as hooks / breakpoint predicates", "wall-clock fields of summaries"]
ASSUMPTIONS = ["statements classified as observers (logging, trace recorder, control notifications, heap.set_current_time, _last_event) "
               "are exactly those listed in the rule pack"]


# core-effect projection of one iteration path -------------------------------------------------------------


def _helper_sequence(ctx: Ctx, L: LoopInfo, callee) -> list[str]:
    """Core effects of the time-advance helper, in source order (straight-line body required)."""
    out = []
    for st in callee.node.body:
        if isinstance(st, ast.Expr) and isinstance(st.value, ast.Constant):
            continue
        if isinstance(st, (ast.If, ast.For, ast.While, ast.Try, ast.With)):
            raise AnalysisError(f"C04-1: helper {callee.key} is not straight-line; cannot inline")
        if isinstance(st, ast.Assign) and any(path_of(t) == "self._current_time" for t in st.targets):
            out.append("TIME")
        elif increment_of(st, "self._events_processed") == 1:
            out.append("PROC+1")
        elif increment_of(st, "self._events_processed") is not None:
            out.append("PROC?")
        elif isinstance(st, ast.Expr) and isinstance(st.value, ast.Call) and path_of(st.value.func) == "self._clock.update":
            out.append("CLOCK")
    return out


def _project(ctx: Ctx, L: LoopInfo, p) -> tuple[str, ...]:
    fn = L.fn
    seq: list[str] = []
    for n in p.nodes:
        if n is L.pop_node:
            seq.append("POP")
            continue
        if n.kind != "stmt" or n.ast is None:
            continue
        a = n.ast
        k = increment_of(a, L.cancel_carrier)
        if k is not None:
            seq.append("CANC+1" if k == 1 else "CANC?")
            continue
        k = increment_of(a, L.processed_carrier)
        if k is not None:
            seq.append("PROC+1" if k == 1 else "PROC?")
            continue
        if isinstance(a, ast.Assign) and any(path_of(t) == L.carrier for t in a.targets) and L.loop_id in n.in_loops:
            seq.append("TIME")
            continue
        if n is L.invoke_node:
            seq.append("INVOKE")
            continue
        done = False
        for c in calls_in(a):
            if xpath(c.func, L.al) == "self._clock.update":
                seq.append("CLOCK")
                done = True
            r = _callee_writes_time(ctx, fn, c)
            if r is not None:
                seq += _helper_sequence(ctx, L, r[0])
                done = True
        if done:
            continue
        if _is_push_of(ctx, L, n, L.result):
            seq.append("PUSH")
            continue
        # routing through the partition router replaces the result before pushing — core for C05, neutral here
    # independent bookkeeping statements may be written in any order: canonicalise the pre-/post-invoke segments
    # (the required orders time-write → clock update → invoke are decided by C01-4)
    if "INVOKE" in seq:
        i = seq.index("INVOKE")
        head, pre, post = seq[:1], sorted(seq[1:i]), sorted(seq[i + 1:])
        return tuple(head + pre + ["INVOKE"] + post)
    return tuple(seq[:1] + sorted(seq[1:]))


def _guard_atoms(L: LoopInfo) -> set[tuple]:
    """Normalised loop guard: has_events ∧ current <= horizon."""
    out = set()
    test = L.while_stmt.test
    for f in atoms(expand(test, L.al), True):
        op, a, b = f.sig
        a2 = a.replace(".nanoseconds", "")
        b2 = b.replace(".nanoseconds", "")
        if a2 in (L.carrier, "self._current_time"):
            a2 = "CURRENT"
        if b2 in (L.carrier, "self._current_time"):
            b2 = "CURRENT"
        for h in ("self._end_time", "end_time_ns", "end_time"):
            if a2 == h:
                a2 = "HORIZON"
            if b2 == h:
                b2 = "HORIZON"
        if "has_events" in a2:
            a2 = "HAS_EVENTS"
        out.add((op, a2, b2))
    return out


def rule_loop_agreement(ctx: Ctx) -> None:
    prog = ctx.prog
    slow = LoopInfo(ctx, prog.func(SIM, "Simulation._run_loop"))
    fast = LoopInfo(ctx, prog.func(SIM, "Simulation._execute_until"))
    sets = {}
    for name, L in (("slow", slow), ("fast", fast)):
        seqs: dict[tuple, str] = {}
        for p in enumerate_paths(L.ff, L.loop_head, stop=L.is_loop_head):
            if p.end == "raise":
                continue
            if not any(n is L.pop_node for n in p.nodes):
                continue  # loop exit / pause-before-pop / auto-termination: nothing consumed
            seqs.setdefault(_project(ctx, L, p), p.describe())
        sets[name] = seqs
    ctx.stats["loop_skeletons_slow"] = len(sets["slow"])
    ctx.stats["loop_skeletons_fast"] = len(sets["fast"])
    only_slow = sorted(set(sets["slow"]) - set(sets["fast"]))
    only_fast = sorted(set(sets["fast"]) - set(sets["slow"]))
    ok = not only_slow and not only_fast
    msg = "both loops have the same set of core-effect sequences per iteration: " + ", ".join("·".join(s) for s in sorted(sets["fast"]))
    if not ok:
        msg = ("the two loops DISAGREE — only in _run_loop: " + "; ".join("·".join(s) + f" [{sets['slow'][s]}]" for s in only_slow[:3])
               + " | only in _execute_until: " + "; ".join("·".join(s) + f" [{sets['fast'][s]}]" for s in only_fast[:3]))
    ctx.ob("C04-1", "G4", slow.fn, "loop skeletons agree", ok, msg, node=slow.while_stmt)
    # expected shape of the skeleton set itself (so that a change made to *both* loops is still seen)
    want = {("POP", "CANC+1"), ("POP",), ("POP", "CLOCK", "PROC+1", "TIME", "INVOKE"), ("POP", "CLOCK", "PROC+1", "TIME", "INVOKE", "PUSH")}
    for name, L in (("slow", slow), ("fast", fast)):
        got = set(sets[name])
        ctx.ob("C04-1", "G4", L.fn, "loop skeleton shape", got == want,
               f"{L.fn.qual}: per-iteration core sequences are " + ", ".join("·".join(s) for s in sorted(got))
               + ("" if got == want else " — expected " + ", ".join("·".join(s) for s in sorted(want))), node=L.while_stmt)
    gs, gf = _guard_atoms(slow), _guard_atoms(fast)
    ctx.ob("C04-1", "G4", fast.fn, "loop guards agree", gs == gf,
           f"loop guards after normalisation: _run_loop {sorted(gs)} vs _execute_until {sorted(gf)}", node=fast.while_stmt)
    # fast path is chosen exactly when nothing observes: control is None, no tracing, explicit end, no router
    rl = slow.fn
    ff = slow.ff
    fast_calls = [c for c in calls_in(rl.node) if isinstance(c.func, ast.Attribute) and c.func.attr == "_run_loop_fast"]
    need(len(fast_calls) == 1, "C04-1: expected one call of _run_loop_fast in _run_loop")
    n = node_of(ff.cfg, fast_calls[0])
    wants = [Fact("is", "control", "None"), Fact("falsy", "self._tracing_enabled"), Fact("falsy", "auto_terminate"), Fact("is", "self._event_router", "None")]
    missing = [str(w) for w in wants if not ff.holds_at(n, w)]
    ctx.ob("C04-1", "G1", rl, fast_calls[0], not missing,
           "the fast loop (which has no observer hooks, no auto-termination test) is entered only when control is None, tracing is off, "
           "end_time is explicit and no router is installed" + ("" if not missing else f" — missing {missing}"))
    ctx.floor("C04-1", 5)


# observer purity -------------------------------------------------------------------------------------------

_FORBIDDEN_CALL_SUFFIX = ("_event_heap.push", "_event_heap.pop", "_clock.update", ".schedule", ".cancel", "heapq.heappush", "heapq.heappop",
                          "heapq.heapify", "_push_new_events", "_advance_time", "reset_event_counter")


def _impure(fn) -> list[str]:
    bad = []
    for n in walk_scope(fn.node, include_root=False):
        if isinstance(n, (ast.Assign, ast.AugAssign, ast.AnnAssign, ast.Delete)):
            tg = n.targets if isinstance(n, (ast.Assign, ast.Delete)) else [n.target]
            for t in tg:
                for e in (t.elts if isinstance(t, (ast.Tuple, ast.List)) else [t]):
                    base = e
                    while isinstance(base, ast.Subscript):
                        base = base.value
                    p = path_of(base) or ""
                    if p.startswith(("self._sim.", "context.simulation.", "sim.")) or "._event_heap" in p or "._clock" in p:
                        bad.append(f"writes `{p}`")
        elif isinstance(n, ast.Call):
            p = path_of(n.func) or ""
            if any(p.endswith(s) or p == s.lstrip(".") for s in _FORBIDDEN_CALL_SUFFIX):
                bad.append(f"calls `{p}`")
    return bad


def rule_observer_purity(ctx: Ctx) -> None:
    prog = ctx.prog
    ctl = prog.cls(CTL, "SimulationControl")
    for m in ("_should_pause", "_notify_time_advance", "_notify_event_processed", "_check_breakpoints", "get_state", "peek_next", "find_events",
              "add_breakpoint", "remove_breakpoint", "on_event", "on_time_advance", "remove_hook", "list_breakpoints", "clear_breakpoints", "pause"):
        fn = prog.func(CTL, f"SimulationControl.{m}")
        bad = _impure(fn)
        ctx.ob("C04-2", "G2", fn, None, not bad, f"observer `{m}` must not push/pop/cancel events, move the clock or write simulation state"
               + ("" if not bad else ": " + "; ".join(bad)))
    # queries asked once per loop iteration write nothing at all on the control object: the step budget counts *delivered* events, so it may
    # be drawn only where a delivery is reported (an iteration that pops a cancelled event is not a step)
    for m in ("_should_pause", "get_state", "peek_next", "find_events", "list_breakpoints"):
        fn = prog.func(CTL, f"SimulationControl.{m}")
        ws = [norm_stmt(s_) for s_ in walk_scope(fn.node, include_root=False) if isinstance(s_, (ast.Assign, ast.AugAssign, ast.AnnAssign))
              and any((path_of(t_) or "").startswith("self.") for t_ in (s_.targets if isinstance(s_, ast.Assign) else [s_.target]))]
        ctx.ob("C04-2", "G6", fn, "query writes nothing", not ws, f"SimulationControl.{m} is a query: it changes no field of the control object" + ("" if not ws else " — " + "; ".join(ws[:2])))
    decs = []
    for fn in prog.all_functions("happysimulator/core/"):
        for s_ in walk_scope(fn.node, include_root=False):
            if isinstance(s_, (ast.Assign, ast.AugAssign)) and any((path_of(t_) or "").endswith("._steps_remaining") for t_ in (s_.targets if isinstance(s_, ast.Assign) else [s_.target])):
                k = increment_of(s_, path_of(s_.targets[0] if isinstance(s_, ast.Assign) else s_.target))
                if isinstance(s_, ast.AugAssign) or k not in (None, "other"):
                    decs.append((fn, s_, k))
                else:
                    okv = isinstance(s_.value, ast.Constant) and s_.value.value is None or (fn.name == "step" and path_of(s_.value) in fn.params())
                    ctx.ob("C04-3", "G6", fn, s_, okv, f"{fn.qual}: the step budget is set to the requested count by step() and cleared (None) elsewhere")
    okd = len(decs) == 1 and decs[0][0].qual.endswith("SimulationControl._notify_event_processed") and decs[0][2] == -1
    ctx.ob("C04-3", "G6", decs[0][0] if decs else None, decs[0][1] if decs else "step budget decrement", okd,
           "the step budget is drawn in exactly one place, by one, where a delivered event is reported (`_notify_event_processed`): step(n) delivers n events"
           + ("" if okd else f" — decrements found in {[d[0].qual for d in decs]}"), relpath=CTL)
    for c in prog.module(BRK).classes.values():
        sb = c.methods.get("should_break")
        if sb is None or c.name == "Breakpoint":
            continue
        bad = _impure(sb)
        writes = [norm_stmt(s) for s in walk_stmts(sb.node.body) if isinstance(s, (ast.Assign, ast.AugAssign)) and any(
            (path_of(t) or "").startswith("context.") for t in (s.targets if isinstance(s, ast.Assign) else [s.target]))]
        ctx.ob("C04-2", "G2", sb, None, not bad and not writes, f"{c.name}.should_break is a pure predicate of the context" + ("" if not bad else ": " + "; ".join(bad + writes)))
        # ... and of nothing else: the evaluation (should_break and the methods of the class it reaches) keeps no memory on the breakpoint,
        # so the same breakpoint object gives the same answer for the same context whatever it was asked before (another run, another Simulation)
        seen, todo, mem = set(), [sb], []
        while todo:
            m_ = todo.pop()
            if m_.qual in seen:
                continue
            seen.add(m_.qual)
            for st_ in walk_scope(m_.node, include_root=False):
                if isinstance(st_, (ast.Assign, ast.AugAssign, ast.AnnAssign)):
                    for t_ in (st_.targets if isinstance(st_, ast.Assign) else [st_.target]):
                        if (path_of(t_) or "").startswith("self.") or (isinstance(t_, ast.Subscript) and (path_of(t_.value) or "").startswith("self.")):
                            mem.append(f"{m_.name}: {norm_stmt(st_)}")
                if isinstance(st_, ast.Call) and isinstance(st_.func, ast.Attribute):
                    recv = path_of(st_.func.value) or ""
                    if recv.startswith("self.") and st_.func.attr in ("append", "extend", "insert", "add", "update", "setdefault", "pop", "popitem", "clear", "remove", "discard", "appendleft", "popleft"):
                        mem.append(f"{m_.name}: {unparse(st_)[:70]}")
                    if recv == "self" and st_.func.attr in c.methods:
                        todo.append(c.methods[st_.func.attr])
        ctx.ob("C04-2", "G6", sb, "no memory", not mem, f"{c.name}: evaluating the breakpoint writes nothing on the breakpoint itself (a cached entity or counter would make the answer depend on "
               "earlier evaluations — e.g. of a previous Simulation the object was attached to)" + ("" if not mem else " — " + "; ".join(mem[:2])))
    for c in prog.module(REC).classes.values():
        r = c.methods.get("record")
        if r is None:
            continue
        bad = _impure(r)
        ctx.ob("C04-2", "G2", r, None, not bad, f"{c.name}.record only records" + ("" if not bad else ": " + "; ".join(bad)))
    # tracing / logging blocks in the engine: no control transfer, no definitions used outside the block
    n_blocks = 0
    for rel, q in ((EV, "Event.invoke"), (EV, "ProcessContinuation.invoke"), (SIM, "Simulation._run_loop"), (SIM, "Simulation._push_new_events"),
                   (SIM, "Simulation._execute_until"), ("happysimulator/core/event_heap.py", "EventHeap.pop"), ("happysimulator/core/event_heap.py", "EventHeap._push_single")):
        fn = prog.func(rel, q)
        flag_aliases = {"_event_tracing_enabled", "self._tracing_enabled", "tracing_on"}
        for st in walk_stmts(fn.node.body):
            if not isinstance(st, ast.If) or st.orelse:
                continue
            t = st.test
            is_flag = path_of(t) in flag_aliases or (isinstance(t, ast.Call) and (path_of(t.func) or "").endswith("isEnabledFor"))
            if not is_flag:
                continue
            n_blocks += 1
            bad = []
            defined = set()
            for s in walk_stmts(st.body):
                if isinstance(s, (ast.Return, ast.Break, ast.Continue, ast.Raise, ast.Yield)):
                    bad.append(f"control transfer `{norm_stmt(s)}`")
                elif isinstance(s, (ast.Assign, ast.AugAssign, ast.AnnAssign)):
                    for tg in (s.targets if isinstance(s, ast.Assign) else [s.target]):
                        p = path_of(tg)
                        if p is None or "." in p:
                            bad.append(f"writes `{unparse(tg)}`")
                        else:
                            defined.add(p)
                elif isinstance(s, ast.Expr) and isinstance(s.value, ast.Call):
                    p = path_of(s.value.func) or unparse(s.value.func)
                    if not (p.startswith(("logger.", "self.trace", "self._trace.record")) or p.endswith((".append",)) and "_ensure_stack" in p):
                        bad.append(f"calls `{p}`")
                elif isinstance(s, (ast.For, ast.If)):
                    pass
                else:
                    bad.append(f"statement `{norm_stmt(s)}`")
            # names defined in the block must not be read outside it
            inside = {id(x) for x in ast.walk(st)}
            for x in walk_scope(fn.node, include_root=False):
                if isinstance(x, ast.Name) and isinstance(x.ctx, ast.Load) and x.id in defined and id(x) not in inside:
                    # allowed when the outside read is itself inside another block guarded by a tracing flag
                    ok_out = False
                    for st2 in walk_stmts(fn.node.body):
                        if isinstance(st2, ast.If) and st2 is not st and (path_of(st2.test) in flag_aliases) and any(y is x for y in ast.walk(st2)):
                            ok_out = True
                    if not ok_out:
                        bad.append(f"`{x.id}` defined under the tracing flag is read outside it (line {x.lineno})")
            ctx.ob("C04-2", "G2", fn, st, not bad, f"block under `{unparse(t)}` only observes" + ("" if not bad else ": " + "; ".join(bad[:3])))
    need(n_blocks >= 10, f"C04-2: only {n_blocks} tracing/logging blocks found in the engine")
    ctx.floor("C04-2", 30)


# pause / step / breakpoint protocol ---------------------------------------------------------------------------


def rule_protocol(ctx: Ctx) -> None:
    prog = ctx.prog
    L = LoopInfo(ctx, prog.func(SIM, "Simulation._run_loop"))
    fn, ff = L.fn, L.ff
    ev = L.ev

    def has_call(n, suffix: str) -> bool:
        return any(isinstance(c, ast.Call) and (path_of(c.func) or "").endswith(suffix) for e in own_exprs(n) for c in walk_scope(e))

    bad = []
    n_pop = 0
    for p in enumerate_paths(ff, L.loop_head, stop=lambda n: n is L.pop_node):
        if not (p.end == "stop" and p.nodes[-1] is L.pop_node):
            # leaving without pop: if it returns via pause it must not have popped (trivially true here)
            continue
        n_pop += 1
        ctl_on = p.decided(lambda t: t == "controlisnotNone")
        sp = p.decided(lambda t: "_should_pause()" in t)
        if ctl_on is not False and sp is not False:
            bad.append(f"path [{p.describe()}] reaches pop with a control surface attached without `_should_pause()` having been false")
    need(n_pop > 0, "C04-3: no path to pop")
    ctx.ob("C04-3", "G1", fn, "pause test before pop", not bad, "with a control surface attached, `_should_pause()` is consulted (and false) before every pop — "
           + ("ok" if not bad else "; ".join(bad[:2])), node=L.pop_stmt)
    # pause returns without popping and through _pause_simulation
    rets = [n for n in ff.cfg.nodes if n.kind == "stmt" and isinstance(n.ast, ast.Return) and L.loop_id in n.in_loops]
    for r in rets:
        ok = isinstance(r.ast.value, ast.Call) and path_of(r.ast.value.func) == "self._pause_simulation"
        ctx.ob("C04-3", "G2", fn, r.ast, ok, "the only way to leave the loop early is through _pause_simulation() (marks the run paused, keeps it running)")
    # after every delivery with control attached: notify once (same event), then breakpoint check
    bad = []
    n_live = 0
    for p in enumerate_paths(ff, L.pop_node, stop=L.is_loop_head):
        if p.end == "raise":
            continue
        delivered = any(n is L.invoke_node for n in p.nodes)
        notif = [n for n in p.nodes if has_call(n, "control._notify_event_processed")]
        chk = [n for n in p.nodes if has_call(n, "control._check_breakpoints")]
        ctl_on = None
        idx_inv = p.nodes.index(L.invoke_node) if delivered else -1
        for n_, lab in zip(p.nodes[idx_inv + 1:], p.labels[idx_inv + 1:]):
            if n_.kind == "test" and lab is not None and unparse(n_.ast).replace(" ", "") == "controlisnotNone":
                ctl_on = lab[1]
        if not delivered:
            if notif or chk:
                bad.append(f"skip path [{p.describe()}] notifies / checks breakpoints although nothing was delivered")
            continue
        n_live += 1
        if ctl_on is True:
            if len(notif) != 1 or len(chk) != 1:
                bad.append(f"delivery path [{p.describe()}]: notify x{len(notif)}, breakpoint check x{len(chk)} (want 1/1)")
                continue
            if p.nodes.index(notif[0]) < idx_inv or p.nodes.index(chk[0]) < p.nodes.index(notif[0]):
                bad.append(f"delivery path [{p.describe()}]: order must be invoke → notify → breakpoint check")
            args = [path_of(a) for c in walk_scope(notif[0].ast) if isinstance(c, ast.Call) and (path_of(c.func) or "").endswith("_notify_event_processed") for a in c.args]
            if args != [ev]:
                bad.append(f"notify must receive the delivered event `{ev}`, got {args}")
            brk_true = p.decided(lambda t: "_check_breakpoints()" in t)
            if brk_true is None:
                bad.append(f"path [{p.describe()}]: the result of _check_breakpoints() is not tested — a triggered breakpoint cannot pause")
            if brk_true is True and p.end != "exit":
                bad.append(f"path [{p.describe()}]: a triggered breakpoint must pause right after this delivery")
            if brk_true is False and p.end == "exit":
                bad.append(f"path [{p.describe()}]: returns although no breakpoint triggered")
        elif ctl_on is False and (notif or chk):
            bad.append(f"path [{p.describe()}] notifies without a control surface")
    need(n_live > 0, "C04-3: no delivery path")
    ctx.ob("C04-3", "G2", fn, "notify + breakpoint check after each delivery", not bad,
           "each delivery (and only a delivery) is followed by exactly one _notify_event_processed(event) and one _check_breakpoints(); a hit pauses at once — "
           + ("ok" if not bad else "; ".join(bad[:2])), node=L.invoke_call)

    # step countdown
    ne = prog.func(CTL, "SimulationControl._notify_event_processed")
    nff = ctx.flow(ne)
    bad = []
    for p in enumerate_paths(nff, nff.cfg.entry):
        if p.end != "exit":
            continue
        dec = 0
        for n in p.nodes:
            if n.kind == "stmt":
                k = increment_of(n.ast, "self._steps_remaining")
                if k is not None:
                    dec += 99 if k == "other" else -k
        none = p.decided(lambda t: t == "self._steps_remainingisnotNone")
        if none is True and dec != 1:
            bad.append(f"stepping: countdown decremented {dec}x per delivered event")
        if none is False and dec:
            bad.append("countdown touched although not stepping")
    ctx.ob("C04-3", "G2", ne, "step countdown", not bad, "step(n) delivers exactly n events: the countdown is decremented exactly once per delivered event" + ("" if not bad else ": " + "; ".join(bad)))
    sp = prog.func(CTL, "SimulationControl._should_pause")
    cases = []
    for pr in (True, False):
        for steps in (None, -1, 0, 1, 5):
            env = {"self._pause_requested": pr, "self._steps_remaining": steps}
            cases.append((f"pause_requested={pr}, steps={steps}", env, pr or (steps is not None and steps <= 0)))
    decision_table(ctx, "C04-3", sp, cases, "pause ⇔ requested ∨ (stepping ∧ countdown exhausted)",
                   calls={"bool": lambda ev_, c: bool(ev_.ev(c.args[0]))})
    st = prog.func(CTL, "SimulationControl.step")
    nparam = [p_ for p_ in st.params() if p_ != "self"][0]
    a1 = stmts_matching(st, f"self._steps_remaining = {nparam}")
    a2 = stmts_matching(st, "self._pause_requested = False")
    rr = [s for s in walk_stmts(st.node.body) if isinstance(s, ast.Return) and isinstance(s.value, ast.Call) and path_of(s.value.func) == "self._sim.run"]
    ctx.ob("C04-3", "G2", st, None, len(a1) == 1 and len(a2) == 1 and len(rr) == 1, "step(n) arms the countdown with n, clears a pending pause and re-enters run()")
    guard(ctx, "C04-3", st, f"self._steps_remaining = {nparam}", f"not ({nparam} < 1)", "step count is positive")
    rs = prog.func(CTL, "SimulationControl.resume")
    a1 = stmts_matching(rs, "self._steps_remaining = None")
    a2 = stmts_matching(rs, "self._pause_requested = False")
    rr = [s for s in walk_stmts(rs.node.body) if isinstance(s, ast.Return) and isinstance(s.value, ast.Call) and path_of(s.value.func) == "self._sim.run"]
    ctx.ob("C04-3", "G2", rs, None, len(a1) == 1 and len(a2) == 1 and len(rr) == 1, "resume() disarms stepping, clears the pause request and re-enters run()")
    # run() re-entry keeps progress: resets only on the first call
    run = prog.func(SIM, "Simulation.run")
    guard(ctx, "C04-3", run, "self._events_processed = 0", "not self._is_running", "run() re-entered after a pause must not reset the processed count")
    guard(ctx, "C04-3", run, "self._current_time = self._start_time", "not self._is_running", "run() re-entered after a pause must not rewind the clock")
    ps = prog.func(SIM, "Simulation._pause_simulation")
    w = [norm_stmt(s) for s in walk_stmts(ps.node.body) if isinstance(s, ast.Assign) and (path_of(s.targets[0]) or "").startswith("self.")]
    ctx.ob("C04-3", "G2", ps, None, w == ["self._is_paused = True"], f"pausing only marks the run paused (writes: {w})")
    # every armed breakpoint is evaluated after each delivery (no early exit), and each triggered one-shot is removed
    cb = prog.func(CTL, "SimulationControl._check_breakpoints")
    loops = [s_ for s_ in walk_stmts(cb.node.body) if isinstance(s_, ast.For) and "self._breakpoints" in unparse(s_.iter)]
    ok = len(loops) == 1 and not any(isinstance(x, (ast.Return, ast.Break)) for x in walk_stmts(loops[0].body))
    calls = [c for c in calls_in(loops[0]) if isinstance(c.func, ast.Attribute) and c.func.attr == "should_break"] if loops else []
    ok = ok and len(calls) == 1
    rm = [s_ for s_ in walk_stmts(cb.node.body) if isinstance(s_, ast.For) and s_ not in loops and any(isinstance(b, ast.Delete) and "self._breakpoints" in unparse(b) for b in s_.body)]
    coll = [c for c in calls_in(loops[0]) if isinstance(c.func, ast.Attribute) and c.func.attr == "append"] if loops else []
    okr = len(rm) == 1 and len(coll) == 1 and path_of(rm[0].iter) == path_of(coll[0].func.value) and "one_shot" in "".join(unparse(x) for x in walk_stmts(loops[0].body) if isinstance(x, ast.If))
    ctx.ob("C04-3", "G2", cb, loops[0] if loops else None, ok and okr,
           "after each delivery every armed breakpoint is evaluated (no early return from the loop) and every triggered one-shot breakpoint is removed — a breakpoint pauses right after the first delivery that satisfies it, exactly once")
    rets = [s_ for s_ in walk_stmts(cb.node.body) if isinstance(s_, ast.Return) and s_.value is not None and not isinstance(s_.value, ast.Constant)]
    ctx.ob("C04-3", "G2", cb, rets[-1] if rets else None, len(rets) == 1 and path_of(rets[0].value) == "triggered", "the verdict is whether any breakpoint triggered")
    ctx.floor("C04-3", 12)


def replay_snapshot_rules(ctx: Ctx, rule: str) -> None:
    """pre-run event specs are snapshots: what is remembered for replay must not alias objects the run mutates (C04-4; C03-5 as a dependency)"""
    prog = ctx.prog
    sv = prog.func(SIM, "Simulation._save_event_specs")
    apps = [c for c in calls_in(sv.node) if path_of(c.func) == "self._pre_run_event_specs.append"]
    ok = False
    if len(apps) == 1 and isinstance(apps[0].args[0], ast.Tuple):
        elts = apps[0].args[0].elts
        metas = [e for e in elts if "meta" in unparse(e)]
        ok = len(metas) == 1 and isinstance(metas[0], ast.Call) and (path_of(metas[0].func) in ("dict", "copy.copy", "copy.deepcopy") or (isinstance(metas[0].func, ast.Attribute) and metas[0].func.attr == "copy"))
    ctx.ob(rule, "G7", sv, apps[0] if apps else None, ok, "the metadata remembered for replay is a copy taken at schedule time (handlers mutating an event's metadata during the run must not change what reset() replays)")
    rp = prog.func(SIM, "Simulation._replay_pre_run_events")
    mk = [c for c in calls_in(rp.node) if path_of(c.func) == "Event"]
    ctxs = [s_ for s_ in walk_stmts(rp.node.body) if isinstance(s_, ast.Assign) and path_of(s_.targets[0]) == "ctx"]
    ok = len(mk) == 1 and len(ctxs) == 1 and "dict(meta)" in unparse(ctxs[0].value)
    ctx.ob(rule, "G7", rp, mk[0] if mk else None, ok, "each replay builds a fresh Event with its own copy of the remembered metadata (a second reset replays the same thing)")


def rule_reset(ctx: Ctx) -> None:
    """C04-4: the event origins primed by Simulation.__init__ are all re-primed by SimulationControl.reset()."""
    prog = ctx.prog
    init = prog.func(SIM, "Simulation.__init__")
    reset = prog.func(CTL, "SimulationControl.reset")

    def origins(fn, prefix: str) -> set[str]:
        out = set()
        for c in calls_in(fn.node):
            p = path_of(c.func) or ""
            if p.endswith(".start") and c.args:
                recv = p[: -len(".start")]
                # loop variable → the iterated collection
                # (the loop that *encloses* this call: two loops may reuse one variable name)
                encl = [st for st in walk_stmts(fn.node.body) if isinstance(st, ast.For) and path_of(st.target) == recv and any(y is c for y in ast.walk(st))]
                if encl:
                    recv = path_of(encl[-1].iter) or recv
                out.add(recv.replace(prefix, "sim."))
            if p.endswith("_replay_pre_run_events"):
                out.add("sim.<pre-run events>")
        return out

    o_init = origins(init, "self.") | {"sim.<pre-run events>"}  # user pre-run events enter through schedule()
    o_reset = origins(reset, "self._sim.")
    missing = sorted(o_init - o_reset)
    ctx.ob("C04-4", "G4", reset, "reset re-primes every origin", not missing,
           f"origins primed at construction {sorted(o_init)} vs re-primed by reset() {sorted(o_reset)}"
           + ("" if not missing else f" — reset() does not re-prime {missing}: reset()+run() does not repeat the original delivery sequence"))
    # reset restores the run state that run() relies on
    for attr, val in (("_current_time", "self._sim._start_time"), ("_events_processed", "0"), ("_is_running", "False"), ("_is_paused", "False")):
        sts = [s for s in walk_stmts(reset.node.body) if isinstance(s, ast.Assign) and path_of(s.targets[0]) == f"self._sim.{attr}"]
        ok = len(sts) == 1 and unparse(sts[0].value) == val
        ctx.ob("C04-4", "G2", reset, f"self._sim.{attr} = {val}", ok, f"reset() restores `{attr}` to its initial value", node=sts[0] if sts else reset.node)
    hp = [s for s in walk_stmts(reset.node.body) if isinstance(s, ast.Assign) and path_of(s.targets[0]) == "self._sim._event_heap"]
    cu = [c for c in calls_in(reset.node) if path_of(c.func) == "self._sim._clock.update" and [path_of(a) for a in c.args] == ["self._sim._start_time"]]
    ctx.ob("C04-4", "G2", reset, "fresh heap + clock rewound", len(hp) == 1 and len(cu) == 1, "reset() installs an empty heap and rewinds the shared clock to the start time")
    replay_snapshot_rules(ctx, "C04-4")
    ctx.floor("C04-4", 8)


def rule_round2(ctx: Ctx) -> None:
    """Second-round rules: reset() primes in construction order with the replay last; a breakpoint treats only None as 'no value';
    what schedule() consults during a run is maintained alike by both loops."""
    prog = ctx.prog
    init = prog.func(SIM, "Simulation.__init__")
    reset = prog.func(CTL, "SimulationControl.reset")

    def order(fn, prefix):
        out = []
        for st in fn.node.body:
            txt = unparse(st)
            for tag, probe in (("sources", f"in {prefix}_sources"), ("probes", f"in {prefix}_probes"), ("faults", f"{prefix}_fault_schedule.start("), ("replay", "_replay_pre_run_events(")):
                if probe in txt and tag not in out and "for " + "" in txt + "for " :
                    if tag in ("sources", "probes") and not isinstance(st, ast.For):
                        continue
                    out.append(tag)
        return out
    o_i, o_r = order(init, "self."), order(reset, "self._sim.")
    ok = o_i == ["sources", "probes", "faults"] and o_r == ["sources", "probes", "faults", "replay"]
    ctx.ob("C04-4", "G4", reset, "priming order", ok, f"reset() re-primes in the order of construction (sources, probes, fault schedule) and replays the user's pre-run events last, "
           f"so every re-created event gets the same relative creation index as in the first run (construction: {o_i}; reset: {o_r})")
    # breakpoints: only `is None` means "nothing to compare"
    mb = prog.func(BRK, "MetricBreakpoint.should_break")
    mf = ctx.flow(mb)
    bad = []
    # every way out of should_break that does not perform the comparison was taken because something *is None*
    for p_ in enumerate_paths(mf, mf.cfg.entry):
        last = [n_ for n_ in p_.nodes if n_.kind == "stmt"]
        if last and isinstance(last[-1].ast, ast.Return) and isinstance(last[-1].ast.value, ast.Call):
            continue
        if p_.end != "exit":
            continue  # raise; or a prefix cut at a loop back-edge (the entity search may be written inline) — its continuations are enumerated
        if not any(k[0] == "is" and k[2] == "None" for k in p_.facts):
            bad.append(f"no comparison on the path [{p_.describe()}]")
    # ... and no condition of the function decides by truthiness: an entity with __len__/__bool__ (a queue, a buffer) or a reading of 0
    # is falsy exactly when a "drained" threshold should fire
    tests = [x.test for x in walk_scope(mb.node, include_root=False) if isinstance(x, (ast.If, ast.IfExp, ast.While))] + \
            [x for x in walk_scope(mb.node, include_root=False) if isinstance(x, ast.BoolOp)] + \
            [x for x in walk_scope(mb.node, include_root=False) if isinstance(x, ast.UnaryOp) and isinstance(x.op, ast.Not)]
    for t_ in tests:
        for f_ in atoms(t_, True):
            if f_.sig[0] in ("truthy", "falsy"):
                bad.append(f"`{unparse(t_)}` decides by the truthiness of `{f_.sig[1]}`")
    cmp_ret = [st for st in walk_stmts(mb.node.body) if isinstance(st, ast.Return) and isinstance(st.value, ast.Call)]
    ctx.ob("C04-3", "G1", mb, cmp_ret[0] if cmp_ret else None, not bad and len(cmp_ret) == 1, "MetricBreakpoint compares every value that is not None with the threshold (0, 0.0, False and empty containers are readings, not 'missing')"
           + ("" if not bad else " — " + bad[0]))
    # state consulted by schedule() while a run is in progress
    sch = prog.func(SIM, "Simulation.schedule")
    guards = set()
    for st in walk_stmts(sch.node.body):
        if isinstance(st, ast.If):
            guards |= {path_of(x) for x in ast.walk(st.test) if isinstance(x, ast.Attribute) and (path_of(x) or "").startswith("self._")}
    slow = LoopInfo(ctx, prog.func(SIM, "Simulation._run_loop"))
    fast = LoopInfo(ctx, prog.func(SIM, "Simulation._execute_until"))

    def in_loop_writes(L):
        out = set()
        for st in walk_stmts(L.while_stmt.body):
            if isinstance(st, (ast.Assign, ast.AugAssign)):
                for t in (st.targets if isinstance(st, ast.Assign) else [st.target]):
                    if (path_of(t) or "").startswith("self._"):
                        out.add(path_of(t))
            for c in calls_in(st) if not isinstance(st, (ast.If, ast.While, ast.For, ast.Try, ast.With)) else []:
                if (path_of(c.func) or "").startswith("self."):
                    for callee in prog.resolve_call(L.fn, c):
                        out |= {"self." + w for w in ctx.effects.transitive(callee).writes}
        return out
    ws, wf = in_loop_writes(slow), in_loop_writes(fast)
    skew = sorted(g for g in guards if g and (g in ws) != (g in wf))
    ctx.ob("C04-1", "G4", sch, "schedule() guard state", bool(guards) and not skew,
           f"every attribute schedule() tests {sorted(g for g in guards if g)} is maintained the same way inside both event loops (one that the fast loop keeps in a local and writes back only at the end would read stale during a run)"
           + ("" if not skew else f" — maintained per event by only one loop: {skew}"))


def rule_resume_tiebreak(ctx: Ctx) -> None:
    """C04-5: re-entering run() (pause/step/resume) keeps one creation-order domain — shared with C01-8."""
    from .c01 import _counter_continues

    prog = ctx.prog
    n = 0
    for fn in prog.all_functions("happysimulator/core/"):
        for c in calls_in(fn.node):
            if isinstance(c.func, ast.Attribute) and c.func.attr == "set" and path_of(c.func.value) == "_active_counter_var" and c.args \
                    and not (isinstance(c.args[0], ast.Constant) and c.args[0].value is None):
                ok, why = _counter_continues(ctx, fn, c)
                n += 1
                ctx.ob("C04-5", "G7", fn, c, ok, "every (re-)entry into the run context continues the tie-break sequence after all indices issued so far, so a paused-and-resumed "
                       "run orders same-instant events like an uninterrupted one — " + why)
    need(n >= 1, "C04-5: no counter install site")
    ctx.floor("C04-5", 1)


def run(ctx: Ctx) -> None:
    ctx.guarded(rule_resume_tiebreak)
    ctx.guarded(rule_loop_agreement)
    ctx.guarded(rule_observer_purity)
    ctx.guarded(rule_protocol)
    ctx.guarded(rule_reset)
    ctx.guarded(rule_round2)


MUTANTS = [
    ("metric-breakpoint-entity-by-truthiness", BRK, "        if entity is None:\n            return False\n        value = getattr(entity, self.attribute, None)\n", "        value = getattr(entity, self.attribute, None) if entity else None\n", "C04-3"),
    ("reset-replays-before-priming", CTL, ["        # Replay events that were scheduled before the first run()\n        self._sim._replay_pre_run_events()\n\n", "        # Reset clock\n"], ["", "        self._sim._replay_pre_run_events()\n        # Reset clock\n"], "C04-4"),
    ("metric-breakpoint-falsy-is-missing", BRK, "        value = getattr(entity, self.attribute, None)\n        if value is None:\n            return False", "        value = getattr(entity, self.attribute, None)\n        if not value:\n            return False", "C04-3"),
    ("schedule-guard-on-processed-count", SIM, "        if not self._is_running:\n            self._save_event_specs(events)", "        if self._events_processed == 0:\n            self._save_event_specs(events)", "C04-1"),
    ("fast-cancel-not-counted", SIM, "                events_cancelled += 1\n                continue", "                continue", "C04-1"),
    ("slow-processed-not-counted", SIM, "        self._events_processed += 1\n        self._last_event = event", "        self._last_event = event", "C04-1"),
    ("fast-guard-strict", SIM, "current_time.nanoseconds <= end_time_ns", "current_time.nanoseconds < end_time_ns", "C04-1"),
    ("slow-guard-ignores-horizon", SIM, "while heap.has_events() and end_time >= self._current_time:", "while heap.has_events():", "C04-1"),
    ("fast-processed-double", SIM, "            events_processed += 1\n", "            events_processed += 2\n", "C04-1"),
    ("fast-path-with-control", SIM, "            control is None\n            and not self._tracing_enabled", "            not self._tracing_enabled", "C04-1"),
    ("notify-cancels-event", CTL, "        for callback in self._event_hooks.values():\n            callback(event)", "        event.cancel()\n        for callback in self._event_hooks.values():\n            callback(event)", "C04-2"),
    ("breakpoint-check-moves-clock", CTL, "        triggered = False\n", "        triggered = False\n        self._sim._current_time = context.current_time\n", "C04-2"),
    ("recorder-pushes", REC, "class NullTraceRecorder:", "class _Never:\n    def record(self, **kw):\n        self._sim._event_heap.push(kw)\n\n\nclass NullTraceRecorder:", "C04-2"),
    ("tracing-block-returns", EV, "                if _event_tracing_enabled:\n                    self.trace(\"handle.end\", result_kind=\"process\")\n",
     "                if _event_tracing_enabled:\n                    self.trace(\"handle.end\", result_kind=\"process\")\n                    return []\n", "C04-2"),
    ("pause-test-disabled", SIM, "if control is not None and control._should_pause():", "if control is not None and False:", "C04-3"),
    ("notify-dropped", SIM, "                control._notify_event_processed(event)\n", "", "C04-3"),
    ("notify-on-skip-path", SIM, "                self._events_cancelled += 1\n                continue", "                self._events_cancelled += 1\n                if control is not None:\n                    control._notify_event_processed(event)\n                continue", "C04-3"),
    ("breakpoint-hit-ignored", SIM, "                if control._check_breakpoints():\n                    return self._pause_simulation(reason=\"breakpoint\")", "                control._check_breakpoints()", "C04-3"),
    ("countdown-by-two", CTL, "            self._steps_remaining -= 1", "            self._steps_remaining -= 2", "C04-3"),
    ("should-pause-off-by-one", CTL, "self._steps_remaining <= 0", "self._steps_remaining < 0", "C04-3"),
    ("step-arms-n-minus-1", CTL, "        self._steps_remaining = n\n", "        self._steps_remaining = n - 1\n", "C04-3"),
    ("resume-keeps-stepping", CTL, "        self._pause_requested = False\n        self._steps_remaining = None\n        self._sim._is_paused = False\n        logger.info(\"Resuming simulation\")",
     "        self._pause_requested = False\n        self._sim._is_paused = False\n        logger.info(\"Resuming simulation\")", "C04-3"),
    ("run-reentry-resets-count", SIM, "            self._events_processed = 0\n            self._is_running = True", "            self._is_running = True", "C04-3"),
    ("reset-forgets-probes", CTL, "        for probe in self._sim._probes:\n            initial_events = probe.start(self._sim._start_time)\n            for event in initial_events:\n                self._sim._event_heap.push(event)\n", "", "C04-4"),
    ("reset-keeps-clock", CTL, "        self._sim._clock.update(self._sim._start_time)\n", "", "C04-4"),
]
REFACTORS = [
    ("advance-time-reordered", SIM, "        self._current_time = event.time\n        self._clock.update(self._current_time)\n        self._event_heap.set_current_time(self._current_time)\n        self._events_processed += 1\n",
     "        self._events_processed += 1\n        self._current_time = event.time\n        self._clock.update(self._current_time)\n        self._event_heap.set_current_time(self._current_time)\n"),
    ("fast-count-before-clock", SIM, "            current_time = event_time\n            clock_update(current_time)\n            events_processed += 1\n",
     "            events_processed += 1\n            current_time = event_time\n            clock_update(current_time)\n"),
    ("should-pause-plain", CTL, "        return bool(self._steps_remaining is not None and self._steps_remaining <= 0)", "        if self._steps_remaining is None:\n            return False\n        return self._steps_remaining <= 0"),
]
