"""C12 — Paxos family, leader election, distributed lock: rule-conformance clauses."""

from __future__ import annotations

import ast

from ..astutil import calls_in, norm_stmt, path_of, unparse, walk_scope, walk_stmts
from ..cfg import own_exprs
from ..facts import Fact, atoms, enumerate_paths
from ..report import Ctx
from .common import always_before, expand, guard, increment_of, need, node_of, protocol_schema, single_defs, stmts_matching

PAX = "happysimulator/components/consensus/paxos.py"
MP = "happysimulator/components/consensus/multi_paxos.py"
FP = "happysimulator/components/consensus/flexible_paxos.py"
LE = "happysimulator/components/consensus/leader_election.py"
DL = "happysimulator/components/consensus/distributed_lock.py"

EXPLANATION = (
    "Guard discipline of the acceptor/proposer/learner roles in paxos.py, multi_paxos.py, flexible_paxos.py: ballots are totally "
    "ordered by (number, node); every write of the promised/current ballot and of the accepted (ballot, value) pair happens only on "
    "paths where the incoming ballot is not below the promised one (or is a fresh, strictly larger proposer ballot); the quorum-"
    "triggered, non-idempotent step (phase 2 / leader take-over) fires exactly once per ballot (== quorum); phase 2 proposes the value "
    "of the highest accepted ballot among the promises; a decided value is written once; flexible quorums must intersect; "
    "promise contents stored by phase 1 are actually consumed; the reported leader changes only with a larger term; fencing tokens "
    "come from a counter that is only read-then-incremented; RPC payload keys agree with handler reads."
)
RULE_TEXT = "Instances: per write of protocol state, per quorum trigger, per stored promise field, per RPC send site. Distinct by (rule, construct)."
NOT_DECIDED = ["agreement / validity / termination as theorems over histories", "election strategies' message flows (bully/ring) and cross-node uniqueness of a term's leader",
               "accept tallies are keyed by ballot number / slot only (duplicate Accepted replies are not de-duplicated per acceptor)"]
ASSUMPTIONS = ["handlers are atomic (no suspension inside these handlers — checked)"]


def _guarded_not_below(ctx: Ctx, fn, st: ast.stmt, state_path: str, value: ast.AST) -> tuple[bool, str]:
    """On every feasible path to ``st``: state is None, or ¬(value < state) is known, or value is a fresh larger ballot."""
    if isinstance(value, ast.Call) and path_of(value.func) == "Ballot" and value.args and "+ 1" in unparse(value.args[0]):
        return True, "fresh proposer ballot with a strictly larger number"
    ff = ctx.flow(fn)
    node = node_of(ff.cfg, st)
    vtxt = path_of(value) or unparse(value)
    bad = []
    n = 0
    for p in enumerate_paths(ff, ff.cfg.entry, stop=lambda x: x is node, unroll=0):
        if not (p.end == "stop" and p.nodes[-1] is node):
            continue
        n += 1
        is_none = p.decided(lambda t: t == f"{state_path}isnotNone".replace(" ", "")) is False or p.decided(lambda t: t == f"{state_path}isNone".replace(" ", "")) is True
        ok = is_none or p.has_fact(("le", state_path, vtxt)) or p.has_fact(("lt", state_path, vtxt))
        if not ok:
            bad.append(p.describe()[:160])
    if n == 0:
        return False, "unreachable?"
    return (not bad), ("all paths guarded" if not bad else f"unguarded path [{bad[0]}]")


def rule_ballot_order(ctx: Ctx) -> None:
    prog = ctx.prog
    b = prog.cls(PAX, "Ballot")
    deco = [d for d in b.node.decorator_list if isinstance(d, ast.Call) and path_of(d.func) == "dataclass" and any(k.arg == "order" and isinstance(k.value, ast.Constant) and k.value.value is True for k in d.keywords)]
    fields = [s.target.id for s in b.node.body if isinstance(s, ast.AnnAssign)]
    custom = [m for m in ("__lt__", "__le__", "__gt__", "__ge__", "__eq__") if m in b.methods]
    ctx.ob("C12-1", "G3", None, "Ballot order", bool(deco) and fields == ["number", "node_id"] and not custom,
           f"Ballot is totally ordered by (number, node_id) through dataclass(order=True) with that field order (fields {fields}, custom dunders {custom})", relpath=PAX, node=b.node)
    for rel in (MP, FP):
        imp = prog.module(rel).imports.get("Ballot")
        ctx.ob("C12-1", "G4", None, f"{rel.split('/')[-1]} uses the same Ballot", imp is not None and imp[0].endswith("paxos") and imp[1] == "Ballot",
               "the sibling protocols share the one Ballot order", relpath=rel, node=prog.module(rel).tree)
    ctx.floor("C12-1", 3)


def rule_acceptor(ctx: Ctx) -> None:
    prog = ctx.prog
    n_w = 0
    for rel, cname, state in ((PAX, "PaxosNode", "self._promised_ballot"), (MP, "MultiPaxosNode", "self._current_ballot"), (FP, "FlexiblePaxosNode", "self._current_ballot")):
        c = prog.cls(rel, cname)
        gens = [m.qual for m in c.methods.values() if m.is_generator]
        ctx.ob("C12-0", "G5", None, f"{cname} handlers are atomic", not gens, f"no {cname} method suspends (generators: {gens})", relpath=rel, node=c.node)
        for m in c.methods.values():
            if m.name == "__init__":
                continue
            for st in walk_stmts(m.node.body):
                if isinstance(st, ast.Assign) and path_of(st.targets[0]) == state:
                    n_w += 1
                    ok, why = _guarded_not_below(ctx, m, st, state, st.value)
                    ctx.ob("C12-2", "G1", m, st, ok, f"{cname}: the promised/current ballot never decreases — `{norm_stmt(st)}` only when the new ballot is not below it ({why})")
    need(n_w >= 10, f"C12-2: only {n_w} ballot writes found")
    # accepted (ballot, value) pair in single-decree Paxos
    c = prog.cls(PAX, "PaxosNode")
    for m in c.methods.values():
        if m.name == "__init__":
            continue
        ab = [s for s in walk_stmts(m.node.body) if isinstance(s, ast.Assign) and path_of(s.targets[0]) == "self._accepted_ballot"]
        av = [s for s in walk_stmts(m.node.body) if isinstance(s, ast.Assign) and path_of(s.targets[0]) == "self._accepted_value"]
        for st in ab:
            ok, why = _guarded_not_below(ctx, m, st, "self._promised_ballot", st.value)
            ctx.ob("C12-3", "G1", m, st, ok and len(av) == len(ab), f"a value is accepted only under a ballot not below the promise, and ballot and value are written together ({why})")
    # multi/flexible: log writes in _handle_accept happen after the ballot check
    for rel, cname in ((MP, "MultiPaxosNode"), (FP, "FlexiblePaxosNode")):
        ha = prog.func(rel, f"{cname}._handle_accept")
        ff = ctx.flow(ha)
        for c2 in calls_in(ha.node):
            if path_of(c2.func) in ("self._log.append", "self._log.truncate_from"):
                node = node_of(ff.cfg, c2)
                ok = ff.holds_at(node, Fact("le", "self._current_ballot", "ballot")) or all(
                    p.decided(lambda t: t == "ballot<self._current_ballot") is False for p in enumerate_paths(ff, ff.cfg.entry, stop=lambda x: x is node, unroll=0) if p.end == "stop" and p.nodes[-1] is node)
                ctx.ob("C12-3", "G1", ha, c2, ok, f"{cname}: the log is written for a slot only after the Accept's ballot passed the `ballot < current` rejection")
    ctx.floor("C12-2", 10)
    ctx.floor("C12-3", 4)


def _same_block(fn, a: ast.stmt, b: ast.stmt) -> bool:
    """a and b are siblings in one statement list (no control flow can separate them)"""
    for n in ast.walk(fn.node):
        for field in ("body", "orelse", "finalbody"):
            blk = getattr(n, field, None)
            if isinstance(blk, list) and any(x is a for x in blk) and any(x is b for x in blk):
                return True
    return False


def rule_acceptor_pairing(ctx: Ctx) -> None:
    """Single-decree Paxos: accepted <= promised after every accept; an accept tally counts accepts only; ballot pairs keep their halves together."""
    prog = ctx.prog
    c = prog.cls(PAX, "PaxosNode")
    n_acc = 0
    for m in c.methods.values():
        if m.name == "__init__":
            continue
        ab = [s for s in walk_stmts(m.node.body) if isinstance(s, ast.Assign) and path_of(s.targets[0]) == "self._accepted_ballot"]
        for st in ab:
            n_acc += 1
            b = path_of(st.value)
            raised = [s for s in walk_stmts(m.node.body) if isinstance(s, ast.Assign) and path_of(s.targets[0]) == "self._promised_ballot" and path_of(s.value) == b and _same_block(m, s, st)]
            if raised:
                ok, how = True, "the promise is raised to the accepted ballot in the same step"
            else:
                # self-accept: guarded by `ballot >= promised`, and this node promised that ballot to itself when it started phase 1
                ff = ctx.flow(m)
                g, _why = _guarded_not_below(ctx, m, st, "self._promised_ballot", st.value)
                sp1 = prog.func(PAX, "PaxosNode.start_phase1")
                selfp = [k for k in calls_in(sp1.node) if path_of(k.func) == "self._handle_prepare_internal" and [path_of(a) for a in k.args] == ["ballot"]]
                cur = stmts_matching(sp1, "ballot = self._current_ballot")
                hpi = prog.func(PAX, "PaxosNode._handle_prepare_internal")
                hf = ctx.flow(hpi)
                pw = [s for s in walk_stmts(hpi.node.body) if isinstance(s, ast.Assign) and path_of(s.targets[0]) == "self._promised_ballot" and path_of(s.value) == "ballot"]
                tally = [k for k in calls_in(hpi.node) if isinstance(k.func, ast.Attribute) and k.func.attr == "append" and "self._phase1_responses" in unparse(k.func.value)]
                # the self-promise is tallied only when it was actually made
                okt = len(pw) == 1 and len(tally) == 1 and not always_before(ctx, hpi, lambda x: x.ast is pw[0], lambda x: x is node_of(hf.cfg, tally[0]))
                own = [s2 for s2 in walk_stmts(m.node.body) if isinstance(s2, ast.Assign) and path_of(s2.targets[0]) == b and isinstance(s2.value, ast.Call) and path_of(s2.value.func) == "Ballot"
                       and len(s2.value.args) == 2 and path_of(s2.value.args[1]) == "self.name"]
                ok = bool(g) and len(own) == 1 and len(selfp) == 1 and len(cur) == 1 and okt
                how = "self-accept under `ballot >= promised`, the ballot having been self-promised in start_phase1 (and tallied only if promised)"
            ctx.ob("C12-3", "G2", m, st, ok, f"PaxosNode.{m.name}: after accepting a ballot the promise is not below it, so a delayed lower-ballot Accept cannot overwrite the accepted value — {how}")
    need(n_acc >= 2, f"C12-3: expected >= 2 accept sites in PaxosNode, found {n_acc}")
    # accept tally
    n_t = 0
    for m in c.methods.values():
        if m.name == "__init__":
            continue
        for st in walk_stmts(m.node.body):
            tgt = st.targets[0] if isinstance(st, ast.Assign) else st.target if isinstance(st, ast.AugAssign) else None
            if tgt is None or not (isinstance(tgt, ast.Subscript) and path_of(tgt.value) == "self._phase2_responses"):
                continue
            n_t += 1
            if isinstance(st, ast.Assign) and isinstance(st.value, ast.Constant) and st.value.value == 0:
                continue
            if isinstance(st, ast.AugAssign):
                ok = m.name == "_handle_accepted" and isinstance(st.op, ast.Add) and isinstance(st.value, ast.Constant) and st.value.value == 1
                ctx.ob("C12-6", "G2", m, st, ok, "the accept tally grows by one per PaxosAccepted message and nowhere else")
            else:
                acc = [s for s in walk_stmts(m.node.body) if isinstance(s, ast.Assign) and path_of(s.targets[0]) == "self._accepted_ballot" and _same_block(m, s, st)]
                ok = isinstance(st.value, ast.Constant) and st.value.value == 1 and len(acc) == 1
                ctx.ob("C12-6", "G2", m, st, ok, "the proposer counts itself in the accept tally only in the step in which it actually accepted its own ballot")
    need(n_t >= 4, f"C12-6: expected >= 4 writes of the accept tally, found {n_t}")
    # ballot pairs: `<p>_number` and `<p>_node` of one record stay together
    n_pairs = 0
    for rel in (PAX, MP, FP):
        for fn in prog.module(rel).all_functions:
            for n in walk_scope(fn.node):
                elts = n.elts if isinstance(n, ast.Tuple) else n.args if isinstance(n, ast.Call) and path_of(n.func) == "Ballot" else None
                if not elts or len(elts) != 2:
                    continue
                keys = []
                for e in elts:
                    k = None
                    if isinstance(e, ast.Subscript) and isinstance(e.slice, ast.Constant) and isinstance(e.slice.value, str):
                        k = e.slice.value
                    elif isinstance(e, ast.Call) and isinstance(e.func, ast.Attribute) and e.func.attr == "get" and e.args and isinstance(e.args[0], ast.Constant) and isinstance(e.args[0].value, str):
                        k = e.args[0].value
                    keys.append(k)
                if keys[0] and keys[1] and keys[0].endswith("_number") and (keys[1].endswith("_node") or keys[1].endswith("_node_id")):
                    n_pairs += 1
                    p0 = keys[0][: -len("_number")]
                    p1 = keys[1].rsplit("_node", 1)[0]
                    ctx.ob("C12-5", "G7", fn, n, p0 == p1, f"a ballot is rebuilt from the two halves of one record (`{keys[0]}` with `{keys[1]}`): mixing records makes equal-numbered ballots of different proposers compare wrongly")
    need(n_pairs >= 4, f"C12-5: expected >= 4 ballot reconstructions from message fields, found {n_pairs}")


def rule_once_per_ballot(ctx: Ctx) -> None:
    prog = ctx.prog
    for rel, cname, action, quorum in ((PAX, "PaxosNode", "self._start_phase2", "self.quorum_size"), (MP, "MultiPaxosNode", "self._become_leader", "self.quorum_size"),
                                       (FP, "FlexiblePaxosNode", "self._become_leader", "self._phase1_quorum")):
        hp = prog.func(rel, f"{cname}._handle_promise")
        ff = ctx.flow(hp)
        calls = [c for c in calls_in(hp.node) if path_of(c.func) == action]
        need(len(calls) == 1, f"C12-4: {cname}._handle_promise should trigger {action} at one site")
        node = node_of(ff.cfg, calls[0])
        facts = ff.facts_at(node)
        eq = [f for f in facts if f[0] == "eq" and quorum in (f[1], f[2]) and "len(self._phase1_responses" in (f[1] + f[2])]
        ctx.ob("C12-4", "G1", hp, calls[0], bool(eq),
               f"{cname}: the non-idempotent quorum step `{action}` fires exactly once per ballot — when the promise count *equals* the quorum, not on every later promise "
               f"(facts: {ff.describe(node)[:200]})")
        # the promise is recorded before the count is tested, and only for a ballot this node is running
        app = [c for c in calls_in(hp.node) if isinstance(c.func, ast.Attribute) and c.func.attr == "append" and "self._phase1_responses" in unparse(c.func.value)]
        ok = len(app) == 1 and not always_before(ctx, hp, lambda x: x is node_of(ff.cfg, app[0]), lambda x: x is node) and ff.holds_at(node_of(ff.cfg, app[0]), Fact("in", "ballot_number", "self._phase1_responses"))
        ctx.ob("C12-4", "G2", hp, app[0] if app else None, ok, f"{cname}: a promise is tallied once, only for a ballot this node started, before the quorum test")
        # ... and, for the log-based variants, only while that candidacy is still the node's current ballot: after adopting a competitor's
        # higher ballot, late promises for the own older ballot must not make the node lead (it would lead under the competitor's ballot)
        if cname != "PaxosNode":
            cur = ff.holds_at(node, Fact("eq", "self._current_ballot", "Ballot(ballot_number, self.name)")) or ff.holds_at(node, Fact("eq", "Ballot(ballot_number, self.name)", "self._current_ballot"))
            ctx.ob("C12-4", "G1", hp, calls[0], bool(cur), f"{cname}: `{action}` is reached only if the ballot the promises are for is still this node's current ballot "
                   "(`self._current_ballot == Ballot(ballot_number, self.name)`); an overtaken candidacy never takes over")
        # ... and under the ballot the *message* names: a late promise for an abandoned ballot must not count for the current candidacy
        key = app[0].func.value.slice if app and isinstance(app[0].func.value, ast.Subscript) else None
        kexp = expand(key, single_defs(hp)) if key is not None else None
        ktxt = unparse(kexp).replace(" ", "") if kexp is not None else ""
        okk = kexp is not None and ("['ballot_number']" in ktxt or ".get('ballot_number'" in ktxt) and ("metadata" in ktxt or "event.context" in ktxt) and "self." not in ktxt
        ctx.ob("C12-4", "G7", hp, app[0] if app else None, okk, f"{cname}: the tally a promise goes into is selected by the ballot number carried in the promise itself (`{ktxt}`), not by the node's current state")
    ctx.floor("C12-4", 6)


def rule_phase2_value(ctx: Ctx) -> None:
    prog = ctx.prog
    sp = prog.func(PAX, "PaxosNode._start_phase2")
    ff = ctx.flow(sp)
    init = stmts_matching(sp, "chosen_value = self._proposed_values.get(ballot_number)")
    upd = stmts_matching(sp, "chosen_value = resp['accepted_value']")
    hi = stmts_matching(sp, "highest_accepted_ballot = ab")
    ok = len(init) == 1 and len(upd) == 1 and len(hi) == 1
    if ok:
        node = node_of(ff.cfg, upd[0][0])
        # every way of reaching the update within one iteration has decided: ab is not None ∧ (highest is None ∨ ab > highest) — however
        # the guard is spelled (one compound test, nested ifs, early `continue`s)
        src0 = stmts_matching(sp, "ab = resp.get('accepted_ballot')")
        ok = len(src0) == 1
        if ok:
            start = node_of(ff.cfg, src0[0][0])
            paths = [p_ for p_ in enumerate_paths(ff, start, stop=lambda x: x is node or x is start) if p_.end == "stop" and p_.nodes[-1] is node]
            ok = bool(paths)
            for p_ in paths:
                notnone = p_.decided(lambda t_: t_ in ("abisnotNone",))
                first = p_.decided(lambda t_: t_ == "highest_accepted_ballotisNone")
                higher = p_.decided(lambda t_: t_ in ("ab>highest_accepted_ballot", "highest_accepted_ballot<ab"))
                if not (notnone is True and (first is True or higher is True)):
                    ok = False
        # value and ballot of the running maximum are updated together (same block, so on exactly the same paths)
        blocks = [blk for x in ast.walk(sp.node) for fld in ("body", "orelse") for blk in [getattr(x, fld, None)] if isinstance(blk, list) and any(y is upd[0][0] for y in blk)]
        ok = ok and len(blocks) == 1 and any(y is hi[0][0] for y in blocks[0])
        src_ab = stmts_matching(sp, "ab = resp.get('accepted_ballot')")
        ok = ok and len(src_ab) == 1
    ctx.ob("C12-5", "G1", sp, upd[0][0] if upd else None, ok,
           "phase 2 proposes the value of the highest accepted ballot reported in the promises (else the proposer's own): the candidate value changes only together with a strictly higher accepted ballot")
    loops = [s for s in walk_stmts(sp.node.body) if isinstance(s, ast.For) and path_of(s.iter) == "responses"]
    src = stmts_matching(sp, "responses = self._phase1_responses[ballot_number]")
    ctx.ob("C12-5", "G7", sp, loops[0] if loops else None, len(loops) == 1 and len(src) == 1, "all promises collected for this ballot are inspected")
    acc = [c for c in calls_in(sp.node) if path_of(c.func) == "self._network.send"]
    okv = False
    for c in acc:
        pl = [k.value for k in c.keywords if k.arg == "payload"]
        if pl and isinstance(pl[0], ast.Dict):
            d = {k.value: v for k, v in zip(pl[0].keys, pl[0].values) if isinstance(k, ast.Constant)}
            okv = path_of(d.get("value")) == "chosen_value" and path_of(d.get("ballot_number")) == "ballot_number"
    ctx.ob("C12-5", "G7", sp, acc[0] if acc else None, okv, "the Accept message carries exactly the chosen value under this ballot")
    ctx.floor("C12-5", 3)


def rule_decided(ctx: Ctx) -> None:
    prog = ctx.prog
    c = prog.cls(PAX, "PaxosNode")
    n = 0
    for m in c.methods.values():
        if m.name == "__init__":
            continue
        for st in walk_stmts(m.node.body):
            if isinstance(st, ast.Assign) and path_of(st.targets[0]) in ("self._decided_value", "self._decided"):
                n += 1
                ff = ctx.flow(m)
                node = node_of(ff.cfg, st)
                ok = ff.holds_at(node, Fact("falsy", "self._decided"))
                if not ok and path_of(st.targets[0]) == "self._decided_value":
                    # written right after the latch `self._decided = True` which itself was guarded
                    latch = [s for s in walk_stmts(m.node.body) if isinstance(s, ast.Assign) and path_of(s.targets[0]) == "self._decided" and isinstance(s.value, ast.Constant) and s.value.value is True]
                    ok = bool(latch) and all(ctx.flow(m).holds_at(node_of(ff.cfg, l_), Fact("falsy", "self._decided")) for l_ in latch) and not always_before(ctx, m, lambda x: any(x.ast is l_ for l_ in latch), lambda x: x is node)
                ctx.ob("C12-6", "G1", m, st, ok, "a reported decision never changes: the decided flag/value are written only while undecided")
    need(n >= 4, f"C12-6: only {n} decision writes found")
    ha = prog.func(PAX, "PaxosNode._handle_accepted")
    guard(ctx, "C12-6", ha, "return self._decide(ballot_number, value)", ["self._phase2_responses[ballot_number] >= self.quorum_size", "not self._decided"], "a value is decided only with a quorum of accepts")
    val = stmts_matching(ha, "value = self._proposed_values.get(ballot_number)")
    ctx.ob("C12-6", "G7", ha, val[0][0] if val else None, len(val) == 1, "the decided value is the one proposed under the ballot that gathered the quorum")
    dc = prog.func(PAX, "PaxosNode._decide")
    fut = [c for c in calls_in(dc.node) if isinstance(c.func, ast.Attribute) and c.func.attr == "resolve"]
    ok = len(fut) == 1 and [path_of(a) for a in fut[0].args] == ["value"]
    ctx.ob("C12-6", "G7", dc, fut[0] if fut else None, ok, "the proposer's future resolves with the decided value")
    qs = prog.func(PAX, "PaxosNode.quorum_size")
    rets = [s for s in walk_stmts(qs.node.body) if isinstance(s, ast.Return)]
    okq = len(rets) == 1 and "// 2" in unparse(rets[0].value) and "+ 1" in unparse(rets[0].value)
    ctx.ob("C12-6", "G3", qs, rets[0] if rets else None, okq, "quorum is a strict majority")
    ctx.floor("C12-6", 7)


def rule_flexible(ctx: Ctx) -> None:
    prog = ctx.prog
    init = prog.func(FP, "FlexiblePaxosNode.__init__")
    chk = [s for s in walk_stmts(init.node.body) if isinstance(s, ast.If) and any(isinstance(b, ast.Raise) for b in s.body)
           and {f.sig for f in atoms(s.test, True)} == {("le", "self._phase1_quorum + self._phase2_quorum", "total")}]
    tot = stmts_matching(init, "total = len(_P_) + 1")
    ctx.ob("C12-7", "G1", init, chk[0] if chk else None, len(chk) == 1 and len(tot) == 1, "Flexible Paxos refuses quorum sizes that need not intersect (q1 + q2 <= n raises)")
    # every other place that changes the quorums or membership re-validates
    c = prog.cls(FP, "FlexiblePaxosNode")
    for m in c.methods.values():
        if m.name == "__init__":
            continue
        ws = [s for s in walk_stmts(m.node.body) if isinstance(s, ast.Assign) and path_of(s.targets[0]) in ("self._phase1_quorum", "self._phase2_quorum")]
        if ws:
            chk2 = [s for s in walk_stmts(m.node.body) if isinstance(s, ast.If) and any(isinstance(b, ast.Raise) for b in s.body) and "self._phase1_quorum + self._phase2_quorum" in unparse(s.test)]
            ctx.ob("C12-7", "G1", m, ws[0], bool(chk2), f"{m.name} changes a quorum and re-validates the intersection")
    for m in c.methods.values():
        if m.name == "__init__":
            continue
        if any(isinstance(s_, ast.Assign) and path_of(s_.targets[0]) == "self._peers" for s_ in walk_stmts(m.node.body)):
            chk3 = [s_ for s_ in walk_stmts(m.node.body) if isinstance(s_, ast.If) and any(isinstance(b, ast.Raise) for b in s_.body)
                    and {f.sig for f in atoms(s_.test, True)} == {("le", "self._phase1_quorum + self._phase2_quorum", "total")}]
            ctx.ob("C12-7", "G1", m, chk3[0] if chk3 else None, bool(chk3), f"{m.name} changes the membership and re-validates that the quorums still intersect")
    acc = prog.func(FP, "FlexiblePaxosNode._handle_accepted")
    uses_q2 = "self._phase2_quorum" in unparse(acc.node)
    ctx.ob("C12-7", "G7", acc, "commit uses the phase-2 quorum", uses_q2, "a slot commits on the phase-2 quorum (the one validated to intersect phase 1)")
    ctx.floor("C12-7", 2)


def rule_dead_promise_info(ctx: Ctx) -> None:
    """C12-8: every field a node stores from a Promise is consumed by the take-over path (otherwise accepted values are ignored)."""
    prog = ctx.prog
    for rel, cname in ((PAX, "PaxosNode"), (MP, "MultiPaxosNode"), (FP, "FlexiblePaxosNode")):
        c = prog.cls(rel, cname)
        hp = c.methods["_handle_promise"]
        stored = set()
        for n in walk_scope(hp.node):
            if isinstance(n, ast.Dict) and any(isinstance(k, ast.Constant) and k.value == "from" for k in n.keys):
                stored |= {k.value for k in n.keys if isinstance(k, ast.Constant)}
        need(stored, f"C12-8: no promise record stored in {cname}._handle_promise")
        read = set()
        for m in c.methods.values():
            if m is hp:
                continue
            for n in walk_scope(m.node):
                if isinstance(n, ast.Subscript) and isinstance(n.slice, ast.Constant) and isinstance(n.slice.value, str):
                    read.add(n.slice.value)
                if isinstance(n, ast.Call) and isinstance(n.func, ast.Attribute) and n.func.attr == "get" and n.args and isinstance(n.args[0], ast.Constant) \
                        and path_of(n.func.value) not in ("metadata", "event.context"):
                    read.add(n.args[0].value)
        for k in sorted(stored - {"from"}):
            ctx.ob("C12-8", "G8", hp, f"promise field `{k}` is consumed", k in read,
                   f"{cname} stores `{k}` from every Promise" + ("" if k in read else " but nothing ever reads it: the new leader / proposer ignores what acceptors already accepted, "
                                                                  "so an already chosen value can be replaced"))
    ctx.floor("C12-8", 4)


def rule_leader_and_lock(ctx: Ctx) -> None:
    prog = ctx.prog
    c = prog.cls(LE, "LeaderElection")
    n = 0
    for m in c.methods.values():
        if m.name == "__init__":
            continue
        ff = ctx.flow(m)
        for st in walk_stmts(m.node.body):
            if isinstance(st, ast.Assign) and path_of(st.targets[0]) == "self._current_leader" and not (isinstance(st.value, ast.Constant) and st.value.value is None):
                n += 1
                node = node_of(ff.cfg, st)
                v = path_of(st.value) or unparse(st.value)
                bad = []
                for p in enumerate_paths(ff, ff.cfg.entry, stop=lambda x: x is node, unroll=0):
                    if not (p.end == "stop" and p.nodes[-1] is node):
                        continue
                    newer = p.decided(lambda t: t == "term>self._current_term") is True
                    same = p.decided(lambda t: t == "term==self._current_term") is True and p.decided(lambda t: t.startswith("self._current_leaderin(None,")) is True
                    if not (newer or same):
                        bad.append(p)
                ok = not bad
                if not ok:
                    # alternative: the same path opens a new term (term += 1) for this leader
                    rest_ok = True
                    for p in enumerate_paths(ff, node):
                        if p.end != "exit":
                            continue
                        if sum(1 for x in p.nodes if x.kind == "stmt" and increment_of(x.ast, "self._current_term") == 1) != 1:
                            rest_ok = False
                    before = [x for x in ff.cfg.nodes if x.kind == "stmt" and increment_of(x.ast, "self._current_term") == 1]
                    ok = rest_ok or (bool(before) and not always_before(ctx, m, lambda x: x in before, lambda x: x is node))
                ctx.ob("C12-9", "G1", m, st, ok, "the reported leader changes only together with a strictly larger term (or is the leader already known for the current term)")
    need(n >= 3, f"C12-9: only {n} leader writes found")
    # terms must be *agreed* numbers: a node that adopts a leader announced by a message takes the announced term with it
    hm = c.methods["_handle_election_message"]
    tw = [st for st in walk_stmts(hm.node.body) if isinstance(st, (ast.Assign, ast.AugAssign)) and path_of(st.targets[0] if isinstance(st, ast.Assign) else st.target) == "self._current_term"]
    need(tw, "C12-9: _handle_election_message no longer writes the term")
    for st in tw:
        ok = isinstance(st, ast.Assign) and any(isinstance(x, ast.Constant) and x.value == "term" for x in ast.walk(st.value)) and any(path_of(x) in ("metadata", "payload", "result") for x in ast.walk(st.value))
        ctx.ob("C12-9", "G7", hm, st, ok, "a node that adopts a leader announced by an election message adopts the announced term (terms are agreed numbers, not per-node counters — otherwise two nodes hold the same term number with different leaders)")
    lock = prog.cls(DL, "DistributedLock")
    writes = []
    for m in lock.methods.values():
        for st in walk_stmts(m.node.body):
            if isinstance(st, (ast.Assign, ast.AugAssign)) and path_of(st.targets[0] if isinstance(st, ast.Assign) else st.target) == "self._next_token":
                writes.append((m, st))
    ok = all(m.name == "__init__" or increment_of(st, "self._next_token") == 1 for m, st in writes) and sum(1 for m, st in writes if m.name != "__init__") >= 1
    ctx.ob("C12-10", "G6", lock.methods["_grant_lock"], "fencing counter only increases", ok, f"`_next_token` is only ever incremented by one ({[(m.name, norm_stmt(st)) for m, st in writes]})")
    gl = lock.methods["_grant_lock"]
    rd = stmts_matching(gl, "token = self._next_token")
    inc = [s for s in walk_stmts(gl.node.body) if increment_of(s, "self._next_token") == 1]
    tok = stmts_matching(gl, "state.fencing_token = token")
    ok = len(rd) == 1 and len(inc) == 1 and len(tok) == 1 and not always_before(ctx, gl, lambda x: x.ast is rd[0][0], lambda x: x.ast is inc[0])
    ctx.ob("C12-10", "G2", gl, rd[0][0] if rd else None, ok, "every grant reads the counter then increments it, and hands out exactly the value read: fencing tokens strictly increase across grants")
    callers = [m.name for m in lock.methods.values() for c2 in calls_in(m.node) if path_of(c2.func) == "self._grant_lock"]
    others = [m.name for m in lock.methods.values() for st in walk_stmts(m.node.body) if isinstance(st, ast.Assign) and (path_of(st.targets[0]) or "").endswith(".fencing_token") and m.name != "_grant_lock"
              and not (isinstance(st.value, ast.Constant))]
    ctx.ob("C12-10", "G7", gl, "tokens only issued by _grant_lock", bool(callers) and not others, f"fencing tokens are assigned only in _grant_lock (callers {sorted(set(callers))}, other writers {others})")
    ctx.floor("C12-9", 3)
    ctx.floor("C12-10", 3)


def rule_leader_keeps_leading(ctx: Ctx) -> None:
    """An established leader's own heartbeat tick re-arms the heartbeat and never reaches the branch that clears `_is_leader`."""
    prog = ctx.prog
    for rel, cname in ((MP, "MultiPaxosNode"), (FP, "FlexiblePaxosNode")):
        hh = prog.func(rel, f"{cname}._handle_heartbeat")
        ff = ctx.flow(hh)
        demote = [st for st in walk_stmts(hh.node.body) if isinstance(st, ast.Assign) and path_of(st.targets[0]) == "self._is_leader" and isinstance(st.value, ast.Constant) and st.value.value is False]
        need(demote, f"C12-12: {cname}._handle_heartbeat has no demotion site")
        for st in demote:
            ok = ff.holds_at(node_of(ff.cfg, st), Fact("falsy", "metadata.get('self_heartbeat')"))
            ctx.ob("C12-12", "G1", hh, st, ok, f"{cname}: a heartbeat demotes the node only if it comes from another node — the leader's own tick (self_heartbeat) never clears _is_leader")
        rearm = [c for c in calls_in(hh.node) if path_of(c.func) == "self._send_heartbeat"]
        ok = len(rearm) == 1 and ff.holds_at(node_of(ff.cfg, rearm[0]), Fact("truthy", "metadata.get('self_heartbeat')")) and ff.holds_at(node_of(ff.cfg, rearm[0]), Fact("truthy", "self._is_leader"))
        ctx.ob("C12-12", "G2", hh, rearm[0] if rearm else None, ok, f"{cname}: while it leads, the node's own tick sends the next round of heartbeats and re-arms itself")
        # the same tick drives replication: whatever submit() put into the log is sent out (and re-sent until committed)
        ru = prog.func(rel, f"{cname}._replicate_uncommitted")
        lp = [st for st in ru.node.body if isinstance(st, ast.For)]
        okr = len(lp) == 1 and unparse(lp[0].iter).replace(" ", "") == "range(self._log.commit_index+1,self._log.last_index+1)" and any(path_of(k.func) == "self._replicate_slot" and [path_of(a) for a in k.args] == [path_of(lp[0].target)] for k in calls_in(lp[0]))
        tick = [k for k in calls_in(hh.node) if path_of(k.func) == "self._replicate_uncommitted"]
        okt = len(tick) == 1 and ff.holds_at(node_of(ff.cfg, tick[0]), Fact("truthy", "metadata.get('self_heartbeat')")) and ff.holds_at(node_of(ff.cfg, tick[0]), Fact("truthy", "self._is_leader"))
        ctx.ob("C12-12", "G2", hh, tick[0] if tick else None, okr and okt, f"{cname}: the leader's tick (re-)sends the Accepts of every assigned slot above the commit index — a command given to submit() is decided without the caller touching private methods")
        ha = prog.func(rel, f"{cname}._handle_accepted")
        txt = unparse(ha.node).replace(" ", "")
        okc = "self._slot_acks[slot]=len(ackers)" in txt and "ackers=self._slot_ackers.setdefault(slot,set())" in txt and not any(isinstance(st, ast.AugAssign) and "self._slot_acks" in unparse(st.target) for st in walk_stmts(ha.node.body))
        ctx.ob("C12-12", "G2", ha, "acks counted per acceptor", okc, f"{cname}: a slot's quorum counts distinct acceptors (Accepts are re-sent, so one acceptor may answer twice)")
        sh = prog.func(rel, f"{cname}._send_heartbeat")
        tick = [c for c in calls_in(sh.node) if path_of(c.func) == "Event" and any(k.arg == "target" and path_of(k.value) == "self" for k in c.keywords)]
        ok = len(tick) == 1 and "'self_heartbeat': True" in unparse(tick[0])
        ctx.ob("C12-12", "G8", sh, tick[0] if tick else None, ok, f"{cname}._send_heartbeat marks its self-scheduled tick with self_heartbeat=True (the flag the handler tests)")
    ctx.floor("C12-12", 10)


def rule_slots_only_by_leader(ctx: Ctx) -> None:
    """C12-13: a slot is assigned (a command enters the log under this node's ballot) only while the node believes it leads."""
    prog = ctx.prog
    n = 0
    for rel, cname in ((MP, "MultiPaxosNode"), (FP, "FlexiblePaxosNode")):
        c = prog.cls(rel, cname)
        for m in c.methods.values():
            mf = None
            for k in calls_in(m.node):
                if path_of(k.func) == "self._assign_slot":
                    n += 1
                    mf = mf or ctx.flow(m)
                    nd = node_of(mf.cfg, k)
                    ok = mf.holds_at(nd, Fact("truthy", "self._is_leader"))
                    if not ok and m.name == "_become_leader":
                        sets = [st for st in walk_stmts(m.node.body) if isinstance(st, ast.Assign) and path_of(st.targets[0]) == "self._is_leader" and isinstance(st.value, ast.Constant) and st.value.value is True]
                        ok = len(sets) == 1 and not always_before(ctx, m, lambda x: x.ast is sets[0], lambda x: x is nd)
                    ctx.ob("C12-13", "G1", m, k, ok, f"{cname}.{m.name}: a slot is assigned only while `_is_leader` holds (the `_leader` hint lags behind a hand-over: a deposed leader would assign a slot under the new leader's ballot)")
    need(n >= 5, f"C12-13: expected >= 5 slot-assignment sites, found {n}")


def rule_quorum_roles_and_fresh_tallies(ctx: Ctx) -> None:
    """C12-16: (a) every comparison of a *promise* tally is against the phase-1 quorum and every comparison of an *accept* tally against the
    phase-2 quorum (they differ only in Flexible Paxos, where Q1 + Q2 > N is all that is guaranteed: a take-over on Q2 promises need not
    intersect an earlier Q2 of accepts).  (b) assigning a slot starts a fresh tally for it — `{self.name}` / 1 stored by assignment, never
    merged into what the slot number collected for an earlier, truncated command."""
    prog = ctx.prog
    n = 0
    for rel, cname, q1, q2 in ((PAX, "PaxosNode", "self.quorum_size", "self.quorum_size"), (MP, "MultiPaxosNode", "self.quorum_size", "self.quorum_size"),
                               (FP, "FlexiblePaxosNode", "self._phase1_quorum", "self._phase2_quorum")):
        c = prog.cls(rel, cname)
        quorums = {"self.quorum_size", "self._phase1_quorum", "self._phase2_quorum"}
        for m in c.methods.values():
            for cmp_ in [x for x in walk_scope(m.node, include_root=False) if isinstance(x, ast.Compare) and len(x.ops) == 1]:
                sides = [cmp_.left, cmp_.comparators[0]]
                qs = [s_ for s_ in sides if path_of(s_) in quorums]
                if len(qs) != 1:
                    continue
                other = unparse(sides[1] if qs[0] is sides[0] else sides[0])
                role = "promise" if "_phase1_responses" in other else "accept" if any(t in other for t in ("_phase2_responses", "_slot_acks", "_slot_ackers")) else None
                if role is None:
                    continue
                n += 1
                want = q1 if role == "promise" else q2
                ctx.ob("C12-16", "G8", m, cmp_, path_of(qs[0]) == want, f"{cname}.{m.name}: the {role} tally `{other}` is compared with the {'phase-1' if role == 'promise' else 'phase-2'} quorum `{want}`")
        if cname == "PaxosNode":
            continue
        asg = c.methods["_assign_slot"]
        for attr, fresh in (("self._slot_ackers", lambda v: (isinstance(v, ast.Set) and [path_of(e) for e in v.elts] == ["self.name"])
                                                          or (isinstance(v, ast.Call) and path_of(v.func) == "set" and len(v.args) == 1 and isinstance(v.args[0], (ast.List, ast.Tuple, ast.Set)) and [path_of(e) for e in v.args[0].elts] == ["self.name"])),
                            ("self._slot_acks", lambda v: isinstance(v, ast.Constant) and v.value == 1)):
            st = [x for x in walk_stmts(asg.node.body) if isinstance(x, ast.Assign) and isinstance(x.targets[0], ast.Subscript) and path_of(x.targets[0].value) == attr]
            merged = [k for k in calls_in(asg.node) if isinstance(k.func, ast.Attribute) and k.func.attr in ("setdefault", "get", "add", "update") and unparse(k.func.value).startswith(attr)]
            n += 1
            ctx.ob("C12-16", "G2", asg, st[0] if st else None, len(st) == 1 and fresh(st[0].value) and not merged,
                   f"{cname}._assign_slot starts the slot's tally afresh (`{attr}[slot]` is assigned the leader's own ack only): acks an earlier command collected under the same slot number never count for the new one")
    need(n >= 10, f"C12-16: expected >= 10 quorum comparisons / tally initialisations, found {n}")
    ctx.floor("C12-16", 10)


def rule_schema(ctx: Ctx) -> None:
    prog = ctx.prog
    for rel, cname in ((PAX, "PaxosNode"), (MP, "MultiPaxosNode"), (FP, "FlexiblePaxosNode")):
        protocol_schema(ctx, "C12-11", prog.cls(rel, cname))
    ctx.floor("C12-11", 10)


def rule_accept_files_under_its_slot(ctx: Ctx) -> None:
    """C12-14: an acceptor's log index *is* the slot number, so an Accept's command may be appended only when the append lands on the slot
    the message names: on every path to `self._log.append(...)` in `_handle_accept` either the log was just truncated from `slot`
    (next index == slot) or the path decided `slot > last_index` and *not* `slot > last_index + 1` (next index == slot)."""
    prog = ctx.prog
    n = 0
    for rel, cname in ((MP, "MultiPaxosNode"), (FP, "FlexiblePaxosNode")):
        fn = prog.func(rel, f"{cname}._handle_accept")
        ff = ctx.flow(fn)
        for c in calls_in(fn.node):
            if path_of(c.func) != "self._log.append":
                continue
            n += 1
            cn = node_of(ff.cfg, c)
            bad = []
            for p_ in enumerate_paths(ff, ff.cfg.entry, stop=lambda x: x is cn):
                if not (p_.end == "stop" and p_.nodes[-1] is cn):
                    continue
                truncated = any(nd.kind == "stmt" and any(path_of(k.func) == "self._log.truncate_from" and k.args and path_of(k.args[0]) == "slot" for k in calls_in(nd.ast)) for nd in p_.nodes[:-1])
                beyond = p_.decided(lambda t: t in ("slot>self._log.last_index", "self._log.last_index<slot"))
                gap = p_.decided(lambda t: t in ("slot>self._log.last_index+1", "self._log.last_index+1<slot", "slot-1>self._log.last_index", "self._log.last_index<slot-1"))
                nxt = p_.decided(lambda t: t in ("slot==self._log.last_index+1", "self._log.last_index+1==slot"))
                if not (truncated or nxt is True or (beyond is True and gap is False)):
                    bad.append(p_.describe()[:160])
            ctx.ob("C12-14", "G1", fn, c, not bad, f"{cname}._handle_accept: a command is appended only where the append lands on the slot the Accept names (an acceptor that missed "
                   "slot k must not file slot k+1 under index k — it would later apply a different command for slot k than the leader)" + ("" if not bad else " — path: " + bad[0]))
    need(n >= 4, f"C12-14: expected >= 4 append sites in the two _handle_accept handlers, found {n}")


def rule_abandoned_ballot(ctx: Ctx) -> None:
    """C12-15: single-decree Paxos keeps per-ballot state (value, promise tally, accept tally) in three dicts.  A ballot given up by a retry
    loses all three together, and an Accepted is counted only for a ballot that still has a tally — otherwise late Accepteds of the old
    ballot complete its quorum and the node decides `_proposed_values.get(old)` = None, a value nobody proposed."""
    prog = ctx.prog
    rt = prog.func(PAX, "PaxosNode._handle_retry")
    rf = ctx.flow(rt)
    dels = [n_ for n_ in rf.cfg.nodes if n_.kind == "stmt" and ((isinstance(n_.ast, ast.Delete) and any(unparse(t_).replace(" ", "") == "self._proposed_values[original_ballot]" for t_ in n_.ast.targets))
            or any(path_of(k.func) == "self._proposed_values.pop" and k.args and path_of(k.args[0]) == "original_ballot" for k in calls_in(n_.ast)))]
    need(len(dels) == 1, "C12-15: _handle_retry should give up the old ballot's value at exactly one site")

    def drops(nd, table):
        return nd.kind == "stmt" and ((isinstance(nd.ast, ast.Delete) and any(unparse(t_).replace(" ", "") == f"self.{table}[original_ballot]" for t_ in nd.ast.targets))
                                      or any(path_of(k.func) == f"self.{table}.pop" and k.args and path_of(k.args[0]) == "original_ballot" for k in calls_in(nd.ast)))
    for table in ("_phase1_responses", "_phase2_responses"):
        bad = []
        for p_ in enumerate_paths(rf, dels[0], stop=lambda x: x is rf.cfg.exit):
            if p_.end == "raise":
                continue
            if not any(drops(nd, table) for nd in p_.nodes):
                bad.append(p_.describe()[:80])
        ctx.ob("C12-15", "G2", rt, dels[0].ast, not bad, f"PaxosNode._handle_retry: giving up a ballot's value also drops its `{table}` entry on every path (the ballot is dead: nothing may act for it later)")
    ha = prog.func(PAX, "PaxosNode._handle_accepted")
    hf = ctx.flow(ha)
    creates = [s_ for s_ in walk_stmts(ha.node.body) if isinstance(s_, ast.Assign) and unparse(s_.targets[0]).replace(" ", "").startswith("self._phase2_responses[")]
    incs = [n_ for n_ in hf.cfg.nodes if n_.kind == "stmt" and isinstance(n_.ast, ast.AugAssign) and unparse(n_.ast.target).replace(" ", "").startswith("self._phase2_responses[")]
    ok = not creates and len(incs) == 1 and hf.holds_at(incs[0], Fact("in", "ballot_number", "self._phase2_responses"))
    ctx.ob("C12-15", "G1", ha, incs[0].ast if incs else None, ok, "PaxosNode._handle_accepted counts an Accepted only for a ballot that has a tally (one it is running); it never creates a tally for an unknown or abandoned ballot")
    decs = [c for c in calls_in(ha.node) if path_of(c.func) == "self._decide"]
    okd = len(decs) == 1 and incs and not always_before(ctx, ha, lambda x: x is incs[0], lambda x: x is node_of(hf.cfg, decs[0]))
    ctx.ob("C12-15", "G2", ha, decs[0] if decs else None, bool(okd), "PaxosNode decides only on a path that counted this Accepted for a running ballot")


def rule_supplied_state_machine_is_used(ctx: Ctx) -> None:
    """C12-6: the log-based nodes apply decided commands to the state machine they were given whenever one was given (`is not None`, not
    truthiness — an empty journal-like machine with `__len__` is falsy and would be swapped for a private KVStateMachine)."""
    prog = ctx.prog
    for rel, cname in ((MP, "MultiPaxosNode"), (FP, "FlexiblePaxosNode")):
        init = prog.func(rel, f"{cname}.__init__")
        sm = [s_ for s_ in walk_stmts(init.node.body) if isinstance(s_, ast.Assign) and path_of(s_.targets[0]) == "self._state_machine"]
        ok = len(sm) == 1 and ((isinstance(sm[0].value, ast.IfExp) and {f.sig for f in atoms(sm[0].value.test, True)} == {("isnot", "state_machine", "None")} and path_of(sm[0].value.body) == "state_machine")
                               or path_of(sm[0].value) == "state_machine")
        ctx.ob("C12-6", "G7", init, sm[0] if sm else None, ok, f"{cname} keeps the supplied state machine (`state_machine if state_machine is not None else …`)")


def run(ctx: Ctx) -> None:
    ctx.guarded(rule_supplied_state_machine_is_used)
    ctx.guarded(rule_ballot_order)
    ctx.guarded(rule_acceptor)
    ctx.guarded(rule_acceptor_pairing)
    ctx.guarded(rule_once_per_ballot)
    ctx.guarded(rule_phase2_value)
    ctx.guarded(rule_decided)
    ctx.guarded(rule_flexible)
    ctx.guarded(rule_dead_promise_info)
    ctx.guarded(rule_leader_and_lock)
    ctx.guarded(rule_leader_keeps_leading)
    ctx.guarded(rule_slots_only_by_leader)
    ctx.guarded(rule_accept_files_under_its_slot)
    ctx.guarded(rule_abandoned_ballot)
    ctx.guarded(rule_quorum_roles_and_fresh_tallies)
    ctx.guarded(rule_schema)


MUTANTS = [
    ("flexible-self-quorum-shortcut-on-q2", FP, "        if len(self._phase1_responses[ballot.number]) >= self._phase1_quorum:\n            events.extend(self._become_leader())", "        if len(self._phase1_responses[ballot.number]) >= self._phase2_quorum:\n            events.extend(self._become_leader())", "C12-16"),
    ("flexible-slot-decided-on-q1", FP, "        if self._slot_acks[slot] >= self._phase2_quorum and slot > self._log.commit_index:", "        if self._slot_acks[slot] >= self._phase1_quorum and slot > self._log.commit_index:", "C12-16"),
    ("multipaxos-slot-tally-merged-into-old", MP, "        self._slot_ackers[slot] = {self.name}  # self\n        self._slot_acks[slot] = 1\n", "        ackers = self._slot_ackers.setdefault(slot, set())\n        ackers.add(self.name)\n        self._slot_acks[slot] = len(ackers)\n", "C12-16"),
    ("multipaxos-falsy-state-machine-discarded", MP, "state_machine if state_machine is not None else KVStateMachine()", "state_machine or KVStateMachine()", "C12-6"),
    ("multipaxos-overtaken-candidacy-takes-over", MP, '        if self._current_ballot != Ballot(ballot_number, self.name):\n            # This candidacy has been overtaken (a higher ballot was adopted\n            # since): its late promises must not make this node lead.\n            return []\n', "", "C12-4"),
    ("flexible-overtaken-candidacy-takes-over", FP, '        if self._current_ballot != Ballot(ballot_number, self.name):\n            # This candidacy has been overtaken (a higher ballot was adopted\n            # since): its late promises must not make this node lead.\n            return []\n', "", "C12-4"),
    ("paxos-retry-keeps-old-accept-tally", PAX, "            self._phase2_responses.pop(original_ballot, None)\n", "", "C12-15"),
    ("paxos-accepted-creates-tally", PAX, "            # Not a ballot this node is running: never started here, or given\n            # up by a retry (its value has moved on to the new ballot).\n            return []\n", "            self._phase2_responses[ballot_number] = 0\n", "C12-15"),
    ("flexible-promise-tallied-under-current-ballot", FP, "        ballot_number = metadata[\"ballot_number\"]\n", "        ballot_number = self._current_ballot.number\n", "C12-4"),
    ("multipaxos-accept-fills-gap", MP, '        if slot > self._log.last_index + 1:\n            # An earlier slot has not arrived yet: appending would file this\n            # command under the wrong slot. Wait until the gap is filled.\n            return []\n', "", "C12-14"),
    ("flexible-accept-fills-gap", FP, '        if slot > self._log.last_index + 1:\n            # An earlier slot has not arrived yet: appending would file this\n            # command under the wrong slot. Wait until the gap is filled.\n            return []\n', "", "C12-14"),
    ("multipaxos-accept-gap-off-by-one", MP, "        if slot > self._log.last_index + 1:\n            # An earlier", "        if slot > self._log.last_index + 2:\n            # An earlier", "C12-14"),
    ("multipaxos-tick-does-not-replicate", MP, "            events = self._send_heartbeat()\n            events.extend(self._replicate_uncommitted())\n            return events", "            return self._send_heartbeat()", "C12-12"),
    ("flexible-acks-counted-per-message", FP, "        self._slot_acks[slot] = len(ackers)", "        self._slot_acks[slot] = self._slot_acks.get(slot, 0) + 1", "C12-12"),
    ("forward-accepted-by-leader-hint", MP, "        if self._is_leader and command is not None:", "        if self._leader == self.name and command is not None:", "C12-13"),
    ("multipaxos-own-tick-demotes", MP, "        if metadata.get(\"self_heartbeat\"):\n            if not self._is_leader:\n                return None\n            # The tick also drives replication", "        if metadata.get(\"self_heartbeat\") and not self._is_leader:\n            if not self._is_leader:\n                return None\n            # The tick also drives replication", "C12-12"),
    ("self-count-without-self-accept", PAX, "            self._accepted_value = chosen_value\n            self._phase2_responses[ballot_number] = 1  # count self", "            self._accepted_value = chosen_value\n        self._phase2_responses[ballot_number] = 1  # count self", "C12-6"),
    ("accept-does-not-raise-promise", PAX, "        # Accept\n        self._promised_ballot = ballot\n        self._accepted_ballot = ballot", "        # Accept\n        self._accepted_ballot = ballot", "C12-3"),
    ("promise-ballot-halves-mixed", PAX, "            accepted_ballot = (metadata[\"accepted_ballot_number\"], metadata[\"accepted_ballot_node\"])", "            accepted_ballot = (metadata[\"accepted_ballot_number\"], metadata[\"ballot_node\"])", "C12-5"),
    ("self-promise-tallied-unconditionally", PAX, "            # Add to our own phase1 responses\n            if ballot.number in self._phase1_responses:\n                self._phase1_responses[ballot.number].append(response)\n                self._promises_received += 1", "        if ballot.number in self._phase1_responses:\n            self._phase1_responses[ballot.number].append({\"from\": self.name, \"accepted_ballot\": None, \"accepted_value\": None})", "C12-3"),
    ("ballot-order-node-first", PAX, "    number: int\n    node_id: str\n", "    node_id: str\n    number: int\n", "C12-1"),
    ("prepare-promises-lower-ballot", PAX, "        if self._promised_ballot is not None and ballot < self._promised_ballot:\n            # Nack: we've already promised a higher ballot", "        if self._promised_ballot is not None and ballot.number < 0:\n            # Nack: we've already promised a higher ballot", "C12-2"),
    ("accept-below-promise", PAX, "        if self._promised_ballot is not None and ballot < self._promised_ballot:\n            nack = self._network.send(", "        if False:\n            nack = self._network.send(", "C12-2"),
    ("self-accept-unguarded", PAX, "        if self._promised_ballot is None or ballot >= self._promised_ballot:\n            self._accepted_ballot = ballot", "        if True:\n            self._accepted_ballot = ballot", "C12-3"),
    ("multi-accept-stale-ballot", MP, "        if ballot < self._current_ballot:\n            nack = self._network.send(", "        if ballot.number < 0:\n            nack = self._network.send(", "C12-2"),
    ("multi-heartbeat-any-ballot", MP, "        if ballot >= self._current_ballot:\n            self._current_ballot = ballot", "        if True:\n            self._current_ballot = ballot", "C12-2"),
    ("flexible-nack-adopts-lower", FP, "        if higher > self._current_ballot:", "        if higher != self._current_ballot:", "C12-2"),
    ("paxos-phase2-rerun", PAX, "        if len(self._phase1_responses[ballot_number]) == self.quorum_size:", "        if len(self._phase1_responses[ballot_number]) >= self.quorum_size:", "C12-4"),
    ("multi-takeover-rerun", MP, "        if len(self._phase1_responses[ballot_number]) == self.quorum_size:", "        if len(self._phase1_responses[ballot_number]) >= self.quorum_size:", "C12-4"),
    ("flexible-takeover-rerun", FP, "        if len(self._phase1_responses[ballot_number]) == self._phase1_quorum:", "        if len(self._phase1_responses[ballot_number]) >= self._phase1_quorum:", "C12-4"),
    ("promise-tallied-for-foreign-ballot", PAX, "        if ballot_number not in self._phase1_responses:\n            return []\n\n        accepted_ballot = None", "        if ballot_number not in self._phase1_responses:\n            self._phase1_responses[ballot_number] = []\n\n        accepted_ballot = None", "C12-4"),
    ("phase2-takes-lowest", PAX, "            if ab is not None and (highest_accepted_ballot is None or ab > highest_accepted_ballot):", "            if ab is not None and (highest_accepted_ballot is None or ab < highest_accepted_ballot):", "C12-5"),
    ("phase2-takes-last", PAX, "            if ab is not None and (highest_accepted_ballot is None or ab > highest_accepted_ballot):", "            if ab is not None:", "C12-5"),
    ("phase2-sends-own-value", PAX, "                    \"value\": chosen_value,\n", "                    \"value\": self._proposed_values.get(ballot_number),\n", "C12-5"),
    ("learn-overwrites-decision", PAX, "        if not self._decided:\n            self._decided = True\n            self._decided_value = value\n            logger.debug(\"[%s] Learned", "        if True:\n            self._decided = True\n            self._decided_value = value\n            logger.debug(\"[%s] Learned", "C12-6"),
    ("decide-without-quorum", PAX, "        if self._phase2_responses[ballot_number] >= self.quorum_size and not self._decided:", "        if self._phase2_responses[ballot_number] >= 1 and not self._decided:", "C12-6"),
    ("flexible-quorums-may-not-intersect", FP, "(total // 2) + 1\n\n        if self._phase1_quorum + self._phase2_quorum <= total:", "(total // 2) + 1\n\n        if self._phase1_quorum + self._phase2_quorum < total:", "C12-7"),
    ("flexible-set-peers-unvalidated", FP, "        total = len(self._peers) + 1\n        if self._phase1_quorum + self._phase2_quorum <= total:", "        total = len(self._peers) + 1\n        if self._phase1_quorum + self._phase2_quorum <= 0:", "C12-7"),
    ("leader-same-term-replaced", LE, "        if term > self._current_term or (\n            term == self._current_term and self._current_leader in (None, leader)\n        ):", "        if term >= self._current_term:", "C12-9"),
    ("lock-token-reused", DL, "        token = self._next_token\n        self._next_token += 1\n", "        token = self._next_token\n", "C12-10"),
    ("lock-token-reset-on-release", DL, "    def _get_or_create(self, lock_name: str) -> _LockState:", "    def _reset_tokens(self) -> None:\n        self._next_token = 1\n\n    def _get_or_create(self, lock_name: str) -> _LockState:", "C12-10"),
    ("accept-missing-value-key", PAX, "                    \"ballot_node\": self.name,\n                    \"value\": chosen_value,\n", "                    \"ballot_node\": self.name,\n                    \"val\": chosen_value,\n", "C12-11"),
]
REFACTORS = [
    ("prepare-nack-inverted", PAX, "        if len(self._phase1_responses[ballot_number]) == self.quorum_size:\n            return self._start_phase2(ballot_number)\n\n        return []", "        if len(self._phase1_responses[ballot_number]) != self.quorum_size:\n            return []\n        return self._start_phase2(ballot_number)"),
]
