"""C14 — storage engines behave like a map under flushes, compactions and overlap (structural clauses)."""

from __future__ import annotations

import ast

from ..astutil import calls_in, norm_stmt, path_of, unparse, walk_scope, walk_stmts
from ..cfg import own_exprs
from ..facts import Fact, atoms, enumerate_paths
from ..report import Ctx
from ..suspend import live_iterations, node_suspension
from .common import NotTabulable, OrderEval, always_before, enclosing_stmt, guard, need, node_of, stmts_matching

LSM = "happysimulator/components/storage/lsm_tree.py"
MEMT = "happysimulator/components/storage/memtable.py"
SST = "happysimulator/components/storage/sstable.py"
BT = "happysimulator/components/storage/btree.py"
KV = "happysimulator/components/datastore/kv_store.py"
TXN = "happysimulator/components/storage/transaction_manager.py"
PC = "happysimulator/components/infrastructure/page_cache.py"

EXPLANATION = (
    "LSM tree: the three read paths (get, get_sync, scan) consult memtable → immutable memtables newest-first → levels in order → "
    "SSTables newest-first with first-hit-wins, and every returned value passes the tombstone filter; a flushed SSTable is published "
    "before the flush suspends (the emptied memtable is never the only copy); loops that suspend iterate snapshots, never a container "
    "another handler mutates; compaction is single-flight, merges target-level tables first-wins in newest-first order, and drops "
    "tombstones only into the deepest level. B-tree get holds no node across a suspension. Transactions: validation and the commit-"
    "log append are atomic, SERIALIZABLE checks ww/rw/wr, snapshot reads consult the before-images past the snapshot version. "
    "KVStore put/get/delete address one dict."
)
RULE_TEXT = "Instances: per read path clause, per flush/compaction ordering clause, per suspending loop, per transaction clause. Distinct by (rule, construct)."
NOT_DECIDED = ["B-tree structural invariants and split/merge correctness (algorithmic)", "linearizability of overlapping operations as a whole",
               "compaction strategy selection (which tables are picked)", "two concurrent writers of one key may reach the memtable in the opposite order of their WAL sequence numbers"]
ASSUMPTIONS = ["Memtable/SSTable lookups are pure", "handlers are atomic between suspension points"]


def _sources_in_order(fn) -> list[str]:
    """Which stores a read path consults, in source order of first mention (top-level statements only)."""
    out = []
    for st in fn.node.body:
        txt = unparse(st)
        for tag, probe in (("memtable", "self._memtable."), ("immutables", "self._immutable_memtables"), ("levels", "self._levels")):
            if probe in txt and tag not in out:
                out.append(tag)
    return out


def rule_read_paths(ctx: Ctx) -> None:
    prog = ctx.prog
    for q in ("LSMTree.get", "LSMTree.get_sync", "LSMTree.scan"):
        fn = prog.func(LSM, q)
        order = _sources_in_order(fn)
        ctx.ob("C14-1", "G4", fn, "source precedence", order == ["memtable", "immutables", "levels"], f"{q} consults active memtable, then immutable memtables, then SSTable levels (got {order})")
        loops = [s for s in walk_stmts(fn.node.body) if isinstance(s, ast.For)]
        imm = [s for s in loops if "self._immutable_memtables" in unparse(s.iter)]
        ok_imm = len(imm) == 1 and isinstance(imm[0].iter, ast.Call) and path_of(imm[0].iter.func) == "reversed"
        ctx.ob("C14-1", "G4", fn, "immutables newest first", ok_imm, f"{q} walks the immutable memtables newest first")
        lv = [s for s in loops if "self._levels" in unparse(s.iter)]
        ok_lv = len(lv) == 1 and "reversed" not in unparse(lv[0].iter)
        inner = [s for s in walk_stmts(lv[0].body) if isinstance(s, ast.For)] if lv else []
        ok_in = bool(inner) and isinstance(inner[0].iter, ast.Call) and path_of(inner[0].iter.func) == "reversed" and path_of(inner[0].iter.args[0]) == path_of(lv[0].target)
        ctx.ob("C14-1", "G4", fn, "levels in order, tables newest first", ok_lv and ok_in, f"{q} walks levels from L0 down and, inside a level, SSTables newest first")
        # tombstone mapping on every hit
        if q != "LSMTree.scan":
            ff = ctx.flow(fn)
            bad = []
            n_ret = 0
            for st in walk_stmts(fn.node.body):
                if isinstance(st, ast.Return) and st.value is not None and not (isinstance(st.value, ast.Constant) and st.value.value is None):
                    n_ret += 1
                    v = st.value
                    if isinstance(v, ast.IfExp):
                        f = atoms(v.test, True)
                        ok = len(f) == 1 and f[0].op == "is" and f[0].b == "_TOMBSTONE" and isinstance(v.body, ast.Constant) and v.body.value is None and path_of(v.orelse) == f[0].a
                    else:
                        name = path_of(v)
                        # (the value may legitimately be None: a key stored with the value None is a hit, see the membership clause below)
                        ok = name is not None and ff.holds_at(node_of(ff.cfg, st), Fact("isnot", name, "_TOMBSTONE"))
                    if not ok:
                        bad.append(norm_stmt(st))
            # a step falls through to *older* data only when this table does not hold the key at all: a `None` read back is confirmed by an
            # exact membership test (a key stored with the value None must shadow older values, as a tombstone does)
            hit_tests = [t_ for t_ in walk_stmts(fn.node.body) if isinstance(t_, ast.If) and isinstance(t_.test, ast.BoolOp) and isinstance(t_.test.op, ast.Or)
                         and any({f.sig for f in atoms(v_, True)} in ({("isnot", "value", "None")}, {("isnot", "result", "None")}) for v_ in t_.test.values)]
            plain = [t_ for t_ in walk_stmts(fn.node.body) if isinstance(t_, ast.If) and {f.sig for f in atoms(t_.test, True)} in ({("isnot", "value", "None")}, {("isnot", "result", "None")})]
            okm = len(hit_tests) == 3 and not plain and all(any(isinstance(v_, ast.Call) and isinstance(v_.func, ast.Attribute) and v_.func.attr in ("contains", "has_key") and [path_of(a_) for a_ in v_.args] == ["key"]
                                                                  for v_ in t_.test.values) for t_ in hit_tests)
            ctx.ob("C14-1", "G1", fn, "a None read back is a miss only if the key is absent", okm, f"{q}: each of the three lookup steps (memtable, immutables, SSTables) treats `None` as a miss only after an exact "
                   f"membership test of that table ({len(hit_tests)} guarded, {len(plain)} unguarded)")
            ctx.ob("C14-1", "G1", fn, "every hit passes the tombstone filter", not bad and n_ret >= 3, f"{q}: a found value is returned only after the tombstone→None mapping ({n_ret} hit returns)" + ("" if not bad else f" — unfiltered: {bad}"))
        else:
            merged_guard = [s for s in walk_stmts(fn.node.body) if isinstance(s, ast.Assign) and unparse(s.targets[0]).replace(" ", "") == "merged[k]"]
            ff = ctx.flow(fn)
            okm = len(merged_guard) == 2 and all(ff.holds_at(node_of(ff.cfg, s), Fact("notin", "k", "merged")) for s in merged_guard)
            ctx.ob("C14-1", "G1", fn, "scan is first-wins", okm, "scan keeps the first (newest) value seen for a key: later sources only fill keys not yet present")
            res = [s for s in walk_stmts(fn.node.body) if isinstance(s, ast.Assign) and path_of(s.targets[0]) == "result"]
            okr = len(res) == 1 and "sorted(merged.items())" in unparse(res[0].value) and "is not _TOMBSTONE" in unparse(res[0].value)
            ctx.ob("C14-1", "G1", fn, "scan filters tombstones and sorts", okr, "scan returns exactly the live keys of the range in sorted order")
    ctx.floor("C14-1", 11)


def rule_flush_and_iteration(ctx: Ctx) -> None:
    prog = ctx.prog
    fl = prog.func(LSM, "LSMTree._flush_memtable")
    ff = ctx.flow(fl)
    fcall = [c for c in calls_in(fl.node) if isinstance(c.func, ast.Attribute) and c.func.attr == "flush" and path_of(c.func.value) not in ("self",)]
    pub = [c for c in calls_in(fl.node) if unparse(c.func).replace(" ", "") == "self._levels[0].append"]
    need(len(fcall) == 1 and len(pub) == 1, "C14-3: _flush_memtable should flush the old memtable once and publish the SSTable once")
    fn_, pn = node_of(ff.cfg, fcall[0]), node_of(ff.cfg, pub[0])
    # no suspension on any path between flush() (which empties the immutable memtable) and the publication
    bad = []
    for p in enumerate_paths(ff, fn_, stop=lambda x: x is pn):
        if p.end == "stop" and p.nodes[-1] is pn:
            if any(node_suspension(prog, fl, n) for n in p.nodes[1:-1]):
                bad.append(p.describe())
        elif p.end == "exit":
            bad.append("a path leaves without publishing the SSTable")
    sst = path_of(fn_.ast.targets[0]) if isinstance(fn_.ast, ast.Assign) else None
    ctx.ob("C14-3", "G5", fl, pub[0], not bad and [path_of(a) for a in pub[0].args] == [sst],
           "Memtable.flush() empties the memtable that serves reads during the flush; the SSTable built from it is published to L0 before any suspension, so no completed put "
           "is ever invisible" + ("" if not bad else f" — {bad[0]}"))
    imm_add = [c for c in calls_in(fl.node) if path_of(c.func) == "self._immutable_memtables.append"]
    new_mt = [s for s in walk_stmts(fl.node.body) if isinstance(s, ast.Assign) and path_of(s.targets[0]) == "self._memtable"]
    ok = len(imm_add) == 1 and len(new_mt) == 1 and not always_before(ctx, fl, lambda x: x is node_of(ff.cfg, imm_add[0]), lambda x: x.ast is new_mt[0])
    ctx.ob("C14-3", "G2", fl, imm_add[0] if imm_add else None, ok, "the full memtable is parked on the immutable list before a fresh active memtable replaces it")
    # C14-4: suspending loops iterate snapshots
    n_loops = 0
    for rel in (LSM, BT, PC, "happysimulator/components/datastore/cached_store.py", "happysimulator/components/datastore/soft_ttl_cache.py", "happysimulator/components/datastore/multi_tier_cache.py"):
        for fn in prog.module(rel).all_functions:
            if not fn.is_generator:
                continue
            has = any(isinstance(s, ast.For) and any(isinstance(n, (ast.Yield, ast.YieldFrom)) for b in s.body for n in walk_scope(b)) for s in walk_stmts(fn.node.body))
            if not has:
                continue
            n_loops += 1
            li = live_iterations(prog, fn, ctx.effects)
            ctx.ob("C14-4", "G5", fn, "suspending loops iterate snapshots", not li,
                   f"{fn.qual}: no loop that suspends iterates a container that other handlers of the class mutate"
                   + ("" if not li else f" — iterates live `{li[0].container}` (mutated by {li[0].mutators[:3]}): concurrent mutation skips entries or raises"))
    need(n_loops >= 3, f"C14-4: only {n_loops} suspending loops found")
    ctx.floor("C14-3", 2)
    ctx.floor("C14-4", 3)


def rule_compaction(ctx: Ctx) -> None:
    prog = ctx.prog
    for q in ("LSMTree._compact_once", "LSMTree._compact_sync"):
        fn = prog.func(LSM, q)
        ff = ctx.flow(fn)
        ov = [s for s in walk_stmts(fn.node.body) if isinstance(s, ast.For) and "self._levels[target_level]" in unparse(s.iter)]
        need(len(ov) == 1, f"C14-2: overlapping-table loop not found in {q}")
        newest_first = isinstance(ov[0].iter, ast.Call) and path_of(ov[0].iter.func) == "reversed"
        fills = [s for s in walk_stmts(ov[0].body) if isinstance(s, ast.Assign) and unparse(s.targets[0]).replace(" ", "") == "merged_data[k]"]
        first_wins = len(fills) == 1 and ff.holds_at(node_of(ff.cfg, fills[0]), Fact("notin", "k", "merged_data"))
        last_wins = len(fills) == 1 and not first_wins
        ok = (first_wins and newest_first) or (last_wins and not newest_first)
        ctx.ob("C14-2", "G4", fn, "merge direction agrees with table order", ok,
               f"{q}: target-level tables are merged {'first' if first_wins else 'last'}-wins while iterating {'newest' if newest_first else 'oldest'}-first — the newest value of a key must survive"
               + ("" if ok else " — an OLDER value (or a dropped tombstone) can overwrite a newer one"))
        src = [s for s in walk_stmts(fn.node.body) if isinstance(s, ast.AnnAssign) and path_of(s.target) == "merged_data" or (isinstance(s, ast.Assign) and path_of(s.targets[0]) == "merged_data" and isinstance(s.value, ast.DictComp))]
        ok_src = any(isinstance(getattr(s, "value", None), ast.DictComp) and path_of(s.value.generators[0].iter) == "sstables" for s in src)
        # ... and `sstables` still is the strategy's selection, in the strategy's (= the level list's age) order: bound once, by the tuple
        # returned from select_compaction, never re-sorted (an SSTable's `sequence` restarts with every fresh memtable: it is no age)
        binds = [s for s in walk_scope(fn.node, include_root=False) if isinstance(s, (ast.Assign, ast.AnnAssign, ast.AugAssign, ast.For, ast.comprehension, ast.NamedExpr))
                 and any(isinstance(y, ast.Name) and y.id == "sstables" and isinstance(y.ctx, ast.Store) for y in ast.walk(getattr(s, "target", None) or (s.targets[0] if isinstance(s, ast.Assign) else s)))]
        sel = [s for s in binds if isinstance(s, ast.Assign) and isinstance(s.value, ast.Call) and (path_of(s.value.func) or "").endswith(".select_compaction")]
        mut = [c for c in calls_in(fn.node) if isinstance(c.func, ast.Attribute) and path_of(c.func.value) == "sstables" and c.func.attr in ("sort", "reverse", "insert", "append", "extend", "pop", "remove")]
        ok_src = ok_src and len(binds) == 1 and len(sel) == 1 and not mut
        ctx.ob("C14-2", "G4", fn, "source tables folded in selection order", ok_src, f"{q}: selected source tables are folded oldest→newest (later wins) in the order the strategy selected them — not re-bound, re-sorted or edited — before the target level is consulted")
        # tombstones dropped only into the deepest level
        drops = [s for s in walk_stmts(fn.node.body) if isinstance(s, ast.Assign) and path_of(s.targets[0]) == "merged_data" and "is not _TOMBSTONE" in unparse(s.value)]
        okd = len(drops) == 1 and ff.holds_at(node_of(ff.cfg, drops[0]), Fact("eq", "self._max_levels - 1", "target_level")) or (len(drops) == 1 and ff.holds_at(node_of(ff.cfg, drops[0]), Fact("eq", "target_level", "self._max_levels - 1")))
        ctx.ob("C14-5", "G1", fn, drops[0] if drops else None, bool(okd), f"{q}: tombstones are discarded only when compacting into the deepest level (nothing older can lie beneath)")
        # where the merged table goes: into a *deeper* level it is the newest table there (append); when source and target level coincide
        # (max_levels == 1, or the deepest level compacting into itself) and the function suspended since it picked its inputs, whatever
        # else is in the level by now was flushed during the suspension and is newer — the merged table goes in front of it
        if fn.is_generator:
            inst_nodes = [n_ for n_ in ff.cfg.nodes if n_.kind == "stmt" and any(unparse(k.func).replace(" ", "") in ("self._levels[target_level].append", "self._levels[target_level].insert") for k in calls_in(n_.ast))]
            bad_i = []
            for p_ in enumerate_paths(ff, ff.cfg.entry):
                if p_.end != "exit":
                    continue
                ins = [n_ for n_ in p_.nodes if any(n_ is x for x in inst_nodes)]
                if not ins:
                    continue
                same = p_.decided(lambda t: t in ("target_level==source_level", "source_level==target_level"))
                call = [k for k in calls_in(ins[0].ast) if unparse(k.func).replace(" ", "").startswith("self._levels[target_level].")][0]
                front = call.func.attr == "insert" and isinstance(call.args[0], ast.Constant) and call.args[0].value == 0
                if len(ins) != 1 or (same is True and not front) or (same is False and front) or same is None:
                    bad_i.append(f"[{p_.describe()[-90:]}] installs with `{unparse(call)[:50]}`")
            ctx.ob("C14-2", "G4", fn, inst_nodes[0].ast if inst_nodes else None, bool(inst_nodes) and not bad_i,
                   f"{q}: the merged table is appended to a deeper level but inserted at the front when it stays in its own level (tables flushed during the compaction's suspension are newer)"
                   + ("" if not bad_i else " — " + bad_i[0]))
        # replaced tables are removed and the merged table installed with no suspension in between
        inst = [c for c in calls_in(fn.node) if unparse(c.func).replace(" ", "") == "self._levels[target_level].append"]
        rems = [c for c in calls_in(fn.node) if unparse(c.func).replace(" ", "").endswith("].remove") and "self._levels" in unparse(c.func)]
        oki = len(inst) == 1 and len(rems) == 2
        if oki and fn.is_generator:
            inn = node_of(ff.cfg, inst[0])
            for r in rems:
                rn = node_of(ff.cfg, r)
                for p in enumerate_paths(ff, rn, stop=lambda x: x is inn):
                    if any(node_suspension(prog, fn, n) for n in p.nodes):
                        oki = False
        ctx.ob("C14-2", "G5", fn, "swap is atomic", oki, f"{q}: removing the inputs and installing the merged table happen without a suspension in between (readers never see neither)")
    cp = prog.func(LSM, "LSMTree._compact")
    cff = ctx.flow(cp)
    inner = [c for c in calls_in(cp.node) if path_of(c.func) == "self._compact_once"]
    latch = stmts_matching(cp, "self._compaction_in_progress = True")
    ok = len(inner) == 1 and len(latch) == 1 and cff.holds_at(node_of(cff.cfg, latch[0][0]), Fact("falsy", "self._compaction_in_progress"))
    tries = [s for s in walk_stmts(cp.node.body) if isinstance(s, ast.Try) and s.finalbody and any(norm_stmt(x) == "self._compaction_in_progress = False" for x in s.finalbody)
             and any(c is inner[0] for b in s.body for c in calls_in(b))] if inner else []
    ctx.ob("C14-2", "G5", cp, latch[0][0] if latch else None, ok and len(tries) == 1,
           "only one compaction runs at a time (latch taken under `not in progress`, released in `finally`): a second cycle cannot work from inputs the first is about to replace")
    cs = prog.func(LSM, "LSMTree._compact_sync")
    sff = ctx.flow(cs)
    sel = [c for c in calls_in(cs.node) if (path_of(c.func) or "").endswith("select_compaction")]
    ok = len(sel) == 1 and sff.holds_at(node_of(sff.cfg, sel[0]), Fact("falsy", "self._compaction_in_progress"))
    ctx.ob("C14-2", "G5", cs, sel[0] if sel else None, ok, "the synchronous compaction also yields to a suspended asynchronous one")
    # who else mutates the level lists
    for fn in [f for f in prog.module(LSM).all_functions if f.cls is not None and f.cls.name == "LSMTree"]:
        if fn.name in ("__init__", "_flush_memtable", "_flush_memtable_sync", "_compact_once", "_compact_sync"):
            continue
        muts = [c for c in calls_in(fn.node) if isinstance(c.func, ast.Attribute) and c.func.attr in ("append", "remove", "clear", "pop", "insert", "extend") and "self._levels" in unparse(c.func.value)]
        for m_ in muts:
            ctx.ob("C14-2", "G6", fn, m_, False, f"{fn.qual} mutates the level lists outside flush/compaction")
    ctx.floor("C14-2", 8)
    ctx.floor("C14-5", 2)


def rule_btree_and_kv(ctx: Ctx) -> None:
    prog = ctx.prog
    g = prog.func(BT, "BTree.get")
    ff = ctx.flow(g)
    # no node reference defined before a suspension is used after it
    susp = [n for n in ff.cfg.nodes if n.kind in ("stmt", "test", "for") and node_suspension(prog, g, n)]
    need(susp, "C14-8: BTree.get has no suspension?")
    node_defs = [n for n in ff.cfg.nodes if n.kind == "stmt" and isinstance(n.ast, ast.Assign) and path_of(n.ast.targets[0]) == "node"]
    bad = []
    for d in node_defs:
        for p in enumerate_paths(ff, d, unroll=1):
            crossed = False
            for n in p.nodes[1:]:
                if n in susp:
                    crossed = True
                elif n.kind == "stmt" and isinstance(n.ast, ast.Assign) and path_of(n.ast.targets[0]) == "node":
                    break
                elif crossed and any(isinstance(x, ast.Name) and x.id == "node" for e in own_exprs(n) for x in ast.walk(e)):
                    bad.append(f"`node` bound at line {d.lineno} is used at line {n.lineno} after a suspension")
                    break
    ctx.ob("C14-8", "G5", g, "no node held across a suspension", not bad,
           "BTree.get does not keep a node reference across its page-read suspensions (a concurrent split would move half of the node's keys away)" + ("" if not bad else " — " + bad[0]))
    # routing agreement: every descent step (internal node) routes a key equal to a separator to the right child (bisect_right),
    # every leaf lookup uses bisect_left; the post-split adjustment agrees (`key >= separator` goes right)
    bt = prog.cls(BT, "BTree")
    n_route = 0
    for m in bt.methods.values():
        mf = ctx.flow(m)
        for bc in calls_in(m.node):
            # any bisect over `<node>.keys` with the looked-up key, wherever its result goes (a local, or straight into `children[...]`)
            if path_of(bc.func) in ("bisect.bisect_left", "bisect.bisect_right", "bisect.bisect") and len(bc.args) == 2 and (unparse(bc.args[0]).endswith(".keys")) \
                    and path_of(bc.args[0]) is not None:
                st = enclosing_stmt(m, bc)
                nd = path_of(bc.args[0])[: -len(".keys")]
                sn = node_of(mf.cfg, st)
                leaf = mf.holds_at(sn, Fact("truthy", f"{nd}.leaf"))
                inner = mf.holds_at(sn, Fact("falsy", f"{nd}.leaf"))
                fnm = path_of(bc.func).split(".")[-1]
                if m.name in ("_scan_node",) or path_of(bc.args[1]) not in ("key",):
                    continue
                n_route += 1
                want = "bisect_left" if leaf else "bisect_right" if inner else None
                ctx.ob("C14-8", "G4", m, st, want is not None and fnm == want,
                       f"BTree.{m.name}: {'leaf position lookup uses bisect_left' if leaf else 'descent routes keys equal to a separator to the right child (bisect_right), like every other descent' if inner else 'cannot tell whether the node is a leaf here'}"
                       f" (found {fnm})")
    inf = prog.func(BT, "BTree._insert_non_full")
    adj = [s2 for s2 in walk_stmts(inf.node.body) if isinstance(s2, ast.If) and any(isinstance(b, ast.AugAssign) and path_of(b.target) == "idx" for b in s2.body)]
    ok = len(adj) == 1 and {f.sig for f in atoms(adj[0].test, True)} == {("le", "node.keys[idx]", "key")}
    ctx.ob("C14-8", "G4", inf, adj[0] if adj else None, ok, "after splitting the child on the way down, a key >= the promoted separator goes to the right half (the same convention as bisect_right)")
    need(n_route >= 7, f"C14-8: expected >= 7 key-routing lookups in BTree, found {n_route}")
    kv = prog.cls(KV, "KVStore")
    stores = {}
    for mname in ("get", "put", "delete", "get_sync", "put_sync", "delete_sync"):
        m = kv.methods.get(mname)
        if m is None:
            continue
        used = {p for n in walk_scope(m.node) if isinstance(n, (ast.Subscript, ast.Call)) for p in [path_of(n.value if isinstance(n, ast.Subscript) else (n.func.value if isinstance(n.func, ast.Attribute) else None))] if p and p.startswith("self._") and "data" in p}
        stores[mname] = used
    same = len({frozenset(v) for v in stores.values() if v}) == 1
    ctx.ob("C14-8", "G4", kv.methods["get"], "KVStore methods share one dict", same and len(stores) >= 4, f"KVStore put/get/delete (sync and async) address the same mapping: {stores}")
    ctx.floor("C14-8", 9)


def rule_transactions(ctx: Ctx) -> None:
    prog = ctx.prog
    cm = prog.func(TXN, "StorageTransaction.commit")
    ff = ctx.flow(cm)
    chk = [c for c in calls_in(cm.node) if path_of(c.func) == "self._manager._check_conflict"]
    app = [c for c in calls_in(cm.node) if path_of(c.func) == "self._manager._commit_log.append"]
    need(len(chk) == 1 and len(app) == 1, "C14-6: commit should validate once and append to the commit log once")
    cn, an = node_of(ff.cfg, chk[0]), node_of(ff.cfg, app[0])
    bad = [p.describe() for p in enumerate_paths(ff, cn, stop=lambda x: x is an) if p.end == "stop" and any(node_suspension(prog, cm, n) for n in p.nodes)]
    writes = [c for c in calls_in(cm.node) if path_of(c.func) == "self._manager._store.put_sync"]
    ctx.ob("C14-6", "G5", cm, "validate-and-apply is atomic", not bad and len(writes) == 1,
           "no suspension between conflict validation, applying the write set (synchronously) and recording the commit: two transactions cannot both validate against a log that misses the other")
    holder = cn.ast.targets[0].id if isinstance(cn.ast, ast.Assign) else None
    ok = holder is not None and ff.holds_at(an, Fact("falsy", holder))
    ctx.ob("C14-6", "G1", cm, app[0], ok, "the commit is recorded only when validation found no conflict")
    cc = prog.func(TXN, "TransactionManager._check_conflict")
    cff = ctx.flow(cc)
    tests = {unparse(n.ast).replace(" ", ""): n for n in cff.cfg.nodes if n.kind == "test"}
    ww = [n for n in cff.cfg.nodes if n.kind == "test" and "tx._write_set.keys()&entry.keys_written" in unparse(n.ast).replace(" ", "")]
    rw = [t for t in tests if "tx._read_set&entry.keys_written" in t]
    wr = [t for t in tests if "entry.keys_read" in t and "tx._write_set" in t]
    ser_ok = False
    for t in rw + wr:
        pass
    # the rw / wr checks must be reachable under SERIALIZABLE
    ser_nodes = [tests[t] for t in rw + wr]
    ser_ok = len(rw) == 1 and len(wr) == 1 and all(cff.holds_at(n, Fact("eq", "IsolationLevel.SERIALIZABLE", "tx._isolation")) for n in ser_nodes)
    ctx.ob("C14-6", "G1", cc, "SERIALIZABLE checks ww, rw and wr", ser_ok and len(ww) == 2, f"backward validation at SERIALIZABLE tests write-write, read-write and write-read intersections (ww tests {len(ww)}, rw {len(rw)}, wr {len(wr)})")
    skip = [t for t in tests if t.replace(" ", "") == "entry.version<=tx._snapshot_version"]
    ctx.ob("C14-6", "G1", cc, "only commits after the snapshot are considered", len(skip) == 1, "validation looks at exactly the commits newer than the transaction's snapshot")
    rd = prog.func(TXN, "StorageTransaction.read")
    rff = ctx.flow(rd)
    rets = [s for s in walk_stmts(rd.node.body) if isinstance(s, ast.Return) and "before_images" in unparse(s.value or ast.Constant(None))]
    ok = len(rets) == 1 and rff.holds_at(node_of(rff.cfg, rets[0]), Fact("lt", "self._snapshot_version", "entry.version")) and rff.holds_at(node_of(rff.cfg, rets[0]), Fact("in", "key", "entry.before_images")) \
        and rff.holds_at(node_of(rff.cfg, rets[0]), Fact("ne", "IsolationLevel.READ_COMMITTED", "self._isolation"))
    loops = [s for s in walk_stmts(rd.node.body) if isinstance(s, ast.For) and path_of(s.iter) == "self._manager._commit_log"]
    ctx.ob("C14-6", "G7", rd, rets[0] if rets else None, ok and len(loops) == 1,
           "a snapshot-isolation / serializable read returns the before-image of the first commit newer than its snapshot that overwrote the key (reads come from one consistent snapshot)")
    # the store value is returned only if, after the store read's suspension, the commit log was scanned in the same step
    # (a commit landing while the read is suspended changes the store value *and* appends the before-image: both must be seen together)
    sv = [n for n in rff.cfg.nodes if n.kind == "stmt" and isinstance(n.ast, ast.Return) and path_of(n.ast.value) == "value"]
    lhead = [n for n in rff.cfg.nodes if n.kind == "for" and loops and n.ast is loops[0]]
    bad = []
    for rn in sv:
        for p in enumerate_paths(rff, rff.cfg.entry, stop=lambda x: x is rn):
            if not (p.end == "stop" and p.nodes[-1] is rn):
                continue
            snap = p.decided(lambda t: t == "self._isolation!=IsolationLevel.READ_COMMITTED")
            if snap is False:
                continue
            last = max([i for i, n in enumerate(p.nodes) if node_suspension(prog, rd, n)] or [-1])
            if not any(i > last and n in lhead for i, n in enumerate(p.nodes)):
                bad.append(p.describe()[:140])
    ctx.ob("C14-6", "G5", rd, sv[0].ast if sv else None, bool(sv) and not bad,
           "a snapshot read trusts the store value only after scanning the commit log in the step the store read returned (no commit can slip between the scan and the value)" + ("" if not bad else " — " + bad[0]))
    bi = [s for s in walk_stmts(cm.node.body) if isinstance(s, ast.Assign) and unparse(s.targets[0]).replace(" ", "") == "before_images[key]"]
    okb = len(bi) == 1 and isinstance(bi[0].value, ast.Call) and path_of(bi[0].value.func) == "self._manager._store.get_sync" and not always_before(ctx, cm, lambda x: x.ast is bi[0], lambda x: x is node_of(ff.cfg, writes[0]))
    if okb:
        # recorded for *every* written key (a key that did not exist yet has the before-image None — that is what a snapshot taken before must read)
        loops = [s2 for s2 in walk_stmts(cm.node.body) if isinstance(s2, ast.For) and any(x is bi[0] for x in ast.walk(s2))]
        okb = len(loops) == 1 and bi[0] in loops[0].body and "self._write_set" in unparse(loops[0].iter)
    kw = {k.arg: unparse(k.value) for c in calls_in(cm.node) if path_of(c.func) == "_CommitLogEntry" for k in c.keywords}
    ctx.ob("C14-6", "G2", cm, bi[0] if bi else None, okb and kw.get("before_images") == "before_images" and kw.get("version") == "self._manager._version",
           "each commit records, before overwriting, the value every written key had, under the new version number")
    ctx.floor("C14-6", 6)


def rule_memtable_apply(ctx: Ctx) -> None:
    from .common import applied_before_suspension
    applied_before_suspension(ctx, "C14-3", ctx.prog.func(MEMT, "Memtable.put"), "self._data[key]",
                              "Memtable.put applies the write before its latency suspends: a flush that swaps the memtable during the latency then carries the entry with it (written afterwards it would land in an already flushed, discarded memtable)")


def rule_bloom_dependency(ctx: Ctx) -> None:
    """C14-1 (dependency): SSTable.get consults its Bloom filter first and skips the table on False — sound only while the filter has no
    false negatives."""
    from .c20 import bloom_no_false_negatives

    bloom_no_false_negatives(ctx, "C14-1")
    sg = ctx.prog.func(SST, "SSTable.get")
    uses = [c for c in calls_in(sg.node) if isinstance(c.func, ast.Attribute) and c.func.attr in ("contains", "__contains__", "might_contain") and "bloom" in unparse(c.func.value).lower()]
    need(uses or any("bloom" in unparse(x).lower() for x in ast.walk(sg.node) if isinstance(x, ast.Compare)), "C14-1: SSTable.get no longer consults a Bloom filter (dependency clause is moot)")


def rule_overlap_is_closed_intersection(ctx: Ctx) -> None:
    """C14-2 (compaction picks every table that can hold an older version): `SSTable.overlaps` is decided by tabulation — the body is
    evaluated on every pair of key lists (empty, one key, two keys; keys 0..3, sorted) and must agree with closed-interval intersection
    `a.min <= b.max and b.min <= a.max` (both non-empty).  A strict comparison misses the table whose smallest key *is* the other's largest
    key: a tombstone for that key is then merged without the table that still holds the value, dropped at the last level, and the deleted
    key reads back."""
    import itertools

    fn = ctx.prog.func(SST, "SSTable.overlaps")
    params = [p_ for p_ in fn.params() if p_ != "self"]
    need(len(params) == 1, "C14-2: SSTable.overlaps takes one other table")
    lists = [[]] + [[a] for a in range(4)] + [[a, b] for a in range(4) for b in range(a, 4)]
    bad = None
    n = 0
    try:
        for ka, kb in itertools.product(lists, repeat=2):
            env = {"self": {"_keys": list(ka)}, params[0]: {"_keys": list(kb)}}
            got = bool(OrderEval(env).run(fn.node))
            want = bool(ka) and bool(kb) and ka[0] <= kb[-1] and kb[0] <= ka[-1]
            n += 1
            if got != want and bad is None:
                bad = f"keys {ka} vs {kb}: returns {got}, intersection is {want}"
    except NotTabulable as e:
        bad = f"not tabulable: {e}"
    ctx.ob("C14-2", "G3", fn, None, bad is None, f"SSTable.overlaps agrees with closed key-range intersection on all {n} pairs of small key lists" + ("" if bad is None else " — " + bad))


def compaction_latch_rules(ctx: Ctx, rule: str) -> None:
    """The single-flight latch of the asynchronous compaction is released only by the process that took it (C14-2; C15-3 as a dependency:
    `crash()` must not release it either — the suspended compaction is resumed by the engine after the crash and would overlap a new one,
    whose output it then overwrites with tables merged from pre-crash inputs)."""
    prog = ctx.prog
    n = 0
    for fn in [f for f in prog.module(LSM).all_functions if f.cls is not None and f.cls.name == "LSMTree"]:
        for st in walk_stmts(fn.node.body):
            tg = st.targets if isinstance(st, ast.Assign) else [st.target] if isinstance(st, (ast.AnnAssign, ast.AugAssign)) else []
            if not any(path_of(t) == "self._compaction_in_progress" for t in tg):
                continue
            n += 1
            v = getattr(st, "value", None)
            if fn.name == "__init__":
                ok = isinstance(v, ast.Constant) and v.value is False
            elif isinstance(v, ast.Constant) and v.value is True:
                ok = fn.name == "_compact"
            else:
                # released: only in the `finally` of the try that runs the compaction, in the function that took the latch
                ok = fn.name == "_compact" and any(isinstance(t_, ast.Try) and any(x is st for x in t_.finalbody) for t_ in walk_stmts(fn.node.body))
            ctx.ob(rule, "G6", fn, st, ok, f"{fn.qual}: `{norm_stmt(st)}` — the compaction latch is taken and released only by `_compact` (release in its `finally`); nobody else may clear it while that process is suspended")
    need(n >= 3, f"{rule}: expected the three latch writes (init, take, release), found {n}")


def run(ctx: Ctx) -> None:
    ctx.guarded(lambda c_: compaction_latch_rules(c_, "C14-2"))
    ctx.guarded(rule_overlap_is_closed_intersection)
    ctx.guarded(rule_bloom_dependency)
    ctx.guarded(rule_memtable_apply)
    ctx.guarded(rule_read_paths)
    ctx.guarded(rule_flush_and_iteration)
    ctx.guarded(rule_compaction)
    ctx.guarded(rule_btree_and_kv)
    ctx.guarded(rule_transactions)


MUTANTS = [
    ("sstable-overlap-strict-at-the-shared-key", SST, "        return self._keys[0] <= other._keys[-1] and other._keys[0] <= self._keys[-1]", "        return self._keys[0] < other._keys[-1] and other._keys[0] <= self._keys[-1]", "C14-2"),
    ("same-level-compaction-appends", LSM, "                self._levels[target_level].insert(0, new_sst)\n", "                self._levels[target_level].append(new_sst)\n", "C14-2"),
    ("lsm-get-none-falls-through", LSM, "        if value is not None or self._memtable.contains(key):\n            self._total_read_hits += 1\n            if value is _TOMBSTONE:\n                return None\n            return value\n\n        # Check immutable memtables\n        for imm in reversed(self._immutable_memtables):\n            value = imm.get_sync(key)\n            if value is not None or imm.contains(key):\n                self._total_read_hits += 1\n                if value is _TOMBSTONE:\n                    return None\n                return value\n\n        # Check each level, L0 first (most recent). Iterate", "        if value is not None:\n            self._total_read_hits += 1\n            if value is _TOMBSTONE:\n                return None\n            return value\n\n        # Check immutable memtables\n        for imm in reversed(self._immutable_memtables):\n            value = imm.get_sync(key)\n            if value is not None or imm.contains(key):\n                self._total_read_hits += 1\n                if value is _TOMBSTONE:\n                    return None\n                return value\n\n        # Check each level, L0 first (most recent). Iterate", "C14-1"),
    ("compaction-resorts-selection-by-sequence", LSM, "        # Merge all selected SSTables\n        # Process from oldest to newest so newer values win\n", "        # Merge all selected SSTables\n        sstables = sorted(sstables, key=lambda sst: sst.sequence)\n", "C14-2"),
    ("memtable-put-applies-after-latency", MEMT, "        self._data[key] = value\n        self._total_writes += 1\n        self._total_bytes_written += 64  # estimate\n        yield self._write_latency\n", "        self._total_writes += 1\n        self._total_bytes_written += 64  # estimate\n        yield self._write_latency\n        self._data[key] = value\n", "C14-3"),
    ("before-image-skipped-for-new-keys", TXN, "            before_images[key] = self._manager._store.get_sync(key)", "            if self._manager._store.get_sync(key) is not None:\n                before_images[key] = self._manager._store.get_sync(key)", "C14-6"),
    ("btree-post-split-routes-left", BT, "            if key >= node.keys[idx]:\n                idx += 1", "            idx = bisect.bisect_left(node.keys, key)", "C14-8"),
    ("btree-delete-routes-left", BT, "        while not node.leaf:\n            idx = bisect.bisect_right(node.keys, key)\n            node = node.children[idx]\n\n        idx = bisect.bisect_left(node.keys, key)\n        if idx < len(node.keys) and node.keys[idx] == key:\n            node.keys.pop(idx)", "        while not node.leaf:\n            idx = bisect.bisect_left(node.keys, key)\n            node = node.children[idx]\n\n        idx = bisect.bisect_left(node.keys, key)\n        if idx < len(node.keys) and node.keys[idx] == key:\n            node.keys.pop(idx)", "C14-8"),
    ("snapshot-scan-before-store-read", TXN, ["        # Read from underlying store\n        value = yield from self._manager._store.get(key)\n        if self._isolation", "                    return entry.before_images[key]\n        return value"],
     ["        if self._isolation", "                    return entry.before_images[key]\n        value = yield from self._manager._store.get(key)\n        return value"], "C14-6"),
    ("get-immutables-oldest-first", LSM, "        # Check immutable memtables\n        for imm in reversed(self._immutable_memtables):\n            value = imm.get_sync(key)\n            if value is not None or imm.contains(key):\n                self._total_read_hits += 1\n                if value is _TOMBSTONE:",
     "        # Check immutable memtables\n        for imm in self._immutable_memtables:\n            value = imm.get_sync(key)\n            if value is not None or imm.contains(key):\n                self._total_read_hits += 1\n                if value is _TOMBSTONE:", "C14-1"),
    ("get-sstables-oldest-first", LSM, "            # L0: check all SSTables (may have overlapping key ranges)\n            for sstable in reversed(level):", "            # L0: check all SSTables (may have overlapping key ranges)\n            for sstable in level:", "C14-1"),
    ("get-returns-tombstone", LSM, "                if result is not None or sstable.has_key(key):\n                    self._total_read_hits += 1\n                    if result is _TOMBSTONE:\n                        return None\n                    return result", "                if result is not None or sstable.has_key(key):\n                    self._total_read_hits += 1\n                    return result", "C14-1"),
    ("get-sync-levels-before-immutables", LSM, "        for imm in reversed(self._immutable_memtables):\n            value = imm.get_sync(key)\n            if value is not None or imm.contains(key):\n                self._total_read_hits += 1\n                return None if value is _TOMBSTONE else value\n", "", "C14-1"),
    ("scan-last-wins", LSM, "                for k, v in sstable.scan(start_key, end_key):\n                    if k not in merged:\n                        merged[k] = v", "                for k, v in sstable.scan(start_key, end_key):\n                    merged[k] = v", "C14-1"),
    ("scan-keeps-tombstones", LSM, "        result = [(k, v) for k, v in sorted(merged.items()) if v is not _TOMBSTONE]", "        result = [(k, v) for k, v in sorted(merged.items())]", "C14-1"),
    ("flush-publishes-after-latency", LSM, ["        self._levels[0].append(sstable)\n\n        # Write latency for creating SSTable on disk", "            return\n\n        self._total_memtable_flushes += 1\n"],
     ["        # Write latency for creating SSTable on disk", "            return\n\n        self._levels[0].append(sstable)\n        self._total_memtable_flushes += 1\n"], "C14-3"),
    ("get-iterates-live-levels", LSM, "        for level in [list(level) for level in self._levels]:\n            # L0: check all SSTables", "        for level in self._levels:\n            # L0: check all SSTables", "C14-4"),
    ("scan-iterates-live-level", LSM, "        for level in [list(level) for level in self._levels]:\n            for sstable in reversed(level):\n                page_reads = sstable.page_reads_for_scan", "        for level in self._levels:\n            for sstable in reversed(level):\n                page_reads = sstable.page_reads_for_scan", "C14-4"),
    ("compact-target-oldest-first", LSM, "        # that a newer table's value wins when two of them hold the same key\n        overlapping = []\n        if target_level != source_level:\n            for sst in reversed(self._levels[target_level]):",
     "        # that a newer table's value wins when two of them hold the same key\n        overlapping = []\n        if target_level != source_level:\n            for sst in self._levels[target_level]:", "C14-2"),
    ("compact-not-single-flight", LSM, "        if self._compaction_in_progress:\n            return\n        self._compaction_in_progress = True\n        try:", "        self._compaction_in_progress = True\n        try:", "C14-2"),
    ("compact-drops-tombstones-everywhere", LSM, "        # Filter out tombstones in the deepest level\n        if target_level == self._max_levels - 1:", "        # Filter out tombstones in the deepest level\n        if target_level >= 1:", "C14-5"),
    ("compact-swap-across-yield", LSM, "            # Write latency\n            pages = max(1, new_sst.key_count // 16)\n            yield pages * self._sstable_write_latency\n\n            # Remove old SSTables and add new one\n            for sst in sstables:\n                if sst in self._levels[source_level]:\n                    self._levels[source_level].remove(sst)",
     "            # Remove old SSTables and add new one\n            for sst in sstables:\n                if sst in self._levels[source_level]:\n                    self._levels[source_level].remove(sst)\n            # Write latency\n            pages = max(1, new_sst.key_count // 16)\n            yield pages * self._sstable_write_latency\n", "C14-2"),
    ("btree-get-holds-node", BT, "        for _ in range(self._depth):\n            self._total_page_reads += 1\n            yield self._page_read_latency\n\n        node = self._root\n        while not node.leaf:", "        node = self._root\n        for _ in range(self._depth):\n            self._total_page_reads += 1\n            yield self._page_read_latency\n\n        while not node.leaf:", "C14-8"),
    ("commit-suspends-before-log", TXN, "        # Record in commit log\n        self._manager._version += 1", "        # Record in commit log\n        yield 0.00001\n        self._manager._version += 1", "C14-6"),
    ("serializable-skips-wr", TXN, "                # Write-read conflict: another tx read a key we want to write\n                if set(tx._write_set.keys()) & entry.keys_read:\n                    return True\n", "", "C14-6"),
    ("si-read-ignores-snapshot", TXN, "                if entry.version > self._snapshot_version and key in entry.before_images:", "                if key in entry.before_images:", "C14-6"),
    ("commit-before-image-after-write", TXN, "            before_images[key] = self._manager._store.get_sync(key)\n            self._manager._store.put_sync(key, value)", "            self._manager._store.put_sync(key, value)\n            before_images[key] = self._manager._store.get_sync(key)", "C14-6"),
]
REFACTORS = [
    ("sstable-overlap-as-not-disjoint", SST, "        return self._keys[0] <= other._keys[-1] and other._keys[0] <= self._keys[-1]", "        if self._keys[-1] < other._keys[0]:\n            return False\n        return not other._keys[-1] < self._keys[0]"),
    ("get-snapshot-via-tuple", LSM, "        for level in [list(level) for level in self._levels]:\n            # L0: check all SSTables", "        for level in tuple(tuple(level) for level in self._levels):\n            # L0: check all SSTables"),
]
