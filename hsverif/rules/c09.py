"""C09 — capacity primitives never over-admit or leak, wake in order, and let time pass (structural clauses)."""

from __future__ import annotations

import ast

from ..astutil import calls_in, norm_stmt, parse_expr, path_of, subst, unparse, walk_scope, walk_stmts
from ..cfg import own_exprs
from ..facts import Fact, atoms, enumerate_paths
from ..report import Ctx
from ..suspend import node_suspension, zero_delay_wait_loops
from .common import always_before, guard, guard_latch, holds_with_callers, increment_of, need, node_of, stmts_matching

RES = "happysimulator/components/resource.py"
PRE = "happysimulator/components/industrial/preemptible_resource.py"
MUT = "happysimulator/components/sync/mutex.py"
SEM = "happysimulator/components/sync/semaphore.py"
RWL = "happysimulator/components/sync/rwlock.py"
BAR = "happysimulator/components/sync/barrier.py"
CON = "happysimulator/components/sync/condition.py"
BH = "happysimulator/components/resilience/bulkhead.py"
POOL = "happysimulator/components/client/connection_pool.py"
CONC = "happysimulator/components/server/concurrency.py"

EXPLANATION = (
    "G1 bound table over every capacity primitive: each statement that takes capacity (decrement of available/permits, setting a lock "
    "flag, incrementing readers / active count / connections / used capacity) must be dominated — on every path, with facts killed at "
    "writes, calls and suspension points, or as a precondition at every call site — by the comparison that proves the bound; each "
    "statement that returns capacity must be dominated by the upper-bound test or be a clamped write. G2 wake pairing: a waiter leaves "
    "the wait queue on exactly the paths on which it is woken, head-first, and the wake loop stops at the first waiter that does not "
    "fit. Waiting parks on a SimFuture wired to the waiter's callback (no polling). No suspension between a capacity test and the "
    "reservation it justifies (connection pool)."
)
RULE_TEXT = "One instance per capacity-taking / capacity-returning statement, per wake loop, per blocking acquire. Distinct by (rule, construct)."
NOT_DECIDED = ["timeout accuracy of the connection pool's polling wait", "numeric utilisation statistics",
               "try_acquire may still take free capacity ahead of queued waiters (non-blocking API, by design)"]
ASSUMPTIONS = ["handlers are atomic between suspension points", "SimFuture.resolve resumes the parked process at the resolving instant (C02)"]

# (module, function, statement pattern, requirement(s), description, any_of)
TAKE = [
    (RES, "Resource.acquire", "self._available -= _A_", ["self._available >= _A_"], "Resource immediate grant fits", False),
    (RES, "Resource.acquire", "self._available -= _A_", ["not self._waiters"], "Resource immediate grant never overtakes queued waiters (arrival order)", False),
    (RES, "Resource.try_acquire", "self._available -= _A_", ["self._available >= _A_"], "Resource.try_acquire fits", False),
    (RES, "Resource._wake_waiters", "self._available -= _A_", ["self._available >= _A_"], "Resource wake grant fits", False),
    (PRE, "PreemptibleResource._grant_immediate", "self._available -= _A_", ["self._available >= _A_"], "PreemptibleResource grant fits (at every call site)", False),
    (SEM, "Semaphore.try_acquire", "self._count -= _A_", ["self._count >= _A_"], "Semaphore permits available", False),
    (SEM, "Semaphore._wake_waiters", "self._count -= _A_", ["self._count >= _A_"], "Semaphore wake grant fits", False),
    (MUT, "Mutex.try_acquire", "self._locked = True", ["not self._locked"], "Mutex taken only when free", False),
    (RWL, "RWLock.try_acquire_write", "self._write_locked = True", ["not self._write_locked", "not self._active_readers > 0"], "writer excludes everyone", False),
    (RWL, "RWLock.try_acquire_read", "self._active_readers += 1", ["not self._write_locked", "not self._has_waiting_writer()"], "readers exclude writers (and do not starve a waiting writer)", False),
    (RWL, "RWLock._wake_waiters", "self._write_locked = True", ["not self._write_locked", "self._active_readers == 0"], "woken writer excludes everyone", False),
    (RWL, "RWLock._wake_waiters", "self._active_readers += 1", ["not self._write_locked"], "woken readers exclude writers", False),
    (BH, "Bulkhead._forward_request", "self._active_count += 1", ["self._active_count < self._max_concurrent"], "bulkhead admits below its concurrency limit (at every call site)", False),
    (CONC, "FixedConcurrency.acquire", "self._active += 1", ["not self._active >= self._max_concurrent"], "fixed concurrency limit", False),
    (CONC, "DynamicConcurrency.acquire", "self._active += 1", ["not self._active >= self._current_limit"], "dynamic concurrency limit", False),
    (CONC, "WeightedConcurrency.acquire", "self._used_capacity += _W_", ["not self._used_capacity + _W_ > self._total_capacity"], "weighted capacity limit", False),
]
GIVE = [
    (RES, "Resource._do_release", "self._available += _A_", ["not self._available + _A_ > self._capacity"], "release never pushes available above capacity", False),
    (SEM, "Semaphore.release", "self._count += _A_", ["not self._count + _A_ > self._capacity"], "release never pushes permits above capacity", False),
    (RWL, "RWLock.release_read", "self._active_readers -= 1", ["not self._active_readers < 1"], "release_read needs an active reader", False),
    (RWL, "RWLock.release_write", "self._write_locked = False", ["self._write_locked"], "release_write needs the write lock", False),
    (MUT, "Mutex.release", "self._locked = False", ["self._locked", "not self._waiters"], "mutex unlocked only when held and nobody waits (else direct hand-off)", False),
]


def rule_bounds(ctx: Ctx) -> None:
    prog = ctx.prog
    for table, rule in ((TAKE, "C09-1"), (GIVE, "C09-1")):
        for rel, q, pat, reqs, what, any_of in table:
            fn = prog.func(rel, q)
            for r in reqs:
                guard(ctx, rule, fn, pat, r, what)
    # max_readers: on every path to a reader increment, the limit is unset or not reached
    for q in ("RWLock.try_acquire_read", "RWLock._wake_waiters"):
        fn = prog.func(RWL, q)
        ff = ctx.flow(fn)
        for st, _ in stmts_matching(fn, "self._active_readers += 1"):
            node = node_of(ff.cfg, st)
            bad = []
            for p in enumerate_paths(ff, ff.cfg.entry, stop=lambda n: n is node):
                if not (p.end == "stop" and p.nodes[-1] is node):
                    continue
                unset = p.decided(lambda t: t == "self._max_readers")
                reached = p.decided(lambda t: t == "self._active_readers>=self._max_readers")
                if not (unset is False or reached is False):
                    bad.append(p.describe())
            ctx.ob("C09-1", "G1", fn, norm_stmt(st) + " [max_readers]", not bad, "reader admitted only while max_readers is unset or not reached" + ("" if not bad else ": " + bad[0]), node=st)
    # clamped returns
    for rel, q, attr in ((CONC, "FixedConcurrency.release", "_active"), (CONC, "DynamicConcurrency.release", "_active"), (CONC, "WeightedConcurrency.release", "_used_capacity"),
                         (BH, "Bulkhead._handle_response", "_active_count")):
        fn = prog.func(rel, q)
        ws = [s for s in walk_stmts(fn.node.body) if isinstance(s, ast.Assign) and path_of(s.targets[0]) == f"self.{attr}"]
        ok = len(ws) == 1 and isinstance(ws[0].value, ast.Call) and path_of(ws[0].value.func) == "max" and any(isinstance(a, ast.Constant) and a.value == 0 for a in ws[0].value.args) \
            and any(isinstance(a, ast.BinOp) and isinstance(a.op, ast.Sub) and path_of(a.left) == f"self.{attr}" for a in ws[0].value.args)
        ctx.ob("C09-1", "G6", fn, ws[0] if ws else None, ok, f"{q}: the in-use count is returned with a floor at zero (never negative, never increased by a release)")
    # has_capacity ⇔ acquire would succeed (predicate agreement)
    for cname, deny in (("FixedConcurrency", "self._active >= self._max_concurrent"), ("DynamicConcurrency", "self._active >= self._current_limit"),
                        ("WeightedConcurrency", "self._used_capacity + weight > self._total_capacity")):
        hc = prog.func(CONC, f"{cname}.has_capacity")
        rets = [s for s in walk_stmts(hc.node.body) if isinstance(s, ast.Return) and s.value is not None]
        acq = prog.func(CONC, f"{cname}.acquire")
        denies = [s for s in walk_stmts(acq.node.body) if isinstance(s, ast.If) and any(isinstance(b, ast.Return) and isinstance(b.value, ast.Constant) and b.value.value is False for b in s.body)]
        ok = False
        if len(rets) == 1 and denies:
            have = {f.sig for f in atoms(rets[0].value, True)}
            want = {f.sig for f in atoms(denies[-1].test, False)}
            ok = have == want
        ctx.ob("C09-1", "G4", hc, rets[0] if rets else None, ok, f"{cname}.has_capacity(w) ⇔ acquire(w) would succeed (same predicate)")
    # Bulkhead queued admission goes through the same guard
    bh = prog.cls(BH, "Bulkhead")
    ctx.floor("C09-1", 30)


def _wake_loop(ctx: Ctx, rel: str, q: str, queue: str, grant_pred, wake_pred, what: str) -> None:
    """Per iteration path of a head-first wake loop: (pop head + grant + wake exactly once) or break/stop."""
    prog = ctx.prog
    fn = prog.func(rel, q)
    ff = ctx.flow(fn)
    loops = [s for s in walk_stmts(fn.node.body) if isinstance(s, ast.While) and path_of(s.test) == queue]
    need(loops, f"C09-2: no `while {queue}` wake loop in {q}")
    for lp in loops:
        head = ff.cfg.nodes[node_of(ff.cfg, lp.body[0]).in_loops[-1]]
        bad = []
        kinds = {"woken": 0, "stop": 0}
        for p in enumerate_paths(ff, head, stop=lambda n: n is head):
            entered = [l for n, l in zip(p.nodes, p.labels) if n.kind == "test" and l is not None]
            if not entered or entered[0][1] is not True:
                continue  # loop not entered
            pops = sum(1 for n in p.nodes for e in own_exprs(n) for c in walk_scope(e) if isinstance(c, ast.Call) and (
                (path_of(c.func) == f"{queue}.popleft") or (path_of(c.func) in ("heapq.heappop",) and c.args and path_of(c.args[0]) == queue)))
            wakes = sum(1 for n in p.nodes for e in own_exprs(n) for c in walk_scope(e) if isinstance(c, ast.Call) and wake_pred(c))
            heads = [n.ast for n in p.nodes if n.kind == "stmt" and isinstance(n.ast, ast.Assign) and isinstance(n.ast.value, ast.Subscript) and path_of(n.ast.value.value) == queue]
            if pops or wakes:
                kinds["woken"] += 1
                if pops != 1 or wakes != 1:
                    bad.append(f"path [{p.describe()}]: removed {pops} waiter(s) but woke {wakes}")
                if heads and not (isinstance(heads[0].value.slice, ast.Constant) and heads[0].value.slice.value == 0):
                    bad.append("the examined waiter is not the head of the queue")
                if p.end != "stop":
                    bad.append(f"path [{p.describe()}] wakes a waiter and leaves the loop (later waiters that fit are not served)")
            else:
                kinds["stop"] += 1
                if p.end == "stop" and p.nodes and p.nodes[-1] is head and len(p.nodes) > 2:
                    bad.append(f"path [{p.describe()}] loops again without serving the head (skips a blocked head: not FIFO)")
        need(kinds["woken"], f"C09-2: wake loop of {q} has no waking path")
        ctx.ob("C09-2", "G2", fn, lp, not bad, f"{what}: a waiter is removed from the head exactly when it is woken, once; the loop stops at the first waiter that does not fit ({kinds})"
               + ("" if not bad else " — " + "; ".join(bad[:2])))


def rule_wake(ctx: Ctx) -> None:
    prog = ctx.prog
    _wake_loop(ctx, RES, "Resource._wake_waiters", "self._waiters", None,
               lambda c: isinstance(c.func, ast.Attribute) and c.func.attr == "resolve" and (path_of(c.func.value) or "").endswith(".future"), "Resource")
    _wake_loop(ctx, SEM, "Semaphore._wake_waiters", "self._waiters", None,
               lambda c: isinstance(c.func, ast.Attribute) and c.func.attr == "callback", "Semaphore")
    _wake_loop(ctx, RWL, "RWLock._wake_waiters", "self._waiters", None,
               lambda c: isinstance(c.func, ast.Attribute) and c.func.attr == "callback", "RWLock readers")
    _wake_loop(ctx, PRE, "PreemptibleResource._wake_waiters", "self._waiters", None,
               lambda c: path_of(c.func) == "self._grant_immediate", "PreemptibleResource")
    # Mutex hand-off: pop + callback + stays locked; RWLock writer wake: pop + lock + callback
    mr = prog.func(MUT, "Mutex.release")
    ff = ctx.flow(mr)
    bad = []
    for p in enumerate_paths(ff, ff.cfg.entry):
        if p.end != "exit":
            continue
        pops = sum(1 for n in p.nodes for e in own_exprs(n) for c in walk_scope(e) if isinstance(c, ast.Call) and path_of(c.func) == "self._waiters.popleft")
        cbs = sum(1 for n in p.nodes for e in own_exprs(n) for c in walk_scope(e) if isinstance(c, ast.Call) and isinstance(c.func, ast.Attribute) and c.func.attr == "callback")
        unlocked = any(n.kind == "stmt" and isinstance(n.ast, ast.Assign) and path_of(n.ast.targets[0]) == "self._locked" and isinstance(n.ast.value, ast.Constant) and n.ast.value.value is False for n in p.nodes)
        if pops != cbs or pops > 1:
            bad.append(f"path [{p.describe()}]: popped {pops}, woke {cbs}")
        if pops and unlocked:
            bad.append(f"path [{p.describe()}] hands the lock over and also unlocks it")
        if not pops and not unlocked:
            bad.append(f"path [{p.describe()}] neither hands over nor unlocks")
    ctx.ob("C09-2", "G2", mr, "hand-off or unlock", not bad, "Mutex.release wakes exactly the head waiter (lock stays held for it) or unlocks when nobody waits" + ("" if not bad else ": " + "; ".join(bad[:2])))
    guard(ctx, "C09-2", mr, "self._releases += 1", "self._locked", "releasing an unlocked mutex is an error")
    # Grant.release latch
    gr = prog.func(RES, "Grant.release")
    guard_latch(ctx, "C09-2", gr, "self._released", "self._resource._do_release(self._amount)", "a grant returns its capacity at most once")
    # every release path wakes: capacity that comes back is offered to the queue at once, on every (non-raising) path
    for rel, q in ((RES, "Resource._do_release"), (SEM, "Semaphore.release"), (RWL, "RWLock.release_read"), (RWL, "RWLock.release_write"), (PRE, "PreemptibleResource._do_release")):
        fn = prog.func(rel, q)
        rff = ctx.flow(fn)
        bad = []
        for p in enumerate_paths(rff, rff.cfg.entry):
            if p.end != "exit":
                continue
            wakes = sum(1 for n in p.nodes for e in own_exprs(n) for c in walk_scope(e) if isinstance(c, ast.Call) and path_of(c.func) == "self._wake_waiters")
            if wakes != 1:
                bad.append(f"path [{p.describe()}] calls _wake_waiters {wakes}x")
        ctx.ob("C09-2", "G2", fn, "release ⇒ wake", not bad,
               f"{q}: every release offers the freed capacity to the wait queue (one _wake_waiters call on every path) — blocked acquirers are granted as soon as capacity allows"
               + ("" if not bad else " — " + bad[0]))
    ctx.floor("C09-2", 12)


def rule_blocking_waits(ctx: Ctx) -> None:
    """C09-3: blocked acquirers park on a future wired to their waiter's callback — they do not poll."""
    prog = ctx.prog
    sites = [(MUT, "Mutex.acquire"), (SEM, "Semaphore.acquire"), (RWL, "RWLock.acquire_read"), (RWL, "RWLock.acquire_write"), (BAR, "Barrier.wait"), (CON, "Condition.wait")]
    for rel, q in sites:
        fn = prog.func(rel, q)
        wl = zero_delay_wait_loops(prog, fn)
        loops = [s for s in walk_stmts(fn.node.body) if isinstance(s, ast.While) and any(isinstance(n, (ast.Yield, ast.YieldFrom)) for b in s.body for n in walk_scope(b))]
        need(loops, f"C09-3: {q} has no waiting loop")
        ok = not wl
        detail = ""
        for lp in loops:
            ys = [n for b in lp.body for n in walk_scope(b) if isinstance(n, ast.Yield)]
            futs = {path_of(y.value) for y in ys if y.value is not None and path_of(y.value)}
            # the yielded object must be a SimFuture created in this function whose resolve is the waiter's wake-up
            created = {path_of(s.targets[0]) for s in walk_stmts(fn.node.body) if isinstance(s, ast.Assign) and isinstance(s.value, ast.Call) and path_of(s.value.func) == "SimFuture"}
            wired = {path_of(k.value.value) for c in calls_in(fn.node) for k in c.keywords if k.arg == "callback" and isinstance(k.value, ast.Attribute) and k.value.attr == "resolve"}
            if not futs or not futs <= created or not futs <= wired:
                ok = False
                detail = f"loop `while {unparse(lp.test)}` yields {sorted(futs) or [unparse(y.value) for y in ys]}; futures created {sorted(created)}, wired to a waiter callback {sorted(wired)}"
        ctx.ob("C09-3", "G5", fn, loops[0], ok,
               f"{q}: a blocked caller parks on a SimFuture that the release/notify path resolves through the waiter's callback (waiting consumes no simulated activity)"
               + ("" if ok else " — " + (detail or "zero-delay polling loop")))
    # Resource waits on a future too
    ra = prog.func(RES, "Resource.acquire")
    w = [c for c in calls_in(ra.node) if path_of(c.func) == "_Waiter"]
    rets = [s for s in walk_stmts(ra.node.body) if isinstance(s, ast.Return)]
    ok = len(w) == 1 and any(k.arg == "future" and path_of(k.value) == "future" for k in w[0].keywords) and all(path_of(r.value) == "future" for r in rets)
    ctx.ob("C09-3", "G5", ra, w[0] if w else None, ok, "Resource.acquire hands back the very future its queued waiter record holds")
    ctx.floor("C09-3", 7)


def rule_pool(ctx: Ctx) -> None:
    """C09-4: ConnectionPool — the slot is reserved before the first suspension, under the capacity test, and rolled back on failure."""
    prog = ctx.prog
    cc = prog.func(POOL, "ConnectionPool._create_connection")
    ff = ctx.flow(cc)
    incs = [s for s in walk_stmts(cc.node.body) if increment_of(s, "self._total_connections") == 1]
    need(len(incs) == 1, f"C09-4: _create_connection should reserve exactly one slot (found {len(incs)})")
    inc_node = node_of(ff.cfg, incs[0])
    # no suspension before the reservation
    susp_before = []
    for p in enumerate_paths(ff, ff.cfg.entry, stop=lambda n: n is inc_node):
        if p.end == "stop" and p.nodes[-1] is inc_node:
            susp_before += [n for n in p.nodes[:-1] if node_suspension(prog, cc, n)]
    ctx.ob("C09-4", "G5", cc, incs[0], not susp_before,
           "the connection slot is counted before the first suspension of the set-up (acquirers arriving during the set-up latency see it)"
           + ("" if not susp_before else f" — suspends first at line {susp_before[0].lineno}"))
    # the capacity test holds at every call site, with no suspension between the test and the call
    for r in ("self._total_connections < self._max_connections", "self._total_connections < self._min_connections"):
        pass
    from .common import method_callers

    callers = method_callers(prog, cc)
    need(callers, "C09-4: _create_connection has no caller")
    for caller, call in callers:
        cff = ctx.flow(caller)
        node = node_of(cff.cfg, call)
        ok = cff.holds_at(node, Fact("lt", "self._total_connections", "self._max_connections")) or cff.holds_at(node, Fact("lt", "self._total_connections", "self._min_connections"))
        ctx.ob("C09-4", "G1", caller, call, ok,
               f"{caller.qual}: a connection is created only under `total < max` (or `< min` during warm-up), with no suspension between the test and the reservation"
               + ("" if ok else f"; facts: {cff.describe(node)}"))
    # rollback on failure
    decs = [s for s in walk_stmts(cc.node.body) if increment_of(s, "self._total_connections") == -1]
    in_handler = False
    catches_all = False
    for st in walk_stmts(cc.node.body):
        if isinstance(st, ast.Try):
            for h in st.handlers:
                if any(d in list(walk_stmts(h.body)) for d in decs) and any(isinstance(x, ast.Raise) for x in walk_stmts(h.body)):
                    in_handler = True
                    # an abandoned set-up (owner crashed, generator closed) raises GeneratorExit, which is not an Exception
                    catches_all = h.type is None or path_of(h.type) == "BaseException"
            if st.finalbody and any(d in list(walk_stmts(st.finalbody)) for d in decs):
                in_handler = catches_all = True
    ctx.ob("C09-4", "G2", cc, decs[0] if decs else None, len(decs) == 1 and in_handler, "a failed set-up gives the reserved slot back (and re-raises)")
    ctx.ob("C09-4", "G2", cc, "rollback also on abandonment", catches_all,
           "the rollback covers every way the suspended set-up can end, including the generator being closed (GeneratorExit is a BaseException, not an Exception) — otherwise the slot leaks")
    # min <= max validated at construction (so the warm-up guard implies the max guard)
    init = prog.func(POOL, "ConnectionPool.__init__")
    chk = [s for s in walk_stmts(init.node.body) if isinstance(s, ast.If) and "min_connections" in unparse(s.test) and "max_connections" in unparse(s.test) and any(isinstance(b, ast.Raise) for b in s.body)]
    ctx.ob("C09-4", "G1", init, chk[0] if chk else None, bool(chk), "min_connections <= max_connections is enforced at construction")
    # closing a connection gives the slot back exactly once
    cl = prog.func(POOL, "ConnectionPool._close_connection") if prog.try_func(POOL, "ConnectionPool._close_connection") else None
    if cl is not None:
        d = [s for s in walk_stmts(cl.node.body) if increment_of(s, "self._total_connections") == -1]
        ctx.ob("C09-4", "G2", cl, d[0] if d else None, len(d) == 1, "closing a connection returns exactly one slot")
    ctx.floor("C09-4", 4)


def rule_round2(ctx: Ctx) -> None:
    prog = ctx.prog
    from .common import counting_symmetry
    n = counting_symmetry(ctx, "C09-1", CONC)
    need(n >= 3, f"C09-1: expected >= 3 counting concurrency models, found {n}")
    # grants: capacity is handed back at most once — the latch release() tests is set by every way a grant can end
    n_g = 0
    for rel, cname in ((RES, "Grant"), (PRE, "PreemptibleGrant")):
        c = prog.cls(rel, cname)
        rl = c.methods["release"]
        rf = ctx.flow(rl)
        latch = set()
        for st in walk_stmts(rl.node.body):
            if isinstance(st, ast.If) and any(isinstance(b, ast.Return) for b in st.body):
                latch |= {f.a for f in atoms(st.test, True) if f.op == "truthy"}
        back = [k for k in calls_in(rl.node) if isinstance(k.func, ast.Attribute) and k.func.attr in ("_do_release", "_release")]
        ok = bool(latch) and len(back) == 1
        if ok:
            sets = [st for st in walk_stmts(rl.node.body) if isinstance(st, ast.Assign) and path_of(st.targets[0]) in latch and isinstance(st.value, ast.Constant) and st.value.value is True]
            ok = len(sets) == 1 and not always_before(ctx, rl, lambda x: x.ast is sets[0], lambda x: x is node_of(rf.cfg, back[0]))
        ctx.ob("C09-2", "G2", rl, back[0] if back else None, ok, f"{cname}.release returns its capacity once: guarded by the latch {sorted(latch)}, which it sets before handing the units back")
        n_g += 1
        for m in c.methods.values():
            if m.name in ("__init__", "release"):
                continue
            ends = [st for st in walk_stmts(m.node.body) if isinstance(st, ast.Assign) and (path_of(st.targets[0]) or "").startswith("self._") and isinstance(st.value, ast.Constant) and st.value.value is True]
            if ends:
                n_g += 1
                ok2 = any(path_of(st.targets[0]) in latch for st in ends)
                ctx.ob("C09-2", "G2", m, ends[0], ok2, f"{cname}.{m.name} ends the grant ({', '.join(sorted(path_of(e.targets[0]) for e in ends))}) and therefore also sets release()'s latch: a later release() must not credit the units a second time")
    need(n_g >= 3, f"C09-2: expected >= 3 grant-ending sites, found {n_g}")
    # pool waiter: after every sleep the hand-off flag is read before the wait can be given up
    aq = prog.func(POOL, "ConnectionPool.acquire")
    af = ctx.flow(aq)
    give_up = [nd for nd in af.cfg.nodes if any(isinstance(k, ast.Call) and path_of(k.func) == "self._remove_waiter" for e in own_exprs(nd) for k in walk_scope(e))]
    sleeps = [nd for nd in af.cfg.nodes if nd.kind == "stmt" and isinstance(nd.ast, ast.Expr) and isinstance(nd.ast.value, ast.Yield) and path_of(nd.ast.value.value) == "poll_interval"]
    ok = len(give_up) == 1 and len(sleeps) >= 1
    bad = []
    if ok:
        for sl in sleeps:
            for p in enumerate_paths(af, sl, stop=lambda x: x is give_up[0]):
                if p.end == "stop" and p.nodes[-1] is give_up[0]:
                    if not any(nd.kind == "test" and unparse(nd.ast).replace(" ", "") == "received[0]" for nd in p.nodes[1:]):
                        bad.append(p.describe()[:120] or "<loop exit>")
    ctx.ob("C09-4", "G5", aq, sleeps[0].ast if sleeps else None, ok and not bad, "a queued ConnectionPool waiter re-reads the hand-off flag after every sleep before it gives up (a connection handed over during the last poll interval must not be left with a waiter that timed out)"
           + ("" if not bad else " — path to the timeout without the check: " + bad[0]))


def rule_hunted(ctx: Ctx) -> None:
    """Rules distilled from hunted defects.
    C09-1: the blocking acquire of a FIFO primitive takes its non-blocking fast path (`try_acquire`) only when nobody is queued — arrival order.
    C09-2: a preemption that returned capacity is followed by a look at the waiter queue on every path (else a waiter stays parked next to
    free capacity until some later release).
    C09-3: a barrier distinguishes "tripped" from "reset/aborted" when it releases parked parties, and wait() raises on the latter —
    nobody passes a barrier that fewer than `parties` reached."""
    prog = ctx.prog
    n = 0
    for rel, q in ((SEM, "Semaphore.acquire"), (RES, "Resource.acquire")):
        fn = prog.func(rel, q)
        ff = ctx.flow(fn)
        fast = [nd for nd in ff.cfg.nodes if nd.kind == "test" and any(isinstance(k.func, ast.Attribute) and k.func.attr == "try_acquire" and path_of(k.func.value) == "self" for k in calls_in(nd.ast))]
        for nd in fast:
            n += 1
            ok = ff.holds_at(nd, Fact("falsy", "self._waiters"))
            ctx.ob("C09-1", "G1", fn, nd.ast, ok, f"{q}: the non-blocking fast path is tried only when no earlier request is queued (`not self._waiters`) — a late small request must not overtake a queued one")
    need(n >= 1, "C09-1: no try_acquire fast path found in Semaphore.acquire / Resource.acquire")
    pa = prog.func(PRE, "PreemptibleResource.acquire")
    pf = ctx.flow(pa)
    pre = [nd for nd in pf.cfg.nodes if nd.kind == "stmt" and any(path_of(k.func) == "self._try_preempt" for k in calls_in(nd.ast))]
    need(len(pre) == 1, "C09-2: PreemptibleResource.acquire should attempt a preemption at one site")
    holder = path_of(pre[0].ast.targets[0]) if isinstance(pre[0].ast, ast.Assign) else None
    bad = []
    for p_ in enumerate_paths(pf, pre[0], stop=lambda x: x is pf.cfg.exit):
        if p_.end not in ("exit", "stop"):
            continue
        woke = any(nd.kind == "stmt" and any(path_of(k.func) == "self._wake_waiters" for k in calls_in(nd.ast)) for nd in p_.nodes)
        nothing_freed = holder is not None and p_.decided(lambda t: t == holder) is False
        if not (woke or nothing_freed):
            bad.append(p_.describe()[:90])
    ctx.ob("C09-2", "G2", pa, pre[0].ast, holder is not None and not bad, "PreemptibleResource.acquire: after a preemption every path either found that nothing was freed or calls `_wake_waiters()` "
           "(evicting a whole grant can free more than the preemptor needs)" + ("" if not bad else " — " + bad[0]))
    bw = prog.func(BAR, "Barrier.wait")
    outcomes = {}
    for q in ("Barrier._break_barrier", "Barrier.reset", "Barrier.abort"):
        f_ = prog.func(BAR, q)
        cbs = [k for k in calls_in(f_.node) if isinstance(k.func, ast.Attribute) and k.func.attr == "callback"]
        outcomes[q] = [unparse(k.args[0]) if k.args else None for k in cbs]
    okb = outcomes["Barrier._break_barrier"] == ["True"] and outcomes["Barrier.reset"] == ["False"] and outcomes["Barrier.abort"] == ["False"]
    bf = ctx.flow(bw)
    raises = [nd for nd in bf.cfg.nodes if nd.kind == "stmt" and isinstance(nd.ast, ast.Raise) and (bf.holds_at(nd, Fact("is", "released.value", "False")) or bf.holds_at(nd, Fact("falsy", "released.value")))]
    ctx.ob("C09-3", "G3", bw, raises[0].ast if raises else None, okb and bool(raises), "Barrier: parked parties are released with True when the last party arrives and with False by reset()/abort(), and wait() raises "
           f"on False — a reset or aborted barrier lets nobody pass (outcomes {outcomes})")


def run(ctx: Ctx) -> None:
    ctx.guarded(rule_hunted)
    ctx.guarded(rule_bounds)
    ctx.guarded(rule_wake)
    ctx.guarded(rule_blocking_waits)
    ctx.guarded(rule_pool)
    ctx.guarded(rule_round2)


MUTANTS = [
    ("semaphore-barging-restored", SEM, "        if not self._waiters and self.try_acquire(count):", "        if self.try_acquire(count):", "C09-1"),
    ("preemption-surplus-not-offered", PRE, "                self._grant_immediate(future, amount, priority, on_preempt)\n                # The evicted grants may have held more than we need: hand the\n                # surplus to queued waiters now, not at some later release()\n                self._wake_waiters()\n", "                self._grant_immediate(future, amount, priority, on_preempt)\n", "C09-2"),
    ("barrier-reset-releases-like-trip", BAR, "            waiter.callback(False)\n\n        # Reset to clean state", "            waiter.callback(True)\n\n        # Reset to clean state", "C09-3"),
    ("fixed-release-by-weight", CONC, "            weight: Ignored for FixedConcurrency (always 1).\n        \"\"\"\n        self._active = max(0, self._active - 1)", "            weight: Ignored for FixedConcurrency (always 1).\n        \"\"\"\n        self._active = max(0, self._active - weight)", "C09-1"),
    ("preempt-leaves-release-latch-open", PRE, "        self._preempted = True\n        self._released = True\n", "        self._preempted = True\n", "C09-2"),
    ("pool-waiter-sleeps-after-check", POOL, ["            yield poll_interval\n            elapsed += poll_interval\n\n            if received[0]:", "                    break\n\n        # Timeout - remove ourselves from waiters"], ["            if received[0]:", "                    break\n            yield poll_interval\n            elapsed += poll_interval\n\n        # Timeout - remove ourselves from waiters"], "C09-4"),
    ("resource-barging-restored", RES, "        if not self._waiters and self._available >= amount:", "        if self._available >= amount:", "C09-1"),
    ("resource-grant-gt", RES, "        if not self._waiters and self._available >= amount:", "        if not self._waiters and self._available > amount - 1:", "C09-1"),
    ("resource-try-acquire-ge-zero", RES, "        if self._available >= amount:\n            self._available -= amount\n            self._acquisitions += 1\n            self._update_peak_utilization()\n            return Grant(self, amount)", "        if self._available >= 0:\n            self._available -= amount\n            self._acquisitions += 1\n            self._update_peak_utilization()\n            return Grant(self, amount)", "C09-1"),
    ("resource-release-unbounded", RES, "        if future_available > self._capacity:", "        if future_available > self._capacity * 2:", "C09-1"),
    ("resource-wake-skips-head", RES, "            else:\n                # Not enough capacity for head-of-line waiter — stop\n                break", "            else:\n                self._waiters.rotate(-1)", "C09-2"),
    ("resource-wake-no-pop", RES, "                self._waiters.popleft()\n                self._available -= waiter.amount", "                self._available -= waiter.amount", "C09-2"),
    ("grant-release-not-idempotent", RES, "        if self._released:\n            return\n        self._released = True\n        self._resource._do_release(self._amount)", "        self._released = True\n        self._resource._do_release(self._amount)", "C09-2"),
    ("semaphore-wake-overgrants", SEM, "            if self._count >= waiter.count:\n                # Can satisfy this waiter", "            if self._count >= 1:\n                # Can satisfy this waiter", "C09-1"),
    ("semaphore-release-unbounded", SEM, "        if future_count > self._capacity:", "        if False:", "C09-1"),
    ("mutex-try-acquire-steals", MUT, "        if self._locked:\n            return False\n\n        self._locked = True", "        self._locked = True", "C09-1"),
    ("mutex-release-unlocks-on-handoff", MUT, "            # Lock transfers directly to next waiter\n            self._locked = True\n            return []", "            # Lock transfers directly to next waiter\n            self._locked = False\n            return []", "C09-1"),
    ("mutex-release-wakes-without-pop", MUT, "            waiter = self._waiters.popleft()\n            waiter.callback()", "            waiter = self._waiters[0]\n            waiter.callback()", "C09-2"),
    ("rwlock-writer-with-readers", RWL, "        if self._write_locked or self._active_readers > 0:\n            return False", "        if self._write_locked:\n            return False", "C09-1"),
    ("rwlock-reader-during-write", RWL, "        if self._write_locked:\n            return False\n        if self._has_waiting_writer():", "        if self._has_waiting_writer():", "C09-1"),
    ("rwlock-wake-writer-with-readers", RWL, "            if self._active_readers == 0:\n                self._waiters.popleft()", "            if self._active_readers >= 0:\n                self._waiters.popleft()", "C09-1"),
    ("rwlock-max-readers-ignored-on-wake", RWL, "                if self._max_readers and self._active_readers >= self._max_readers:\n                    break\n\n                self._waiters.popleft()", "                self._waiters.popleft()", "C09-1"),
    ("bulkhead-admits-at-limit", BH, "        if self._active_count < self._max_concurrent:\n            return self._forward_request(event)", "        if self._active_count <= self._max_concurrent:\n            return self._forward_request(event)", "C09-1"),
    ("fixed-concurrency-off-by-one", CONC, "        if self._active >= self._max_concurrent:\n            return False", "        if self._active > self._max_concurrent:\n            return False", "C09-1"),
    ("weighted-has-capacity-disagrees", CONC, "        if self._used_capacity + weight > self._total_capacity:\n            return False", "        if self._used_capacity + weight >= self._total_capacity:\n            return False", "C09-1"),
    ("mutex-polls-again", MUT, "        while not acquired.is_resolved:\n            yield acquired", "        while not acquired.is_resolved:\n            yield 0.0", "C09-3"),
    ("semaphore-future-not-wired", SEM, "        waiter = _Waiter(count=count, callback=acquired.resolve, enqueue_time_ns=enqueue_time)", "        waiter = _Waiter(count=count, callback=lambda: None, enqueue_time_ns=enqueue_time)", "C09-3"),
    ("pool-counts-after-latency", POOL, ["        self._total_connections += 1\n        try:\n", "        self._connections_created += 1\n"], ["        try:\n", "        self._total_connections += 1\n        self._connections_created += 1\n"], "C09-4"),
    ("pool-no-rollback", POOL, "            self._total_connections -= 1\n            raise", "            raise", "C09-4"),
]
MUTANTS += [
    ("rwlock-release-read-wakes-only-when-empty", RWL, "        self._active_readers -= 1\n        self._read_releases += 1\n\n        self._wake_waiters()", "        self._active_readers -= 1\n        self._read_releases += 1\n\n        if self._active_readers == 0:\n            self._wake_waiters()", "C09-2"),
    ("pool-rollback-only-exception", POOL, "        except BaseException:", "        except Exception:", "C09-4"),
]
REFACTORS = [
    ("resource-acquire-nested", RES, "        if not self._waiters and self._available >= amount:", "        if self._available >= amount and not self._waiters:"),
    ("semaphore-try-early-return", SEM, "        if self._count >= count:\n            self._count -= count\n            self._acquisitions += count\n            return True\n\n        return False",
     "        if self._count < count:\n            return False\n        self._count -= count\n        self._acquisitions += count\n        return True"),
    ("resource-release-inline", RES, "        future_available = self._available + amount\n        if future_available > self._capacity:", "        if self._available + amount > self._capacity:"),
]
