"""C02 — generator processes and futures resume at the right instant, value, and once (structural clauses)."""

from __future__ import annotations

import ast

from .. import AnalysisError
from ..astutil import calls_in, match, norm_stmt, parse_expr, path_of, unparse, walk_scope, walk_stmts
from ..cfg import own_exprs
from ..facts import Fact, atoms, enumerate_paths
from ..report import Ctx
from .common import always_before, guard, ingredients_along, need, node_of, stmts_matching

EV = "happysimulator/core/event.py"
FUT = "happysimulator/core/sim_future.py"

EXPLANATION = (
    "Static rule checking of ProcessContinuation/Event.invoke and SimFuture: constructor-keyword provenance of every "
    "continuation (same generator, hooks, context, target, daemon; time = self.time + yielded delay, or the fresh clock for "
    "future resumption), per-path return discipline (delay path returns side effects + continuation; StopIteration path runs "
    "completion hooks exactly once and returns value + hook events; future path parks and schedules nothing), one-shot hook list, "
    "resolve() latch, park/resume protocol, any_of/all_of callback bookkeeping."
)
RULE_TEXT = (
    "Instances: one per continuation construction site and keyword, one per feasible path of the invoke functions, one per "
    "guarded write in SimFuture, one per combinator clause. Non-trivial = anchor exists and obligation evaluated; distinct by (rule, construct)."
)
NOT_DECIDED = [
    "Python's own generator semantics (send, yield from)",
    "float→ns truncation of sub-nanosecond delays; negative delays",
    "that user code resolves futures only inside a running simulation",
]
ASSUMPTIONS = ["CPython generator protocol", "EventHeap/loop deliver a pushed continuation once (C01)"]


def _unique_assign(fn, name: str) -> ast.AST | None:
    vals = []
    for st in walk_stmts(fn.node.body):
        if isinstance(st, ast.Assign):
            for t in st.targets:
                if isinstance(t, ast.Name) and t.id == name:
                    vals.append(st.value)
                elif isinstance(t, (ast.Tuple, ast.List)):
                    for i, el in enumerate(t.elts):
                        if isinstance(el, ast.Name) and el.id == name:
                            vals.append(ast.Subscript(value=st.value, slice=ast.Constant(i), ctx=ast.Load()))
        elif isinstance(st, ast.AnnAssign) and isinstance(st.target, ast.Name) and st.target.id == name and st.value is not None:
            vals.append(st.value)
    return vals[0] if len(vals) == 1 else None


def _kw(call: ast.Call) -> dict[str, ast.AST]:
    return {k.arg: k.value for k in call.keywords if k.arg}


def _ctor_sites(fn, cls_name: str) -> list[ast.Call]:
    return [c for c in calls_in(fn.node) if path_of(c.func) == cls_name]


def rule_continuation_provenance(ctx: Ctx) -> None:
    prog = ctx.prog
    # (a) ProcessContinuation.invoke: delay path
    inv = prog.func(EV, "ProcessContinuation.invoke")
    sites = _ctor_sites(inv, "ProcessContinuation")
    need(len(sites) == 1, f"C02-1: expected one ProcessContinuation(...) site in {inv.key}, found {len(sites)}")
    kw = _kw(sites[0])
    same = {"event_type": "self.event_type", "daemon": "self.daemon", "target": "self.target", "on_complete": "self.on_complete",
            "process": "self.process", "context": "self.context"}
    for k, want in same.items():
        got = path_of(kw.get(k)) if k in kw else None
        ctx.ob("C02-1", "G7", inv, f"ProcessContinuation({k}=…)", got == want,
               f"the next continuation must carry the same `{k}` object (`{want}`), got `{unparse(kw.get(k))}`", node=sites[0])
    # time = self.time + delay, delay = _normalize_yield(<value sent back by the generator>)[0]
    t = kw.get("time")
    texpr = t
    if isinstance(t, ast.Name):
        texpr = _unique_assign(inv, t.id)
    ok = False
    why = f"time expression `{unparse(t)}`"
    if isinstance(texpr, ast.BinOp) and isinstance(texpr.op, ast.Add):
        ops = [texpr.left, texpr.right]
        base = [o for o in ops if path_of(o) == "self.time"]
        other = [o for o in ops if path_of(o) != "self.time"]
        if len(base) == 1 and len(other) == 1 and isinstance(other[0], ast.Name):
            d = _unique_assign(inv, other[0].id)
            # delay must be element 0 of self._normalize_yield(<yielded>)
            if isinstance(d, ast.Subscript) and isinstance(d.slice, ast.Constant) and d.slice.value == 0 and isinstance(d.value, ast.Call) \
                    and path_of(d.value.func) == "self._normalize_yield" and len(d.value.args) == 1:
                y = d.value.args[0]
                ysrc = _unique_assign(inv, y.id) if isinstance(y, ast.Name) else None
                if isinstance(ysrc, ast.Call) and path_of(ysrc.func) == "self.process.send":
                    ok = True
                else:
                    why = f"delay is normalised from `{unparse(y)}` which is not the value returned by self.process.send(...)"
            else:
                why = f"delay `{other[0].id}` is not element 0 of self._normalize_yield(...)"
        else:
            why = f"`{unparse(texpr)}` is not `self.time + <delay>`"
    else:
        why = f"`{unparse(texpr)}` is not an addition on self.time"
    ctx.ob("C02-1", "G7", inv, "ProcessContinuation(time=…)", ok,
           "after yielding a delay d the process resumes exactly d later: continuation time must be `self.time + delay` with delay taken "
           "from the yielded value and nothing else — " + ("holds" if ok else "FAILS: " + why), node=sites[0])
    # send value is what the future/continuation carries
    sends = [c for c in calls_in(inv.node) if path_of(c.func) == "self.process.send"]
    need(len(sends) == 1, "C02-1: expected exactly one self.process.send(...) in ProcessContinuation.invoke")
    ctx.ob("C02-1", "G7", inv, sends[0], len(sends[0].args) == 1 and path_of(sends[0].args[0]) == "self._send_value",
           "the generator is advanced exactly once per invocation with `self._send_value`")

    # (b) Event._start_process
    sp = prog.func(EV, "Event._start_process")
    sites = _ctor_sites(sp, "ProcessContinuation")
    need(len(sites) == 1, "C02-1: expected one ProcessContinuation(...) site in Event._start_process")
    kw = _kw(sites[0])
    gen_param = [p for p in sp.params() if p != "self"][0]
    want_map = {"time": "self.time", "event_type": "self.event_type", "daemon": "self.daemon", "target": "self.target",
                "on_complete": "self.on_complete", "context": "self.context", "process": gen_param}
    for k, want in want_map.items():
        got = path_of(kw.get(k)) if k in kw else None
        ctx.ob("C02-1", "G7", sp, f"ProcessContinuation({k}=…)", got == want,
               f"a started process begins at the event's own instant and shares its `{k}` (`{want}`), got `{unparse(kw.get(k))}`", node=sites[0])
    rets = [s for s in walk_stmts(sp.node.body) if isinstance(s, ast.Return)]
    holder = None
    for st in walk_stmts(sp.node.body):
        if isinstance(st, ast.Assign) and st.value is sites[0] and isinstance(st.targets[0], ast.Name):
            holder = st.targets[0].id
    ok = len(rets) == 1 and isinstance(rets[0].value, ast.Call) and isinstance(rets[0].value.func, ast.Attribute) \
        and rets[0].value.func.attr == "invoke" and (path_of(rets[0].value.func.value) == holder or rets[0].value.func.value is sites[0])
    ctx.ob("C02-1", "G2", sp, rets[0] if rets else None, ok, "the new process is advanced to its first yield immediately (returns continuation.invoke())")

    # (c) SimFuture._resume / _park
    rs = prog.func(FUT, "SimFuture._resume")
    sites = _ctor_sites(rs, "ProcessContinuation")
    need(len(sites) == 1, "C02-1: expected one ProcessContinuation(...) site in SimFuture._resume")
    kw = _kw(sites[0])
    want_map = {"event_type": "self._parked_event_type", "daemon": "self._parked_daemon", "target": "self._parked_target",
                "process": "self._parked_process", "on_complete": "self._parked_on_complete", "context": "self._parked_context"}
    for k, want in want_map.items():
        got = path_of(kw.get(k)) if k in kw else None
        ctx.ob("C02-1", "G7", rs, f"ProcessContinuation({k}=…)", got == want,
               f"a resumed process continues the parked `{k}` (`{want}`), got `{unparse(kw.get(k))}`", node=sites[0])
    t = kw.get("time")
    tp = path_of(t) or ""
    clock_src = None
    if tp.endswith(".now"):
        clock_src = _unique_assign(rs, tp.split(".")[0])
    ok = isinstance(clock_src, ast.Call) and path_of(clock_src.func) == "_active_clock_var.get"
    ctx.ob("C02-1", "G7", rs, "ProcessContinuation(time=…)", ok,
           f"a parked process is resumed at the instant the future is resolved: time must be the active clock's `now`, got `{unparse(t)}`", node=sites[0])
    # park stores every field of the continuation
    pk = prog.func(FUT, "SimFuture._park")
    cparam = [p for p in pk.params() if p != "self"][0]
    want_store = {"_parked_process": "process", "_parked_event_type": "event_type", "_parked_daemon": "daemon", "_parked_target": "target",
                  "_parked_on_complete": "on_complete", "_parked_context": "context"}
    for attr, src in want_store.items():
        sts = [s for s in walk_stmts(pk.node.body) if isinstance(s, ast.Assign) and path_of(s.targets[0]) == f"self.{attr}"]
        ok = len(sts) == 1 and path_of(sts[0].value) == f"{cparam}.{src}"
        ctx.ob("C02-1", "G7", pk, f"self.{attr} = …", ok, f"_park must store the continuation's `{src}` in `{attr}`",
               node=sts[0] if sts else pk.node)
    # the constructors keep the very list / dict they are given (identity test, not truthiness: an empty hook list
    # is falsy, and replacing it breaks the sharing between an event and its continuation)
    for q in ("Event.__init__", "ProcessContinuation.__init__"):
        fn = prog.func(EV, q)
        for attr in ("on_complete", "context"):
            sts = [s_ for s_ in walk_stmts(fn.node.body) if isinstance(s_, ast.Assign) and path_of(s_.targets[0]) == f"self.{attr}"]
            if attr == "context" and q == "Event.__init__":
                # two-branch form: `if context is not None: self.context = context ... else: {...}`
                keep = [s_ for s_ in sts if path_of(s_.value) == attr]
                okc = False
                if keep:
                    ffc = ctx.flow(fn)
                    okc = ffc.holds_at(node_of(ffc.cfg, keep[0]), Fact("isnot", attr, "None"))
                ctx.ob("C02-1", "G7", fn, f"self.{attr} keeps the given object", okc, f"{q}: a caller-supplied `{attr}` (even an empty one) is stored as the same object")
                continue
            ok = False
            if len(sts) == 1 and isinstance(sts[0].value, ast.IfExp):
                t = sts[0].value
                f = atoms(t.test, True)
                if len(f) == 1 and f[0].sig == ("isnot", attr, "None") and path_of(t.body) == attr:
                    ok = True
                if len(f) == 1 and f[0].sig == ("is", attr, "None") and path_of(t.orelse) == attr:
                    ok = True
            ctx.ob("C02-1", "G7", fn, f"self.{attr} keeps the given object", ok,
                   f"{q}: a caller-supplied `{attr}` (even an empty one) is stored as the same object — the continuation shares the event's hook list, so hooks added later still run")
    ctx.floor("C02-1", 28)


def _ret_ingredients(ctx, fn, start_node=None, *, want_paths=None):
    ff = ctx.flow(fn)
    start = start_node or ff.cfg.entry
    return ff, enumerate_paths(ff, start)


def rule_return_discipline(ctx: Ctx) -> None:
    prog = ctx.prog
    inv = prog.func(EV, "ProcessContinuation.invoke")
    ff = ctx.flow(inv)
    cfg = ff.cfg
    send_call = [c for c in calls_in(inv.node) if path_of(c.func) == "self.process.send"][0]
    send_node = node_of(cfg, send_call)
    yv = send_node.ast.targets[0].id if isinstance(send_node.ast, ast.Assign) and isinstance(send_node.ast.targets[0], ast.Name) else None
    need(yv, "C02-2: result of process.send not bound to a name")
    ctor = _ctor_sites(inv, "ProcessContinuation")[0]
    ctor_node = node_of(cfg, ctor)
    cont_name = ctor_node.ast.targets[0].id if isinstance(ctor_node.ast, ast.Assign) and isinstance(ctor_node.ast.targets[0], ast.Name) else None
    need(cont_name, "C02-2: next continuation not bound to a name")

    def n_calls(p, attr_path: str) -> int:
        return sum(1 for n in p.nodes for e in own_exprs(n) for c in walk_scope(e) if isinstance(c, ast.Call) and path_of(c.func) == attr_path)

    paths = enumerate_paths(ff, send_node)
    bad = []
    kinds = {"future": 0, "delay": 0}
    for p in paths:
        if p.end != "exit":
            continue
        _, rets = ingredients_along(p.nodes)
        ret_ing = rets[-1][1] if rets else set()
        is_future = p.decided(lambda t: t == f"isinstance({yv},SimFuture)") is True
        hooks = n_calls(p, "self._run_completion_hooks")
        if is_future:
            kinds["future"] += 1
            parks = n_calls(p, f"{yv}._park")
            built = any(n is ctor_node for n in p.nodes)
            if parks != 1 or built or ret_ing or hooks:
                bad.append(f"future path [{p.describe()}]: _park x{parks}, continuation built={built}, returns {sorted(ret_ing)}, hooks x{hooks} "
                           "(want: park once, schedule nothing, no hooks)")
        else:
            kinds["delay"] += 1
            built = sum(1 for n in p.nodes if n is ctor_node)
            if built != 1 or cont_name not in ret_ing or hooks:
                bad.append(f"delay path [{p.describe()}]: continuation built x{built}, returned list holds {sorted(ret_ing)}, hooks x{hooks} "
                           f"(want: one continuation `{cont_name}` in the returned list, no hooks)")
            # side effects: second element of normalize_yield must be in the returned list
            se = [i for i in ret_ing if "_normalize_yield" in i and i.endswith("[1]")]
            nothing_yielded = any(k_[0] == "is" and k_[2] == "None" and k_[1] == "side_effects" for k_ in p.facts)
            if not se and not any("side_effects" == i for i in ret_ing) and not nothing_yielded:
                bad.append(f"delay path [{p.describe()}]: events yielded alongside the delay are not in the returned list {sorted(ret_ing)}")
    need(kinds["future"] and kinds["delay"], f"C02-2: invoke lacks future or delay path {kinds}")
    ctx.ob("C02-2", "G2", inv, "send → park | schedule", not bad,
           f"per-path return discipline after process.send ({kinds}): " + ("ok" if not bad else "; ".join(bad[:3])), node=send_call)

    # StopIteration handler
    handlers = [n for n in cfg.nodes if n.kind == "handler" and n.ast.type is not None and path_of(n.ast.type) == "StopIteration"]
    need(len(handlers) == 1, "C02-2: no `except StopIteration` handler in ProcessContinuation.invoke")
    h = handlers[0]
    ename = h.ast.name
    bad = []
    hp = [p for p in enumerate_paths(ff, h) if p.end == "exit"]
    need(hp, "C02-2: StopIteration handler has no returning path")
    for p in hp:
        hooks = n_calls(p, "self._run_completion_hooks")
        _, rets = ingredients_along(p.nodes)
        ing = rets[-1][1] if rets else set()
        has_hooks = any("_run_completion_hooks" in i for i in ing)
        has_val = any("_normalize_return" in i and f"{ename}.value" in i for i in ing)
        if hooks != 1 or not has_hooks or not has_val:
            bad.append(f"finish path [{p.describe()}]: hooks x{hooks}, returned {sorted(ing)} (want hooks once, return value ∪ hook events)")
        # hooks run at the finishing instant
        for n in p.nodes:
            for e in own_exprs(n):
                for c in walk_scope(e):
                    if isinstance(c, ast.Call) and path_of(c.func) == "self._run_completion_hooks":
                        if not (len(c.args) == 1 and path_of(c.args[0]) == "self.time"):
                            bad.append("completion hooks must be run with the finishing instant `self.time`")
    ctx.ob("C02-2", "G2", inv, "except StopIteration", not bad,
           "when the generator finishes, its return events and its completion hooks take effect exactly once at that instant — "
           + ("ok" if not bad else "; ".join(bad[:3])), node=h.ast)

    # Event.invoke: generator path must not run hooks, immediate path runs them once
    einv = prog.func(EV, "Event.invoke")
    eff = ctx.flow(einv)
    hcalls = [c for c in calls_in(einv.node) if isinstance(c.func, ast.Attribute) and c.func.attr == "handle_event"]
    need(len(hcalls) == 1, "C02-2: expected one handle_event call in Event.invoke")
    hn = node_of(eff.cfg, hcalls[0])
    need(isinstance(hn.ast, ast.Assign) and path_of(hcalls[0].func.value) == "self.target", "C02-2: handle_event result not bound / not on self.target")
    rv = hn.ast.targets[0].id
    ok_arg = len(hcalls[0].args) == 1 and path_of(hcalls[0].args[0]) == "self"
    ctx.ob("C02-2", "G7", einv, hcalls[0], ok_arg, "the handler receives the event itself")
    bad = []
    kinds = {"process": 0, "immediate": 0}
    for p in enumerate_paths(eff, hn):
        if p.end != "exit":
            continue
        hooks = n_calls(p, "self._run_completion_hooks")
        _, rets = ingredients_along(p.nodes)
        ing = rets[-1][1] if rets else set()
        is_gen = p.decided(lambda t: t.startswith(f"isinstance({rv},Generator")) is True
        if is_gen:
            kinds["process"] += 1
            starts = n_calls(p, "self._start_process")
            if hooks or starts != 1 or not any("_start_process" in i for i in ing):
                bad.append(f"generator path [{p.describe()}]: hooks x{hooks}, _start_process x{starts}, returns {sorted(ing)}")
        else:
            kinds["immediate"] += 1
            if hooks != 1 or not any("_run_completion_hooks" in i for i in ing) or not any("_normalize_return" in i for i in ing):
                bad.append(f"immediate path [{p.describe()}]: hooks x{hooks}, returns {sorted(ing)} (want hooks once, handler events ∪ hook events)")
    need(kinds["process"] and kinds["immediate"], f"C02-2: Event.invoke lacks a path kind {kinds}")
    ctx.ob("C02-2", "G2", einv, "handle_event → process | immediate", not bad,
           f"Event.invoke return discipline ({kinds}): " + ("ok" if not bad else "; ".join(bad[:3])), node=hcalls[0])

    # _normalize_yield / _normalize_return shapes
    ny = prog.func(EV, "ProcessContinuation._normalize_yield")
    nff = ctx.flow(ny)
    vparam = [p for p in ny.params() if p != "self"][0]
    bad = []
    seen = {"tuple": 0, "number": 0}
    for p in enumerate_paths(nff, nff.cfg.entry):
        if p.end != "exit":
            continue
        r = [n.ast for n in p.nodes if n.kind == "stmt" and isinstance(n.ast, ast.Return)][-1]
        is_tuple = p.decided(lambda t: t == f"isinstance({vparam},tuple)") is True
        is_num = p.decided(lambda t: t.startswith(f"isinstance({vparam},(int,float)")) is True
        env, rets = ingredients_along(p.nodes)
        if not (isinstance(r.value, ast.Tuple) and len(r.value.elts) == 2):
            bad.append(f"path [{p.describe()}] does not return a (delay, effects) pair")
            continue
        d, eff_ = r.value.elts
        dtxt = unparse(d)
        if is_tuple:
            seen["tuple"] += 1
            dsrc = env.get(unparse(d.args[0]), {unparse(d.args[0])}) if isinstance(d, ast.Call) and path_of(d.func) == "float" and d.args else set()
            if not any(s == f"{vparam}[0]" for s in dsrc):
                bad.append(f"tuple path: delay `{dtxt}` is not float({vparam}[0]) (sources {sorted(dsrc)})")
            def src_(e_):
                # sources of the returned effects whether it is a local, or a display written in the return itself (`[effects]`, `[]`)
                if isinstance(e_, (ast.List, ast.Tuple)):
                    return set().union(*[src_(x_.value if isinstance(x_, ast.Starred) else x_) for x_ in e_.elts]) if e_.elts else set()
                return set(env.get(unparse(e_), {unparse(e_)}))
            esrc = src_(eff_)
            none_branch = p.decided(lambda t: t.endswith("isNone")) is True
            if not none_branch and not any(f"{vparam}[1]" in s_ for s_ in esrc):
                bad.append(f"tuple path: effects `{unparse(eff_)}` do not come from {vparam}[1] (sources {sorted(esrc)})")
            if any(f"{vparam}[1]" not in s_ and s_ != unparse(eff_) and not any(isinstance(x_, ast.Name) and x_.id == s_ for x_ in ast.walk(eff_)) for s_ in esrc):
                bad.append(f"tuple path: effects carry something other than {vparam}[1]: {sorted(esrc)}")
        elif is_num:
            seen["number"] += 1
            if dtxt != f"float({vparam})":
                bad.append(f"numeric path: delay `{dtxt}` is not float({vparam})")
    need(seen["tuple"] and seen["number"], f"C02-2: _normalize_yield lacks tuple/number path {seen}")
    ctx.ob("C02-2", "G3", ny, None, not bad, "yield normalisation: `yield d` → (float(d), []), `yield (d, events)` → (float(d), events) — "
           + ("ok" if not bad else "; ".join(bad[:3])))
    ctx.floor("C02-2", 5)


def rule_hooks_one_shot(ctx: Ctx) -> None:
    prog = ctx.prog
    fn = prog.func(EV, "Event._run_completion_hooks")
    ff = ctx.flow(fn)
    tparam = [p for p in fn.params() if p != "self"][0]
    # the loop that calls hooks
    loops = [st for st in walk_stmts(fn.node.body) if isinstance(st, ast.For)]
    call_loop = None
    for lp in loops:
        tv = path_of(lp.target)
        if any(isinstance(c.func, ast.Name) and c.func.id == tv for c in calls_in(lp)):
            call_loop = lp
    need(call_loop is not None, "C02-3: no loop calling the hooks in _run_completion_hooks")
    it = path_of(call_loop.iter)
    src = None
    for st in walk_stmts(fn.node.body):
        if isinstance(st, ast.Assign) and path_of(st.targets[0]) == it:
            src = st.value
    is_copy = isinstance(src, ast.Call) and ((path_of(src.func) in ("list", "tuple") and src.args and path_of(src.args[0]) == "self.on_complete")
                                             or (isinstance(src.func, ast.Attribute) and src.func.attr == "copy" and path_of(src.func.value) == "self.on_complete"))
    is_copy = is_copy or (isinstance(src, ast.Subscript) and path_of(src.value) == "self.on_complete")
    ctx.ob("C02-3", "G2", fn, call_loop, bool(is_copy), f"hooks are called from a private copy of the hook list (iterates `{it}` = `{unparse(src)}`)")
    loop_node = node_of(ff.cfg, call_loop)

    def is_clear(n) -> bool:
        for e in own_exprs(n):
            for c in walk_scope(e):
                if isinstance(c, ast.Call) and path_of(c.func) == "self.on_complete.clear":
                    return True
            if n.kind == "stmt" and isinstance(n.ast, ast.Assign) and path_of(n.ast.targets[0]) == "self.on_complete" \
                    and isinstance(n.ast.value, ast.List) and not n.ast.value.elts:
                return True
        return False

    missing = always_before(ctx, fn, is_clear, lambda n: n.ast is loop_node.ast)
    ctx.ob("C02-3", "G2", fn, "on_complete cleared before first hook", not missing,
           "the shared hook list is emptied before the first hook runs (one-shot even if a hook re-enters or the list is shared with a continuation)",
           node=call_loop)
    # every hook is called exactly once per iteration with the finishing time, and its result is kept
    hv = path_of(call_loop.target)
    hcalls = [c for c in calls_in(call_loop) if isinstance(c.func, ast.Name) and c.func.id == hv]
    ok = len(hcalls) == 1 and len(hcalls[0].args) == 1 and path_of(hcalls[0].args[0]) == tparam
    ctx.ob("C02-3", "G2", fn, hcalls[0] if hcalls else call_loop, ok, "each hook is invoked exactly once with the finishing instant")
    rets = [s for s in walk_stmts(fn.node.body) if isinstance(s, ast.Return)]
    rname = path_of(rets[-1].value) if rets else None
    grows = [c for c in calls_in(call_loop) if isinstance(c.func, ast.Attribute) and c.func.attr in ("append", "extend") and path_of(c.func.value) == rname]
    ctx.ob("C02-3", "G2", fn, rets[-1] if rets else None, len(grows) >= 2,
           "events returned by hooks (single or list) are collected into the returned list")
    ctx.floor("C02-3", 4)


def rule_future_latch(ctx: Ctx) -> None:
    prog = ctx.prog
    rs = prog.func(FUT, "SimFuture.resolve")
    guard(ctx, "C02-4", rs, "self._resolved = True", "not self._resolved", "resolve() is a latch (second resolve has no effect)")
    guard(ctx, "C02-4", rs, "self._resume()", "self._parked_process is not None", "resume only with a parked process")
    # everything resolve() does is dominated by the latch statement (which itself requires `not _resolved`)
    latch = stmts_matching(rs, "self._resolved = True")
    need(len(latch) == 1, "C02-4: resolve() must set the latch exactly once")
    for pat, what in (("self._value = _V_", "the resolved value is written once"), ("self._resume()", "resume at most once per resolve"),
                      ("self._fire_callbacks()", "settle callbacks fire once")):
        for st, _ in stmts_matching(rs, pat):
            missing = always_before(ctx, rs, lambda n: n.ast is latch[0][0], lambda n, st=st: n.ast is st)
            ctx.ob("C02-4", "G1", rs, st, not missing, f"{what}: `{norm_stmt(st)}` only runs behind the `_resolved` latch (set under `not _resolved`)")
    # every resolving path: value stored, callbacks fired exactly once, parked process resumed iff there is one
    rff0 = ctx.flow(rs)
    bad = []
    for pth in enumerate_paths(rff0, rff0.cfg.entry):
        if pth.end != "exit":
            continue
        latched = any(n.ast is latch[0][0] for n in pth.nodes)
        fires = sum(1 for n in pth.nodes for e in own_exprs(n) for c in walk_scope(e) if isinstance(c, ast.Call) and path_of(c.func) == "self._fire_callbacks")
        resumes = sum(1 for n in pth.nodes for e in own_exprs(n) for c in walk_scope(e) if isinstance(c, ast.Call) and path_of(c.func) == "self._resume")
        parked = pth.decided(lambda t: t == "self._parked_processisnotNone")
        if latched and fires != 1:
            bad.append(f"path [{pth.describe()}] fires settle callbacks {fires}x (any_of/all_of waiting on this future would never be told)")
        if latched and parked is True and resumes != 1:
            bad.append(f"path [{pth.describe()}] has a parked process but resumes {resumes}x")
        if not latched and (fires or resumes):
            bad.append(f"path [{pth.describe()}] acts without setting the latch")
    ctx.ob("C02-4", "G2", rs, "each first resolve: fire callbacks once, resume iff parked", not bad,
           "on every path that resolves the future, settle callbacks fire exactly once and a parked process (if any) is resumed exactly once — both a direct waiter and combinators can depend on one future"
           + ("" if not bad else " — " + "; ".join(bad[:2])))
    vparam = [p for p in rs.params() if p != "self"][0]
    sts = stmts_matching(rs, "self._value = _V_")
    ctx.ob("C02-4", "G7", rs, sts[0][0], path_of(sts[0][1]["_V_"]) == vparam, "the stored value is the value passed to resolve()")
    # `_resolved = True` must precede `_resume()` (so that the latch is set when the continuation is scheduled)
    ff = ctx.flow(rs)
    res_nodes = [n for n in ff.cfg.nodes if n.kind == "stmt" and any(isinstance(c, ast.Call) and path_of(c.func) == "self._resume" for c in calls_in(n.ast))]
    missing = always_before(ctx, rs, lambda n: n.kind == "stmt" and isinstance(n.ast, ast.Assign) and path_of(n.ast.targets[0]) == "self._value",
                            lambda n: any(n.ast is r.ast for r in res_nodes))
    ctx.ob("C02-4", "G2", rs, "value stored before resume", not missing, "the value is stored before the continuation that will carry it is created")
    # writes of _resolved/_value elsewhere in the class
    cls = prog.cls(FUT, "SimFuture")
    for f in cls.methods.values():
        if f.name in ("__init__", "resolve"):
            continue
        for st in walk_stmts(f.node.body):
            if isinstance(st, (ast.Assign, ast.AugAssign)):
                tg = st.targets if isinstance(st, ast.Assign) else [st.target]
                for t in tg:
                    if path_of(t) in ("self._resolved", "self._value"):
                        ctx.ob("C02-4", "G6", f, st, f.name == "fail", "resolved flag / value written outside resolve(): the latch can be undone")

    # _resume
    rm = prog.func(FUT, "SimFuture._resume")
    ctor = _ctor_sites(rm, "ProcessContinuation")[0]
    rff = ctx.flow(rm)
    cn = node_of(rff.cfg, ctor)
    cname = cn.ast.targets[0].id
    sv = stmts_matching(rm, f"{cname}._send_value = _V_")
    ok = len(sv) == 1 and path_of(sv[0][1]["_V_"]) == "self._value"
    ctx.ob("C02-4", "G7", rm, sv[0][0] if sv else ctor, ok, "the resumed generator receives the resolved value (`_send_value = self._value`)")
    pushes = [c for c in calls_in(rm.node) if isinstance(c.func, ast.Attribute) and c.func.attr == "push" and [path_of(a) for a in c.args] == [cname]]
    heap_src = _unique_assign(rm, path_of(pushes[0].func.value)) if pushes else None
    ok = len(pushes) == 1 and isinstance(heap_src, ast.Call) and path_of(heap_src.func) == "_active_heap_var.get"
    ctx.ob("C02-4", "G2", rm, pushes[0] if pushes else ctor, ok, "exactly one continuation is pushed onto the active heap per resume")
    clr = stmts_matching(rm, "self._parked_process = None")
    okc = False
    if clr and pushes:
        pn = node_of(rff.cfg, pushes[0])
        okc = not always_before(ctx, rm, lambda n: n.ast is pn.ast, lambda n: n.ast is clr[0][0])
    ctx.ob("C02-4", "G2", rm, clr[0][0] if clr else ctor, bool(clr) and okc, "the parked process is cleared after scheduling (at most one continuation per park)")
    # send-value ordering: set before push
    if sv and pushes:
        pn = node_of(rff.cfg, pushes[0])
        missing = always_before(ctx, rm, lambda n: n.ast is sv[0][0], lambda n: n.ast is pn.ast)
        ctx.ob("C02-4", "G2", rm, "send value set before push", not missing, "the send value is attached before the continuation is scheduled")

    # _park: resolved → resume at once
    pk = prog.func(FUT, "SimFuture._park")
    guard(ctx, "C02-4", pk, "self._resume()", "self._resolved", "a process yielding an already-resolved future resumes at once")
    pff = ctx.flow(pk)
    rn = [n for n in pff.cfg.nodes if n.kind == "stmt" and any(path_of(c.func) == "self._resume" for c in calls_in(n.ast))]
    need(len(rn) == 1, "C02-4: _park should call _resume exactly once")
    missing = always_before(ctx, pk, lambda n: n.kind == "stmt" and isinstance(n.ast, ast.Assign) and path_of(n.ast.targets[0]) == "self._parked_process",
                            lambda n: n.ast is rn[0].ast)
    ctx.ob("C02-4", "G2", pk, "parked state stored before immediate resume", not missing, "the process is parked before the immediate resume uses the parked fields")
    # every exit of _park with a resolved future has resumed
    bad = []
    for p in enumerate_paths(pff, pff.cfg.entry):
        if p.end != "exit":
            continue
        resumed = any(n is rn[0] for n in p.nodes)
        if p.has_fact(("truthy", "self._resolved", "")) and not resumed:
            bad.append(p.describe())
        if p.has_fact(("falsy", "self._resolved", "")) and resumed:
            bad.append("resumes an unresolved future: " + p.describe())
    ctx.ob("C02-4", "G2", pk, "park ⇒ resume iff resolved", not bad, "park resumes immediately iff the future is already resolved" + (": " + "; ".join(bad[:2]) if bad else ""))

    # callbacks
    fc = prog.func(FUT, "SimFuture._fire_callbacks")
    fff = ctx.flow(fc)
    loops = [st for st in walk_stmts(fc.node.body) if isinstance(st, ast.For)]
    need(len(loops) == 1, "C02-5: _fire_callbacks should have one loop")
    ln = node_of(fff.cfg, loops[0])
    missing = always_before(ctx, fc, lambda n: any(isinstance(c, ast.Call) and path_of(c.func) == "self._settle_callbacks.clear" for e in own_exprs(n) for c in walk_scope(e)),
                            lambda n: n.ast is ln.ast)
    it_src = _unique_assign(fc, path_of(loops[0].iter) or "")
    is_copy = isinstance(it_src, ast.Call) and path_of(it_src.func) in ("list", "tuple") and path_of(it_src.args[0]) == "self._settle_callbacks"
    ctx.ob("C02-5", "G2", fc, loops[0], not missing and is_copy, "settle callbacks are copied and cleared before firing (each fires once)")
    ac = prog.func(FUT, "SimFuture._add_settle_callback")
    cb = [p for p in ac.params() if p != "self"][0]
    guard(ctx, "C02-5", ac, f"{cb}(self)", "self._resolved", "a callback added to a resolved future fires immediately")
    guard(ctx, "C02-5", ac, f"self._settle_callbacks.append({cb})", "not self._resolved", "a callback on a pending future is queued")
    ctx.floor("C02-4", 12)


def rule_combinators(ctx: Ctx) -> None:
    prog = ctx.prog
    for name in ("any_of", "all_of"):
        fn = prog.func(FUT, name)
        loops = [st for st in walk_stmts(fn.node.body) if isinstance(st, ast.For)]
        need(len(loops) == 1, f"C02-5: {name} should register callbacks in one loop")
        lp = loops[0]
        ok_iter = isinstance(lp.iter, ast.Call) and path_of(lp.iter.func) == "enumerate" and path_of(lp.iter.args[0]) == "futures" \
            and isinstance(lp.target, ast.Tuple) and len(lp.target.elts) == 2
        regs = [c for c in calls_in(lp) if isinstance(c.func, ast.Attribute) and c.func.attr == "_add_settle_callback"]
        ok_reg = ok_iter and len(regs) == 1 and path_of(regs[0].func.value) == path_of(lp.target.elts[1]) and len(lp.body) == 1
        ctx.ob("C02-5", "G2", fn, lp, bool(ok_reg), f"{name}: every input future gets exactly one settle callback")
        if not ok_reg:
            continue
        ivar = lp.target.elts[0].id
        lam = regs[0].args[0]
        okb = isinstance(lam, ast.Lambda) and any(isinstance(d, ast.Name) and d.id == ivar for d in lam.args.defaults)
        ctx.ob("C02-5", "G7", fn, regs[0], bool(okb), f"{name}: the callback binds its own input index at registration (default argument = loop index)")
        if not okb:
            continue
        dpos = len(lam.args.args) - len(lam.args.defaults)
        idx_param = None
        for a, d in zip(lam.args.args[dpos:], lam.args.defaults):
            if isinstance(d, ast.Name) and d.id == ivar:
                idx_param = a.arg
        fut_param = lam.args.args[0].arg
        if name == "any_of":
            body = lam.body
            ok = isinstance(body, ast.Call) and isinstance(body.func, ast.Attribute) and body.func.attr == "resolve" and len(body.args) == 1 \
                and isinstance(body.args[0], ast.Tuple) and len(body.args[0].elts) == 2 and path_of(body.args[0].elts[0]) == idx_param \
                and path_of(body.args[0].elts[1]) == f"{fut_param}._value"
            comp = path_of(body.func.value) if isinstance(body, ast.Call) and isinstance(body.func, ast.Attribute) else None
            rets = [s for s in walk_stmts(fn.node.body) if isinstance(s, ast.Return)]
            ok = ok and rets and path_of(rets[-1].value) == comp
            ctx.ob("C02-5", "G7", fn, lam, bool(ok), "any_of resolves the composite with (index of that input, its value); first resolve wins by the latch")
        else:
            body = lam.body
            ok = isinstance(body, ast.Call) and isinstance(body.func, ast.Name) and len(body.args) == 2 and path_of(body.args[0]) == fut_param \
                and path_of(body.args[1]) == idx_param
            ctx.ob("C02-5", "G7", fn, lam, bool(ok), "all_of passes (settled future, its index) to the collector")
            inner = [f for f in fn.module.all_functions if f.parent is fn and isinstance(body, ast.Call) and f.name == path_of(body.func)]
            need(inner, "C02-5: all_of collector function not found")
            col = inner[0]
            sp, ip = col.params()[0], col.params()[1]
            st_res = stmts_matching(col, f"_R_[{ip}] = {sp}._value")
            dec = stmts_matching(col, "_C_ -= 1")
            ok2 = len(st_res) == 1 and len(dec) == 1
            ctx.ob("C02-5", "G2", col, st_res[0][0] if st_res else col.node, ok2, "all_of stores each value at its input's own index and counts it once")
            if ok2:
                rname, cname = path_of(st_res[0][1]["_R_"]), path_of(dec[0][1]["_C_"])
                init_r = _unique_assign(fn, rname)
                init_c = _unique_assign(fn, cname)
                ok3 = init_c is not None and unparse(init_c) == "len(futures)" and init_r is not None and "len(futures)" in unparse(init_r)
                ctx.ob("C02-5", "G7", fn, f"{cname} = len(futures)", bool(ok3), "all_of's countdown starts at the number of inputs and results has one slot per input",
                       node=fn.node)
                guard(ctx, "C02-5", col, "_X_.resolve(list(" + rname + "))", f"{cname} == 0", "all_of resolves when the last input resolves, with values in argument order")
    ctx.floor("C02-5", 9)


def rule_hook_list_ownership(ctx: Ctx) -> None:
    """C02-6: an event's completion-hook list belongs to one process: it is handed on only to that process's own continuations.  Any other
    event constructed with `on_complete=<another event>.on_complete` shares the list object, so whichever finishes first runs and clears
    the hooks of the other."""
    prog = ctx.prog
    allowed = {("happysimulator/core/event.py", "self.on_complete"), ("happysimulator/core/sim_future.py", "self._parked_on_complete")}
    n = 0
    for fn in prog.all_functions("happysimulator/"):
        for c in calls_in(fn.node):
            for k in c.keywords:
                if k.arg == "on_complete":
                    n += 1
                    v = k.value
                    src = path_of(v)
                    fresh = isinstance(v, (ast.List, ast.Constant)) or (isinstance(v, ast.Call) and path_of(v.func) in ("list", "copy.copy")) or (isinstance(v, ast.IfExp)) or (src is not None and "." not in src)
                    ok = fresh or (fn.module.relpath, src) in allowed
                    ctx.ob("C02-6", "G7", fn, c, ok, f"{fn.qual}: `on_complete={unparse(v)}` — a completion-hook list is passed on only to the continuation of the same process (or is a fresh list); sharing another event's list makes its hooks fire at the wrong instant")
    need(n >= 3, f"C02-6: expected >= 3 on_complete hand-over sites, found {n}")
    ctx.floor("C02-6", 3)


def rule_transparent_delegation(ctx: Ctx) -> None:
    """C02-7: inside the engine package a generator that forwards another generator's steps delegates with `yield from` (or drives it with
    `.send(value)`).  Re-yielding the result of `next(g)` / `g.__next__()` forwards the delays but swallows what the engine sends back in:
    `value = yield future` inside the wrapped process then always receives None.  Also: every entity class of the engine package that
    returns a user callable's result returns it unwrapped."""
    prog = ctx.prog
    n_gen = 0
    for fn in prog.all_functions("happysimulator/core/"):
        if not fn.is_generator:
            continue
        n_gen += 1
        drives = [c for c in calls_in(fn.node) if (isinstance(c.func, ast.Name) and c.func.id == "next" and c.args) or (isinstance(c.func, ast.Attribute) and c.func.attr == "__next__")]
        # counters (`count()` objects) are not processes
        drives = [c for c in drives if "counter" not in unparse(c).lower()]
        yields = [y for y in walk_scope(fn.node, include_root=False) if isinstance(y, ast.Yield)]
        ok = not (drives and yields)
        ctx.ob("C02-7", "G4", fn, drives[0] if drives else None, ok, f"{fn.qual}: a generator of the engine package that passes on another generator's steps uses `yield from` / `.send()` — "
               "never `next(g)` followed by `yield`, which drops the value sent in on resume" + ("" if ok else f" (found `{unparse(drives[0])}` with {len(yields)} plain yield(s))"))
    cb = prog.func("happysimulator/core/callback_entity.py", "CallbackEntity.handle_event")
    rets = [s_ for s_ in walk_stmts(cb.node.body) if isinstance(s_, ast.Return)]
    okc = len(rets) == 1 and isinstance(rets[0].value, ast.Call) and path_of(rets[0].value.func) == "self._fn" and not cb.is_generator
    ctx.ob("C02-7", "G4", cb, rets[0] if rets else None, okc, "CallbackEntity hands the callback's result (a generator included) to the engine as it is: the engine itself drives the process and sends values in")
    ctx.stats["core_generators"] = n_gen


def rule_dependencies(ctx: Ctx) -> None:
    """Dependency clauses: contracts of the engine core that C01 owns and that this property's mechanism relies on (same rule functions,
    reported under C02 ids).  C02-8: the engine appends a continuation only to a list it built itself — a process that keeps one outbox list
    across yields would otherwise have its previous continuation scheduled again and resume early.  C02-9: the engine never withdraws an event
    itself — the events a process yields or returns (e.g. through `forward`) are delivered."""
    from .c01 import rule_engine_grows_only_its_own_lists, rule_only_the_model_cancels
    rule_engine_grows_only_its_own_lists(ctx, "C02-8")
    rule_only_the_model_cancels(ctx, "C02-9")


def run(ctx: Ctx) -> None:
    ctx.guarded(rule_continuation_provenance)
    ctx.guarded(rule_return_discipline)
    ctx.guarded(rule_hooks_one_shot)
    ctx.guarded(rule_future_latch)
    ctx.guarded(rule_combinators)
    ctx.guarded(rule_hook_list_ownership)
    ctx.guarded(rule_transparent_delegation)
    ctx.guarded(rule_dependencies)


MUTANTS = [
    ("continuation-appended-to-processes-own-list", EV, "            result = list(side_effects)\n", "            result = side_effects if isinstance(side_effects, list) else list(side_effects)\n", "C02-8"),
    ("forward-propagates-cancellation", "happysimulator/core/entity.py", "        return Event(\n            time=self.now,\n            event_type=event_type or event.event_type,\n            target=target,\n            context=event.context,\n        )",
     "        forwarded = Event(\n            time=self.now,\n            event_type=event_type or event.event_type,\n            target=target,\n            context=event.context,\n        )\n        if event.cancelled:\n            forwarded.cancel()\n        return forwarded", "C02-9"),
    ("callback-process-redriven-with-next", "happysimulator/core/callback_entity.py", "        return self._fn(event)\n", "        result = self._fn(event)\n        if hasattr(result, 'send'):\n            return self._drive(result)\n        return result\n\n    def _drive(self, process):\n        try:\n            while True:\n                yield next(process)\n        except StopIteration as done:\n            return done.value\n", "C02-7"),
    ("forward-shares-hook-list", "happysimulator/core/entity.py", "            target=target,\n            context=event.context,\n        )", "            target=target,\n            context=event.context,\n            on_complete=event.on_complete,\n        )", "C02-6"),
    ("continuation-resumes-immediately", EV, "resume_time = self.time + delay", "resume_time = self.time", "C02-1"),
    ("continuation-loses-hooks", EV, "                on_complete=self.on_complete,\n                process=self.process,", "                process=self.process,", "C02-1"),
    ("continuation-loses-context", EV, "                context=self.context,  # Preserve trace context\n", "", "C02-1"),
    ("start-process-fresh-hooks", EV, "            process=gen,\n            on_complete=self.on_complete,\n", "            process=gen,\n", "C02-1"),
    ("resume-time-not-now", FUT, "            time=clock.now,\n", "            time=Instant.Epoch,\n", "C02-1"),
    ("park-forgets-hooks", FUT, "        self._parked_on_complete = continuation.on_complete\n", "        self._parked_on_complete = None\n", "C02-1"),
    ("finish-drops-hook-events", EV, "            return finished + completion_events", "            return finished", "C02-2"),
    ("finish-drops-return-events", EV, "            return finished + completion_events", "            return completion_events", "C02-2"),
    ("generator-path-runs-hooks", EV, "                return self._start_process(raw_result)", "                return self._start_process(raw_result) + self._run_completion_hooks(self.time)", "C02-2"),
    ("immediate-path-skips-hooks", EV, "            completion_events = self._run_completion_hooks(self.time)\n\n            return normalized + completion_events",
     "            completion_events = []\n\n            return normalized + completion_events", "C02-2"),
    ("delay-path-drops-side-effects", EV, "            result = list(side_effects)\n", "            result = []\n", "C02-2"),
    ("delay-path-drops-continuation", EV, "            result.append(next_continuation)\n", "", "C02-2"),
    ("future-path-also-schedules", EV, "                yielded_val._park(self)\n", "                yielded_val._park(self)\n                self._run_completion_hooks(self.time)\n", "C02-2"),
    ("normalize-yield-swaps", EV, "            delay = value[0]\n            effects = value[1]", "            delay = value[1]\n            effects = value[0]", "C02-2"),
    ("hooks-not-cleared", EV, "        hooks = list(self.on_complete)\n        self.on_complete.clear()\n", "        hooks = list(self.on_complete)\n", "C02-3"),
    ("hooks-iterate-live-list", EV, "        for hook in hooks:\n", "        for hook in self.on_complete:\n", "C02-3"),
    ("resolve-no-latch", FUT, "        if self._resolved:\n            return\n        self._resolved = True", "        self._resolved = True", "C02-4"),
    ("resolve-resumes-without-park", FUT, "        if self._parked_process is not None:\n            self._resume()\n        self._fire_callbacks()", "        self._resume()\n        self._fire_callbacks()", "C02-4"),
    ("resume-keeps-parked", FUT, "        heap.push(continuation)\n\n        # Clear parked state\n        self._parked_process = None\n", "        heap.push(continuation)\n", "C02-4"),
    ("resume-no-send-value", FUT, "        continuation._send_value = self._value\n", "", "C02-4"),
    ("resume-pushes-twice", FUT, "        heap.push(continuation)\n", "        heap.push(continuation)\n        heap.push(continuation)\n", "C02-4"),
    ("park-no-immediate-resume", FUT, "        if self._resolved:\n            self._resume()\n\n    def resolve", "\n    def resolve", "C02-4"),
    ("any-of-late-binding", FUT, "lambda sf, idx=i: composite.resolve((idx, sf._value))", "lambda sf: composite.resolve((i, sf._value))", "C02-5"),
    ("any-of-value-only", FUT, "composite.resolve((idx, sf._value))", "composite.resolve(sf._value)", "C02-5"),
    ("all-of-appends", FUT, "        results[idx] = settled._value\n", "        results.append(settled._value)\n", "C02-5"),
    ("all-of-resolves-early", FUT, "        if remaining == 0:\n            composite.resolve(list(results))", "        if remaining <= 1:\n            composite.resolve(list(results))", "C02-5"),
    ("callbacks-not-cleared", FUT, "        callbacks = list(self._settle_callbacks)\n        self._settle_callbacks.clear()\n", "        callbacks = list(self._settle_callbacks)\n", "C02-5"),
    ("late-callback-never-fires", FUT, "        if self._resolved:\n            fn(self)\n        else:\n            self._settle_callbacks.append(fn)", "        self._settle_callbacks.append(fn)", "C02-5"),
]
MUTANTS += [
    ("continuation-truthiness-fallback", EV, "        self.daemon = daemon\n        self.on_complete = on_complete if on_complete is not None else []\n        self._sort_index = _next_sort_index()\n        self._id = self._sort_index\n        self._cancelled = False\n        self.context = context if context is not None else {}",
     "        self.daemon = daemon\n        self.on_complete = on_complete or []\n        self._sort_index = _next_sort_index()\n        self._id = self._sort_index\n        self._cancelled = False\n        self.context = context if context is not None else {}", "C02-1"),
    ("resolve-skips-callbacks-when-parked", FUT, "        if self._parked_process is not None:\n            self._resume()\n        self._fire_callbacks()", "        if self._parked_process is not None:\n            self._resume()\n        elif self._settle_callbacks:\n            self._fire_callbacks()", "C02-4"),
]
REFACTORS = [
    ("resume-time-inline", EV, ["            resume_time = self.time + delay\n", "                time=resume_time,\n"], ["", "                time=self.time + delay,\n"]),
    ("hooks-copy-by-slice", EV, "        hooks = list(self.on_complete)\n", "        hooks = self.on_complete[:]\n"),
    ("resolve-nested-guard", FUT, "        if self._resolved:\n            return\n        self._resolved = True\n        self._value = value\n        if self._parked_process is not None:\n            self._resume()\n        self._fire_callbacks()",
     "        if not self._resolved:\n            self._resolved = True\n            self._value = value\n            if self._parked_process is not None:\n                self._resume()\n            self._fire_callbacks()"),
    ("finish-return-reordered", EV, "            return finished + completion_events", "            out = list(finished)\n            out.extend(completion_events)\n            return out"),
]
