"""C11 — Raft: rule-conformance clauses (the safety theorems themselves quantify over histories and are not decided)."""

from __future__ import annotations

import ast

from ..astutil import calls_in, norm_stmt, path_of, unparse, walk_scope, walk_stmts
from ..cfg import own_exprs
from ..facts import Fact, atoms, enumerate_paths
from ..report import Ctx
from .common import always_before, expand, guard, holds_with_callers, increment_of, method_callers, need, node_of, protocol_schema, single_defs, stmts_matching

RAFT = "happysimulator/components/consensus/raft.py"
LOG = "happysimulator/components/consensus/log.py"

EXPLANATION = (
    "Each Raft handler is checked against the guard discipline the safety proofs need: the vote-granting rule (term, single vote "
    "per term, log up-to-date test) on every path to the grant; the vote is forgotten only on a strictly newer term; current_term, "
    "commit_index and last_applied are only written monotonically; the leader commits only current-term entries with a quorum; "
    "entries are appended only after the prev-log check and truncated only on a term conflict; leadership is entered only from "
    "CANDIDATE with a quorum of distinct voters; match_index is the prefix verified by the request; client futures are purged on "
    "truncation; the RPC payload keys written agree with the keys the handlers read."
)
RULE_TEXT = "Instances: per guarded protocol statement and per RPC send site. Distinct by (rule, construct)."
NOT_DECIDED = ["Election Safety, Log Matching, Leader Completeness and State-Machine Safety as theorems over histories",
               "liveness on a healthy network; election timing", "handling of success responses from an older term (not validated against the leader's current term)"]
ASSUMPTIONS = ["handlers are atomic (no suspension inside Raft handlers — checked)", "the network delivers payload dictionaries unchanged"]


NETW = "happysimulator/components/network/network.py"


def rule_network_dependency(ctx: Ctx) -> None:
    """C11-9 (dependency): the liveness clause (commands reach every node once the network is whole again) relies on the network layer
    really unblocking a healed pair: partition handles own what they block, are registered, and a heal retires exactly that handle."""
    from .c06 import partition_handle_rules

    partition_handle_rules(ctx, "C11-9")


def rule_append_entries_carry_the_suffix(ctx: Ctx) -> None:
    """C11-10: a follower bounds its commit index by `min(leader_commit, last_index)` — its *whole* log, not the last entry the message
    verified.  That is sound only because every AppendEntries carries the full suffix after `prev_log_index`, so a follower that passes the
    consistency check ends up with exactly the leader's log.  Hence: every send of a RaftAppendEntries message fills `entries` from
    `self._log.entries_after(<the prev_log_index it sends>)` — or the follower bounds the commit by the last entry of the message instead."""
    prog = ctx.prog
    node = prog.cls(RAFT, "RaftNode")
    hae = node.methods["_handle_append_entries"]
    sdh = single_defs(hae)
    bounds = [expand(c, sdh) for c in calls_in(hae.node) if path_of(c.func) == "min" and any("leader_commit" in unparse(a) for a in c.args)]
    by_message = bool(bounds) and all(any("prev_log_index" in unparse(a) and "len(entries)" in unparse(a).replace(" ", "") for a in b.args) for b in bounds)
    n = 0
    for m in node.methods.values():
        sd = None
        for c in calls_in(m.node):
            if path_of(c.func) != "self._network.send" or not any(k.arg == "event_type" and isinstance(k.value, ast.Constant) and k.value.value == "RaftAppendEntries" for k in c.keywords):
                continue
            n += 1
            sd = sd or single_defs(m)
            pay = next((k.value for k in c.keywords if k.arg == "payload"), None)
            fields = {k_.value: v_ for k_, v_ in zip(pay.keys, pay.values) if isinstance(k_, ast.Constant)} if isinstance(pay, ast.Dict) else {}
            ent = expand(fields.get("entries"), sd) if fields.get("entries") is not None else None
            prev = unparse(expand(fields["prev_log_index"], sd)).replace(" ", "") if "prev_log_index" in fields else None
            src = None
            if isinstance(ent, ast.ListComp) and len(ent.generators) == 1 and not ent.generators[0].ifs:
                src = expand(ent.generators[0].iter, sd)
            elif isinstance(ent, ast.Call):
                src = ent
            full = isinstance(src, ast.Call) and path_of(src.func) == "self._log.entries_after" and prev is not None and [unparse(a).replace(" ", "") for a in src.args] == [prev]
            ctx.ob("C11-10", "G6", m, c, full or by_message,
                   f"{m.qual}: an AppendEntries carries every entry after the prev_log_index it names (`entries` is built from `self._log.entries_after({prev})`): the follower's "
                   "commit bound min(leader_commit, last_index) covers its whole log, which equals the leader's only if the message brought the full suffix")
    need(n >= 2, f"C11-10: expected >= 2 RaftAppendEntries send sites (heartbeat and back-off retry), found {n}")
    ctx.floor("C11-10", 2)


def rule_hunted(ctx: Ctx) -> None:
    """C11-3/C11-6 (hunted defects): (a) the state machine a node applies to is the one it was given (`is not None`, not truthiness: a journal-like
    machine with `__len__` is empty, hence falsy, at construction); (b) every handler that can depose a leader re-arms an election timer for
    it — `_become_leader` cancelled the timer and `_step_down` does not create one, so a deposed leader without a timer never stands again."""
    prog = ctx.prog
    init = prog.func(RAFT, "RaftNode.__init__")
    sm = [s_ for s_ in walk_stmts(init.node.body) if isinstance(s_, ast.Assign) and path_of(s_.targets[0]) == "self._state_machine"]
    ok = len(sm) == 1 and ((isinstance(sm[0].value, ast.IfExp) and {f.sig for f in atoms(sm[0].value.test, True)} == {("isnot", "state_machine", "None")} and path_of(sm[0].value.body) == "state_machine")
                           or path_of(sm[0].value) == "state_machine")
    ctx.ob("C11-6", "G7", init, sm[0] if sm else None, ok, "RaftNode applies committed commands to the state machine it was given whenever one was given (`state_machine if state_machine is not None else …`)")
    node = prog.cls(RAFT, "RaftNode")
    n = 0
    for m in node.methods.values():
        mf = ctx.flow(m)
        downs = [nd for nd in mf.cfg.nodes if nd.kind == "stmt" and any(path_of(k.func) == "self._step_down" for k in calls_in(nd.ast))]
        for d_ in downs:
            n += 1
            bad = []
            for p_ in enumerate_paths(mf, d_, stop=lambda x: x is mf.cfg.exit):
                if p_.end not in ("exit", "stop"):
                    continue
                rearmed = any(nd.kind == "stmt" and any(path_of(k.func) == "self._schedule_election_timeout" for k in calls_in(nd.ast)) for nd in p_.nodes)
                not_deposed = p_.decided(lambda t: t == "deposed") is False and p_.decided(lambda t: t == "vote_granted") is False
                if not (rearmed or not_deposed):
                    bad.append(p_.describe()[-100:])
            if m.name == "_handle_request_vote":
                # `deposed` must mean what it says: leader before the step-down, not leader after it
                dd = [s_ for s_ in walk_stmts(m.node.body) if isinstance(s_, ast.Assign) and path_of(s_.targets[0]) == "deposed"]
                wl = [s_ for s_ in walk_stmts(m.node.body) if isinstance(s_, ast.Assign) and path_of(s_.targets[0]) == "was_leader"]
                okd = len(dd) == 1 and len(wl) == 1 and unparse(wl[0].value).replace(" ", "") == "self._state==RaftState.LEADER" and unparse(dd[0].value).replace(" ", "") == "was_leaderandself._state!=RaftState.LEADER" \
                    and not always_before(ctx, m, lambda x: x.ast is wl[0], lambda x: x is d_) and bool(always_before(ctx, m, lambda x: x.ast is dd[0], lambda x: x is d_))
                if not okd:
                    bad.append("`deposed` is not computed as leader-before ∧ not-leader-after around the step-down")
            ctx.ob("C11-3", "G2", m, d_.ast, not bad, f"RaftNode.{m.name}: after `_step_down` every path re-arms the election timer unless the node was not leader before (a deposed leader has no timer running)"
                   + ("" if not bad else " — " + bad[0]))
    need(n >= 4, f"C11-3: expected >= 4 step-down sites, found {n}")


def rule_round2(ctx: Ctx) -> None:
    prog = ctx.prog
    # Log.truncate_from acts for every 1 <= index <= len and only then
    tf = prog.func(LOG, "Log.truncate_from")
    ff = ctx.flow(tf)
    early = set()
    for nd in ff.cfg.nodes:
        if nd.kind == "test":
            early |= {f.sig for f in atoms(nd.ast, True)}
    want = {("lt", "index", "1"), ("lt", "len(self._entries)", "index")}
    guards = {g for g in early if "index" in g[1] + g[2] and "commit" not in g[1] + g[2]}
    cut = stmts_matching(tf, "self._entries = self._entries[:index - 1]")
    ctx.ob("C11-5", "G3", tf, cut[0][0] if cut else None, guards == want and len(cut) == 1,
           f"Log.truncate_from(index) is a no-op only for index < 1 or index > len, and otherwise keeps exactly the first index-1 entries (a conflict at index 1 must truncate the whole log) — guards found {sorted(guards)}")
    # partitions: the global heal clears everything partition() records
    net = prog.cls(NETW, "Network")
    pt, hl = net.methods["partition"], net.methods["heal_partition"]
    filled = set()
    for x in walk_scope(pt.node):
        if isinstance(x, ast.Call) and isinstance(x.func, ast.Attribute) and x.func.attr in ("add", "append", "update", "extend") and (path_of(x.func.value) or "").startswith("self._"):
            filled.add(path_of(x.func.value))
    cleared = {path_of(x.func.value) for x in walk_scope(hl.node) if isinstance(x, ast.Call) and isinstance(x.func, ast.Attribute) and x.func.attr == "clear"}
    filled = {f for f in filled if "partition" in f}
    ctx.ob("C11-9", "G2", hl, "heal clears what partition records", bool(filled) and filled <= cleared,
           f"Network.heal_partition() clears every record Network.partition() makes ({sorted(filled)}; cleared {sorted(cleared)}): a stale handle left behind would re-block the pair when a later, overlapping partition is healed")


def run(ctx: Ctx) -> None:
    prog = ctx.prog
    node = prog.cls(RAFT, "RaftNode")
    # no handler suspends: every rule below relies on handler atomicity
    gens = [m.qual for m in node.methods.values() if m.is_generator]
    ctx.ob("C11-0", "G5", None, "Raft handlers are atomic", not gens, f"no RaftNode method suspends (generators: {gens})", relpath=RAFT, node=node.node)

    # ---- C11-1 vote granting rule
    rv = prog.func(RAFT, "RaftNode._handle_request_vote")
    ff = ctx.flow(rv)
    grants = stmts_matching(rv, "self._voted_for = candidate")
    need(len(grants) == 1, "C11-1: expected one grant site `self._voted_for = candidate`")
    gn = node_of(ff.cfg, grants[0][0])
    bad = []
    npaths = 0
    for p in enumerate_paths(ff, ff.cfg.entry, stop=lambda n: n is gn):
        if not (p.end == "stop" and p.nodes[-1] is gn):
            continue
        npaths += 1
        t_ok = p.decided(lambda t: t == "term>=self._current_term") is True
        v_ok = p.decided(lambda t: t == "self._voted_forisNone") is True or p.decided(lambda t: t == "self._voted_for==candidate") is True
        newer = p.decided(lambda t: t == "last_log_term>self._log.last_term") is True
        same = p.decided(lambda t: t == "last_log_term==self._log.last_term") is True and p.decided(lambda t: t == "last_log_index>=self._log.last_index") is True
        if not (t_ok and v_ok and (newer or same)):
            bad.append(f"[{p.describe()}] term_ok={t_ok} vote_ok={v_ok} log_newer={newer} log_same_and_long={same}")
    need(npaths > 0, "C11-1: grant unreachable")
    ctx.ob("C11-1", "G3", rv, grants[0][0], not bad,
           "a vote is granted only if term >= current, the node has not voted for another candidate in this term, and the candidate's (lastTerm, lastIndex) is at "
           f"least its own ({npaths} paths)" + ("" if not bad else " — " + bad[0]))
    vg = stmts_matching(rv, "vote_granted = True")
    same_block = len(vg) == 1
    if same_block:
        vn = node_of(ff.cfg, vg[0][0])
        for p in enumerate_paths(ff, ff.cfg.entry):
            if (gn in p.nodes) != (vn in p.nodes):
                same_block = False
    ctx.ob("C11-1", "G2", rv, "grant flag ⇔ vote recorded", bool(same_block), "the reply says `vote_granted` exactly when the vote was recorded")
    rec = stmts_matching(rv, "self._current_term = term")
    ctx.ob("C11-1", "G2", rv, "granting adopts the candidate's term", len(rec) == 1, "granting a vote records the term it was granted in")
    srcs = {unparse(s.value) for s in walk_stmts(rv.node.body) if isinstance(s, ast.Assign) and path_of(s.targets[0]) in ("term", "candidate", "last_log_index", "last_log_term")}
    ok = {"metadata['term']", "metadata['candidate_id']"} <= srcs and any("last_log_index" in s for s in srcs) and any("last_log_term" in s for s in srcs)
    ctx.ob("C11-1", "G7", rv, "vote inputs come from the request", ok, f"term/candidate/log position tested are those carried by the request ({sorted(srcs)})")

    # ---- C11-2 vote reset only on a strictly newer term
    resets = []
    for m in node.methods.values():
        for st, _ in stmts_matching(m, "self._voted_for = None"):
            if m.name != "__init__":
                resets.append((m, st))
    need(resets, "C11-2: no vote reset site")
    for m, st in resets:
        ok, why = holds_with_callers(ctx, m, st, [ast.parse("new_term > self._current_term" if "new_term" in m.params() else "term > self._current_term", mode="eval").body], depth=1)
        ctx.ob("C11-2", "G1", m, st, ok, "the vote is forgotten only when the term strictly increases (one vote per term) — " + ("holds" if ok else "FAILS: " + why))
    # other writes of _voted_for: self.name after term += 1 (candidate), candidate on grant
    for m in node.methods.values():
        for st in walk_stmts(m.node.body):
            if isinstance(st, ast.Assign) and path_of(st.targets[0]) == "self._voted_for" and m.name != "__init__":
                v = unparse(st.value)
                if v == "self.name":
                    incs = [s for s in walk_stmts(m.node.body) if increment_of(s, "self._current_term") == 1]
                    ok = len(incs) == 1 and not always_before(ctx, m, lambda n: n.ast is incs[0], lambda n: n.ast is st)
                    ctx.ob("C11-2", "G2", m, st, ok, "a candidate votes for itself only in the fresh term it just started")
                elif v not in ("None", "candidate"):
                    ctx.ob("C11-2", "G6", m, st, False, f"unexpected write of the vote: `{norm_stmt(st)}`")

    # ---- C11-3 monotone term / commit / applied
    for m in node.methods.values():
        if m.name == "__init__":
            continue
        mff = ctx.flow(m)
        for st in walk_stmts(m.node.body):
            if increment_of(st, "self._current_term") not in (None, "other"):
                ctx.ob("C11-3", "G6", m, st, increment_of(st, "self._current_term") == 1, "the term is advanced by exactly one when starting an election")
                continue
            if isinstance(st, ast.Assign) and path_of(st.targets[0]) == "self._current_term":
                v = path_of(st.value) or unparse(st.value)
                n = node_of(mff.cfg, st)
                ok = mff.holds_at(n, Fact("le", "self._current_term", v))
                why = "guard in function"
                if not ok:
                    # dominated by a call self._step_down(v) (which sets the term to v) with nothing in between
                    sd = [x for x in mff.cfg.nodes if x.kind == "stmt" and any(path_of(c.func) == "self._step_down" and [path_of(a) for a in c.args] == [v] for c in calls_in(x.ast))]
                    if sd:
                        # on every *feasible* path: the guard fact still holds, or _step_down(v) has just installed v
                        allp = [p_ for p_ in enumerate_paths(mff, mff.cfg.entry, stop=lambda x: x is n, unroll=0) if p_.end == "stop" and p_.nodes[-1] is n]
                        if allp and all(p_.has_fact(("le", "self._current_term", v)) or any(x in sd for x in p_.nodes) for p_ in allp):
                            ok, why = True, "re-assigns the value _step_down just installed (on every feasible path)"
                if not ok:
                    ok, why = holds_with_callers(ctx, m, st, [ast.parse(f"not ({v} < self._current_term)", mode="eval").body], depth=1)
                ctx.ob("C11-3", "G6", m, st, ok, f"current_term never decreases: `{norm_stmt(st)}` only with {v} >= current_term — " + (why if ok else "FAILS: " + str(why)))
    ac = prog.func(LOG, "Log.advance_commit")
    aff = ctx.flow(ac)
    ws = [s for s in walk_stmts(ac.node.body) if isinstance(s, ast.Assign) and path_of(s.targets[0]) == "self.commit_index"]
    ok = len(ws) == 1 and aff.holds_at(node_of(aff.cfg, ws[0]), Fact("lt", "self.commit_index", "new_commit_index")) and "min(new_commit_index, len(self._entries))" in unparse(ws[0].value)
    ctx.ob("C11-3", "G6", ac, ws[0] if ws else None, ok, "commit_index only moves forward, and never past the end of the log")
    # who writes commit_index
    for fn in prog.all_functions("happysimulator/components/consensus/"):
        for st in walk_stmts(fn.node.body):
            if isinstance(st, (ast.Assign, ast.AugAssign)):
                for t in (st.targets if isinstance(st, ast.Assign) else [st.target]):
                    if isinstance(t, ast.Attribute) and t.attr == "commit_index" and fn.module.relpath in (RAFT, LOG) and fn.qual not in ("Log.__init__", "Log.advance_commit"):
                        okc = fn.qual == "Log.truncate_from" and ctx.flow(fn).holds_at(node_of(ctx.flow(fn).cfg, st), Fact("le", "index", "self.commit_index"))
                        ctx.ob("C11-3", "G6", fn, st, okc, "commit_index is written outside advance_commit only by the defensive clamp in truncate_from (truncating committed entries would itself be a violation of C11-5)")
    ap = prog.func(RAFT, "RaftNode._apply_committed")
    guard(ctx, "C11-3", ap, "self._last_applied = entry.index", "entry.index > self._last_applied", "entries are applied once, in increasing index order")
    calls = [c for c in calls_in(ap.node) if path_of(c.func) == "self._state_machine.apply"]
    okap = len(calls) == 1 and ctx.flow(ap).holds_at(node_of(ctx.flow(ap).cfg, calls[0]), Fact("lt", "self._last_applied", "entry.index")) and unparse(calls[0].args[0]) == "entry.command"
    ctx.ob("C11-3", "G1", ap, calls[0] if calls else None, okap, "a command reaches the state machine only for an index beyond last_applied")
    loops = [s for s in walk_stmts(ap.node.body) if isinstance(s, ast.For)]
    ctx.ob("C11-3", "G2", ap, "applies the committed slice in order", len(loops) == 1 and path_of(loops[0].iter) == ap.params()[1], "the newly committed slice returned by advance_commit is applied front to back")
    fut = [c for c in calls_in(ap.node) if isinstance(c.func, ast.Attribute) and c.func.attr == "resolve"]
    okf = len(fut) == 1 and unparse(fut[0].args[0]).replace(" ", "") == "(entry.index,result)" and any(unparse(s.value).replace(" ", "") == "self._pending_futures.pop(entry.index,None)" for s in walk_stmts(ap.node.body) if isinstance(s, ast.Assign))
    ctx.ob("C11-8", "G7", ap, fut[0] if fut else None, okf, "a client future resolves with (index, result) of the entry applied at the index it was registered under, and is removed")

    # ---- C11-4 commit rule
    tc = prog.func(RAFT, "RaftNode._try_advance_commit")
    # the tally may be spelled as a counting loop or as `1 + sum(1 for m in match_index.values() if m >= n)`; its name is free
    tff = ctx.flow(tc)
    adv = stmts_matching(tc, "newly_committed = self._log.advance_commit(n)")
    need(len(adv) == 1, "C11-4: _try_advance_commit must advance the commit index at exactly one site")
    advn = node_of(tff.cfg, adv[0][0])
    tallies = sorted({b_ for (op_, a_, b_) in tff.facts_at(advn) if op_ == "le" and a_ == "self.quorum_size"}, key=lambda t_: (not t_.isidentifier(), t_))
    tally = tallies[0] if tallies else "count"
    guard(ctx, "C11-4", tc, "newly_committed = self._log.advance_commit(n)", ["not entry.term != self._current_term", f"{tally} >= self.quorum_size"],
          "the leader commits index n only for an entry of its current term replicated on a quorum")
    cnt = [s for s in walk_stmts(tc.node.body) if increment_of(s, tally) == 1]
    defs = [s for s in walk_stmts(tc.node.body) if isinstance(s, ast.Assign) and path_of(s.targets[0]) == tally]
    if not tally.isidentifier():
        # the tally is written out in the quorum test itself
        defs = [ast.Assign(targets=[ast.Name(id="_", ctx=ast.Store())], value=ast.parse(tally, mode="eval").body)]
    okc, anchor = False, (cnt[0] if cnt else (defs[0] if defs and tally.isidentifier() else adv[0][0]))
    if len(cnt) == 1 and len(defs) == 1:
        # counting loop: starts at 1 (self), one increment per follower, under match_index >= n, iterating the match_index values
        loops = [s for s in walk_stmts(tc.node.body) if isinstance(s, ast.For) and cnt[0] in list(walk_stmts(s.body))]
        inner = loops[-1] if loops else None
        okc = isinstance(defs[0].value, ast.Constant) and defs[0].value.value == 1 and inner is not None and isinstance(inner.target, ast.Name) \
            and unparse(inner.iter).replace(" ", "") == "self._match_index.values()" and tff.holds_at(node_of(tff.cfg, cnt[0]), Fact("le", "n", inner.target.id))
    elif not cnt and len(defs) == 1:
        # closed form: 1 + sum(1 for m in self._match_index.values() if m >= n)   (either operand order)
        v = defs[0].value
        if isinstance(v, ast.BinOp) and isinstance(v.op, ast.Add):
            one, agg = (v.left, v.right) if isinstance(v.left, ast.Constant) else (v.right, v.left)
            if isinstance(one, ast.Constant) and one.value == 1 and isinstance(agg, ast.Call) and path_of(agg.func) == "sum" and len(agg.args) == 1 \
                    and isinstance(agg.args[0], (ast.GeneratorExp, ast.ListComp)) and len(agg.args[0].generators) == 1:
                g = agg.args[0].generators[0]
                elt = agg.args[0].elt
                okc = isinstance(elt, ast.Constant) and elt.value == 1 and isinstance(g.target, ast.Name) and unparse(g.iter).replace(" ", "") == "self._match_index.values()" \
                    and len(g.ifs) == 1 and {f.sig for f in atoms(g.ifs[0], True)} == {("le", "n", g.target.id)}
    ctx.ob("C11-4", "G1", tc, anchor, okc, "a follower counts towards index n only if its match_index >= n (the leader counts itself once)")
    qs = prog.func(RAFT, "RaftNode.quorum_size")
    rets = [s for s in walk_stmts(qs.node.body) if isinstance(s, ast.Return)]
    tot = stmts_matching(qs, "total = len(self._peers) + 1")
    okq = len(rets) == 1 and len(tot) == 1 and unparse(rets[0].value).replace(" ", "") in ("total//2+1", "(total//2)+1")
    # closed-form check of strict majority for n = 1..15 (arithmetic on the literal formula, not on repo code)
    okq = okq and all((n // 2) + 1 > n / 2 and 2 * ((n // 2) + 1) > n for n in range(1, 16))
    ctx.ob("C11-4", "G3", qs, rets[0] if rets else None, okq, "quorum_size is a strict majority of (peers + self): total // 2 + 1")

    # ---- C11-5 log matching
    ae = prog.func(RAFT, "RaftNode._handle_append_entries")
    aff2 = ctx.flow(ae)
    apps = [c for c in calls_in(ae.node) if path_of(c.func) == "self._log.append"]
    need(len(apps) >= 1, "C11-5: no log append in _handle_append_entries")
    for c in apps:
        n = node_of(aff2.cfg, c)
        bad = []
        for p in enumerate_paths(aff2, aff2.cfg.entry, stop=lambda x: x is n, unroll=0):
            if not (p.end == "stop" and p.nodes[-1] is n):
                continue
            stale = p.decided(lambda t: t == "term<self._current_term")
            has_prev = p.decided(lambda t: t == "prev_log_index>0")
            missing = p.decided(lambda t: t == "prev_entryisNone")
            mismatch = p.decided(lambda t: t == "prev_entry.term!=prev_log_term")
            if stale is not False or not (has_prev is False or (missing is False and mismatch is False)):
                bad.append(p.describe()[:200])
        ctx.ob("C11-5", "G1", ae, c, not bad, "entries are appended only for a current-or-newer term and after the prev_log_index/prev_log_term check succeeded" + ("" if not bad else " — " + bad[0]))
    tr = [c for c in calls_in(ae.node) if path_of(c.func) == "self._log.truncate_from"]
    for c in tr:
        n = node_of(aff2.cfg, c)
        ok = aff2.holds_at(n, Fact("truthy", "existing")) and aff2.holds_at(n, Fact("ne", "entry_term", "existing.term")) and [path_of(a) for a in c.args] == ["idx"]
        ctx.ob("C11-5", "G1", ae, c, ok, "the log is truncated only at an index whose existing entry has a different term (conflict)")
        # C11-8: futures purged right after truncation
        purge = [s for s in walk_stmts(ae.node.body) if isinstance(s, ast.For) and "self._pending_futures" in unparse(s.iter) and ">= idx" in unparse(s.iter)
                 and any(isinstance(b, ast.Delete) and "self._pending_futures" in unparse(b) for b in s.body)]
        okp = len(purge) == 1 and not always_before(ctx, ae, lambda x: x is n, lambda x: x.ast is purge[0]) and aff2.facts_at(node_of(aff2.cfg, purge[0])).keys() >= {("truthy", "existing", "")}
        ctx.ob("C11-8", "G2", ae, "pending futures purged on truncation", okp, "client futures registered at truncated indices are dropped, so none can resolve with another command's result")
    ex = stmts_matching(ae, "existing = self._log.get(idx)")
    idx = stmts_matching(ae, "idx = entry_dict['index']")
    ctx.ob("C11-5", "G7", ae, "conflict test looks at the entry's own index", len(ex) == 1 and len(idx) == 1, "the existing entry compared is the one at the incoming entry's index")
    # followers reject stale terms before touching state
    stale_ret = [s for s in walk_stmts(ae.node.body) if isinstance(s, ast.If) and unparse(s.test).replace(" ", "") == "term<self._current_term" and any(isinstance(b, ast.Return) for b in s.body)]
    ctx.ob("C11-5", "G1", ae, stale_ret[0] if stale_ret else None, len(stale_ret) == 1, "AppendEntries from an older term is rejected before any state is touched")

    # ---- C11-6 leadership latch
    bl = prog.func(RAFT, "RaftNode._become_leader")
    callers = method_callers(prog, bl)
    need(callers, "C11-6: _become_leader has no caller")
    for caller, call in callers:
        cff = ctx.flow(caller)
        n = node_of(cff.cfg, call)
        q_ok = cff.holds_at(n, Fact("le", "self.quorum_size", "len(self._votes_received_set)"))
        if caller.name == "_handle_vote_response":
            st_ok = cff.holds_at(n, Fact("eq", "RaftState.CANDIDATE", "self._state")) and cff.holds_at(n, Fact("eq", "self._current_term", "term"))
        else:
            sets = [s for s in walk_stmts(caller.node.body) if isinstance(s, ast.Assign) and path_of(s.targets[0]) == "self._state" and unparse(s.value) == "RaftState.CANDIDATE"]
            st_ok = len(sets) == 1 and not always_before(ctx, caller, lambda x: x.ast is sets[0], lambda x: x is n)
        ctx.ob("C11-6", "G1", caller, call, q_ok and st_ok, f"{caller.name}: leadership is taken only as CANDIDATE of the current term with votes from a quorum of distinct voters"
               + ("" if q_ok and st_ok else f" (quorum fact {q_ok}, state fact {st_ok}; facts: {cff.describe(n)})"))
    vs = [s for s in walk_stmts(prog.func(RAFT, "RaftNode._handle_vote_response").node.body) if isinstance(s, ast.Expr) and isinstance(s.value, ast.Call) and path_of(s.value.func) == "self._votes_received_set.add"]
    vr = prog.func(RAFT, "RaftNode._handle_vote_response")
    okv = len(vs) == 1 and ctx.flow(vr).holds_at(node_of(ctx.flow(vr).cfg, vs[0]), Fact("truthy", "granted")) and ctx.flow(vr).holds_at(node_of(ctx.flow(vr).cfg, vs[0]), Fact("eq", "self._current_term", "term"))
    ai = prog.attr_info(node, "_votes_received_set")
    se = prog.func(RAFT, "RaftNode._start_election")
    reset = stmts_matching(se, "self._votes_received_set = {self.name}")
    ctx.ob("C11-6", "G1", vr, vs[0] if vs else None, okv and len(reset) == 1, "only granted votes for the current term are counted, in a set (one per voter) that is reset when a new election starts")
    sets_leader = stmts_matching(bl, "self._state = RaftState.LEADER")
    ctx.ob("C11-6", "G2", bl, sets_leader[0][0] if sets_leader else None, len(sets_leader) == 1, "_become_leader leaves the CANDIDATE state (it cannot fire twice for one election)")

    # ---- C11-7 match_index provenance + schema
    okm = False
    for c in calls_in(ae.node):
        if path_of(c.func) == "self._network.send":
            pl = [k.value for k in c.keywords if k.arg == "payload"]
            if pl and isinstance(pl[0], ast.Dict):
                d = {k.value: v for k, v in zip(pl[0].keys, pl[0].values) if isinstance(k, ast.Constant)}
                if isinstance(d.get("success"), ast.Constant) and d["success"].value is True:
                    okm = unparse(d.get("match_index")).replace(" ", "") == "prev_log_index+len(entries)"
    ctx.ob("C11-7", "G7", ae, "match_index = verified prefix", okm, "a successful reply reports the prefix verified against this request (prev_log_index + len(entries)), not the follower's own log length")
    ar = prog.func(RAFT, "RaftNode._handle_append_entries_response")
    rff = ctx.flow(ar)
    mi = stmts_matching(ar, "self._match_index[follower] = match_index")
    okr = len(mi) == 1 and rff.holds_at(node_of(rff.cfg, mi[0][0]), Fact("truthy", "success")) and rff.holds_at(node_of(rff.cfg, mi[0][0]), Fact("eq", "RaftState.LEADER", "self._state"))
    if okr:
        wn = node_of(rff.cfg, mi[0][0])
        okr = rff.holds_at(wn, Fact("le", "self._current_term", "term")) or rff.holds_at(wn, Fact("eq", "self._current_term", "term"))
        # the same for every other leader-state write of this handler
        for st in walk_stmts(ar.node.body):
            if isinstance(st, ast.Assign) and unparse(st.targets[0]).startswith(("self._next_index[", "self._match_index[")):
                n2 = node_of(rff.cfg, st)
                if not (rff.holds_at(n2, Fact("le", "self._current_term", "term")) or rff.holds_at(n2, Fact("eq", "self._current_term", "term"))):
                    okr = False
    src = stmts_matching(ar, "match_index = metadata.get('match_index', 0)")
    ctx.ob("C11-7", "G7", ar, mi[0][0] if mi else None, okr and len(src) == 1, "the leader records exactly the match_index the follower reported, only on success, only while leader, and only from a reply of its current term (a reply from an earlier leadership stint says nothing about the current log)")
    protocol_schema(ctx, "C11-7", node)

    ctx.guarded(rule_round2)
    ctx.guarded(rule_hunted)
    ctx.guarded(rule_network_dependency)
    ctx.guarded(rule_append_entries_carry_the_suffix)
    for r, k in (("C11-1", 4), ("C11-2", 2), ("C11-3", 6), ("C11-4", 3), ("C11-5", 5), ("C11-6", 3), ("C11-7", 6), ("C11-8", 2), ("C11-9", 1)):
        ctx.floor(r, k)


MUTANTS = [
    ("backoff-probe-without-entries-keeps-leader-commit", RAFT, ["                    \"entries\": entry_dicts,\n                    \"leader_commit\": self._log.commit_index,\n                },\n                daemon=True,\n            )\n            return [msg]"], ["                    \"entries\": [],\n                    \"leader_commit\": self._log.commit_index,\n                },\n                daemon=True,\n            )\n            return [msg]"], "C11-10"),
    ("raft-falsy-state-machine-discarded", RAFT, "state_machine if state_machine is not None else KVStateMachine()", "state_machine or KVStateMachine()", "C11-6"),
    ("deposed-leader-gets-no-timer", RAFT, "        if vote_granted or deposed:", "        if vote_granted:", "C11-3"),
    ("tally-closed-form-strict", RAFT, '            count = 1  # self\n            for match_idx in self._match_index.values():\n                if match_idx >= n:\n                    count += 1\n', '            count = 1 + sum(1 for m in self._match_index.values() if m > n)\n', "C11-4"),
    ("tally-closed-form-counts-self-twice", RAFT, '            count = 1  # self\n            for match_idx in self._match_index.values():\n                if match_idx >= n:\n                    count += 1\n', '            count = 2 + sum(1 for m in self._match_index.values() if m >= n)\n', "C11-4"),
    ("tally-closed-form-counts-everyone", RAFT, '            count = 1  # self\n            for match_idx in self._match_index.values():\n                if match_idx >= n:\n                    count += 1\n', '            count = 1 + sum(1 for m in self._match_index.values())\n', "C11-4"),
    ("truncate-from-skips-index-one", LOG, "        if index < 1 or index > len(self._entries):\n            return 0\n        removed", "        if not 1 < index <= len(self._entries):\n            return 0\n        removed", "C11-5"),
    ("heal-keeps-partition-handles", NETW, "        self._partitioned_pairs.clear()", "        self._partitioned_pairs.clear()\n        self._active_partitions = list(self._active_partitions)", "C11-NONE"),
    ("heal-forgets-partition-handles", NETW, "        self._active_partitions.clear()\n", "", "C11-9"),
    ("stale-term-ack-accepted", RAFT, "        if term < self._current_term:\n            return []\n\n        if follower is None:", "        if follower is None:", "C11-7"),
    ("vote-ignores-prior-vote", RAFT, "            and (self._voted_for is None or self._voted_for == candidate)\n", "", "C11-1"),
    ("vote-log-check-index-only", RAFT, "                or (last_log_term == self._log.last_term and last_log_index >= self._log.last_index)", "                or last_log_index >= self._log.last_index", "C11-1"),
    ("vote-log-check-dropped", RAFT, "            and (\n                last_log_term > self._log.last_term\n                or (last_log_term == self._log.last_term and last_log_index >= self._log.last_index)\n            )\n", "", "C11-1"),
    ("step-down-forgets-vote-same-term", RAFT, "        if new_term > self._current_term:\n            self._voted_for = None", "        if new_term >= self._current_term:\n            self._voted_for = None", "C11-2"),
    ("step-down-forgets-vote-always", RAFT, "        if new_term > self._current_term:\n            self._voted_for = None", "        self._voted_for = None", "C11-2"),
    ("term-adopts-older", RAFT, "        if term < self._current_term:\n            resp = self._network.send(", "        if term < self._current_term - 1:\n            resp = self._network.send(", "C11-5"),
    ("commit-any-term", RAFT, "            if entry is None or entry.term != self._current_term:\n                continue", "            if entry is None:\n                continue", "C11-4"),
    ("commit-without-quorum", RAFT, "            if count >= self.quorum_size:\n                newly_committed = self._log.advance_commit(n)", "            if count >= self.quorum_size - 1:\n                newly_committed = self._log.advance_commit(n)", "C11-4"),
    ("quorum-half", RAFT, "        return (total // 2) + 1", "        return (total + 1) // 2", "C11-4"),
    ("count-any-follower", RAFT, "                if match_idx >= n:\n                    count += 1", "                if match_idx >= 0:\n                    count += 1", "C11-4"),
    ("append-without-prev-check", RAFT, "            if prev_entry is None or prev_entry.term != prev_log_term:\n                resp = self._network.send(", "            if prev_entry is None:\n                resp = self._network.send(", "C11-5"),
    ("truncate-on-any-existing", RAFT, "            if existing and existing.term != entry_term:\n                self._log.truncate_from(idx)", "            if existing:\n                self._log.truncate_from(idx)", "C11-5"),
    ("futures-not-purged", RAFT, "                for stale in [i for i in self._pending_futures if i >= idx]:\n                    del self._pending_futures[stale]\n", "", "C11-8"),
    ("match-index-own-log", RAFT, "                \"match_index\": prev_log_index + len(entries),", "                \"match_index\": self._log.last_index,", "C11-7"),
    ("leader-from-any-state", RAFT, "        if self._state != RaftState.CANDIDATE or term != self._current_term:\n            return []", "        if term != self._current_term:\n            return []", "C11-6"),
    ("votes-counted-ungranted", RAFT, "        if granted and voter:\n            self._votes_received_set.add(voter)", "        if voter:\n            self._votes_received_set.add(voter)", "C11-6"),
    ("apply-without-order-guard", RAFT, "            if entry.index > self._last_applied:\n                result = self._state_machine.apply(entry.command)", "            if True:\n                result = self._state_machine.apply(entry.command)", "C11-3"),
    ("advance-commit-backwards", LOG, "        if new_commit_index <= self.commit_index:\n            return []", "        if new_commit_index == self.commit_index:\n            return []", "C11-3"),
    ("vote-request-missing-log-term", RAFT, "                    \"last_log_index\": self._log.last_index,\n                    \"last_log_term\": self._log.last_term,", "                    \"last_log_index\": self._log.last_index,", "C11-NONE"),
    ("append-response-missing-success", RAFT, "                    \"term\": self._current_term,\n                    \"success\": False,\n                    \"from\": self.name,\n                    \"match_index\": 0,\n                },\n                daemon=True,\n            )\n            return [resp]", "                    \"term\": self._current_term,\n                    \"from\": self.name,\n                    \"match_index\": 0,\n                },\n                daemon=True,\n            )\n            return [resp]", "C11-7"),
]
MUTANTS = [m for m in MUTANTS if m[4] != "C11-NONE"]
REFACTORS = [
    ("tally-closed-form", RAFT, '            count = 1  # self\n            for match_idx in self._match_index.values():\n                if match_idx >= n:\n                    count += 1\n', '            count = 1 + sum(1 for m in self._match_index.values() if m >= n)\n'),
    ("vote-test-split", RAFT, "        if term > self._current_term:\n            self._step_down(term)\n        deposed = was_leader", "        if self._current_term < term:\n            self._step_down(term)\n        deposed = was_leader"),
]
