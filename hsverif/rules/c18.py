"""C18 — logical clocks respect causality; CRDT merges form a semilattice (algebraic-shape clauses)."""

from __future__ import annotations

import ast
import itertools

from .. import AnalysisError
from ..astutil import calls_in, norm_stmt, path_of, unparse, walk_scope, walk_stmts
from ..facts import Fact, atoms, enumerate_paths
from ..report import Ctx
from .c17 import _dominance_summary
from .common import NotTabulable, OrderEval, always_before, need, node_of, stmts_matching

LC = "happysimulator/core/logical_clocks.py"
GC = "happysimulator/components/crdt/g_counter.py"
PN = "happysimulator/components/crdt/pn_counter.py"
LWW = "happysimulator/components/crdt/lww_register.py"
ORS = "happysimulator/components/crdt/or_set.py"
STORE = "happysimulator/components/crdt/crdt_store.py"

EXPLANATION = (
    "Clocks: by exhaustive case split over the orderings of their inputs (an abstract evaluation of the method bodies over ranks, no "
    "repo code is executed) LamportClock.receive/send/tick, HybridLogicalClock.now/receive produce a timestamp strictly above the "
    "previous local one and above the received one, never below the physical reading; HLCTimestamp orders lexicographically by "
    "(physical, logical, node); VectorClock.receive joins by element-wise max then advances its own slot, send/snapshot hand out copies, "
    "happened_before is ∀≤ ∧ ∃<. CRDTs: each merge joins component-wise with the lattice operator (max / set union / tombstone union / "
    "greater-timestamp-wins), writes only its own object, copies what it adopts, and every mutator only moves the state up the lattice "
    "(positive increments into the own slot, fresh OR-set tags, removes recorded as tombstones). to_dict/from_dict agree on their keys, "
    "restore every slot and apply no lossy conversion. CRDTStore merges through the type's own merge and creates local replicas under its own identity."
)
RULE_TEXT = "Instances: per clock method × ordering table, per CRDT × (merge, mutators, equality, serialisation), per store handler."
NOT_DECIDED = ["the vector-clock *iff* direction over real message histories (needs the history)", "NodeClock skew/drift models (numeric)",
               "LWWRegister with equal timestamps from different writers cannot occur only because HLC timestamps embed the node id (trusted)"]
ASSUMPTIONS = ["HLC timestamps of different nodes never compare equal (node_id is part of the order)", "physical clock readings are integers"]


def _post_state(fn, env, calls=None):
    ev = OrderEval(env, calls=calls)
    try:
        ret = ev.run(fn.node)
    except NotTabulable as exc:
        raise AnalysisError(f"C18-1: {fn.key} is not tabulable ({exc})") from exc
    return ret, ev


def rule_clocks(ctx: Ctx) -> None:
    prog = ctx.prog
    # ---- Lamport
    rc = prog.func(LC, "LamportClock.receive")
    bad = []
    n = 0
    for a, b in itertools.product(range(3), repeat=2):
        n += 1
        _, ev = _post_state(rc, {"self._time": a, "remote_ts": b})
        new = ev.env["self._time"]
        if not (new > a and new > b):
            bad.append(f"local={a} remote={b} -> {new}")
    ctx.ob("C18-1", "G3", rc, "receive > local, > remote", not bad, f"LamportClock.receive ends strictly above both the local and the received timestamp ({n} orderings)" + ("" if not bad else " — " + "; ".join(bad[:3])))
    for q in ("LamportClock.send", "LamportClock.tick"):
        fn = prog.func(LC, q)
        ret, ev = _post_state(fn, {"self._time": 5})
        ok = ev.env["self._time"] > 5 and (q.endswith("tick") or ret == ev.env["self._time"])
        ctx.ob("C18-1", "G3", fn, "strictly advances", ok, f"{q} strictly advances the counter" + (" and returns the new value" if q.endswith("send") else ""))
    ctx.stats["decision_table_cases"] = ctx.stats.get("decision_table_cases", 0) + n + 2

    # ---- HLC
    def mk_ts(ev: OrderEval, call: ast.Call):
        kw = {k.arg: ev.ev(k.value) for k in call.keywords}
        if call.args:
            for name, a in zip(("physical_ns", "logical", "node_id"), call.args):
                kw[name] = ev.ev(a)
        return dict(kw)

    now = prog.func(LC, "HybridLogicalClock.now")
    bad = []
    cases = 0
    for pt, lp, ll in itertools.product(range(3), range(3), range(2)):
        cases += 1
        env = {"self._last": {"physical_ns": lp, "logical": ll, "node_id": "me"}, "self._node_id": "me"}
        ret, ev = _post_state(now, env, calls={"HLCTimestamp": mk_ts, "self._get_physical_ns": lambda e, c, pt=pt: pt})
        new = ev.env["self._last"]
        if not (isinstance(new, dict) and (new["physical_ns"], new["logical"]) > (lp, ll) and new["physical_ns"] >= pt and new["node_id"] == "me" and ret == new):
            bad.append(f"pt={pt} last=({lp},{ll}) -> {new}")
    ctx.ob("C18-1", "G3", now, "now() > last, >= physical", not bad, f"HybridLogicalClock.now returns a timestamp lexicographically above the previous one and not below the physical reading ({cases} cases)" + ("" if not bad else " — " + "; ".join(bad[:3])))
    rcv = prog.func(LC, "HybridLogicalClock.receive")
    bad = []
    c2 = 0
    for pt, lp, rp, ll, rl in itertools.product(range(3), range(3), range(3), range(3), range(3)):
        c2 += 1
        env = {"self._last": {"physical_ns": lp, "logical": ll, "node_id": "me"}, "self._node_id": "me", "remote": {"physical_ns": rp, "logical": rl, "node_id": "them"}}
        _, ev = _post_state(rcv, env, calls={"HLCTimestamp": mk_ts, "self._get_physical_ns": lambda e, c, pt=pt: pt})
        new = ev.env["self._last"]
        if not (isinstance(new, dict) and (new["physical_ns"], new["logical"]) > (lp, ll) and (new["physical_ns"], new["logical"]) > (rp, rl) and new["physical_ns"] >= pt and new["node_id"] == "me"):
            bad.append(f"pt={pt} last=({lp},{ll}) remote=({rp},{rl}) -> {new}")
        # tightness: the physical part never runs ahead of max(pt, last, remote)
        elif new["physical_ns"] != max(pt, lp, rp):
            bad.append(f"pt={pt} last=({lp},{ll}) remote=({rp},{rl}) -> physical {new['physical_ns']} is not the max of the three")
    ctx.ob("C18-1", "G3", rcv, "receive() > last, > remote", not bad, f"HybridLogicalClock.receive ends lexicographically above the previous local timestamp and above the received one, physical part = max of the three readings ({c2} cases)"
           + ("" if not bad else " — " + "; ".join(bad[:3])))
    ctx.stats["decision_table_cases"] = ctx.stats.get("decision_table_cases", 0) + cases + c2
    snd = prog.func(LC, "HybridLogicalClock.send")
    rets = [s for s in walk_stmts(snd.node.body) if isinstance(s, ast.Return)]
    ctx.ob("C18-1", "G4", snd, rets[0] if rets else None, len(rets) == 1 and unparse(rets[0].value) == "self.now()", "HybridLogicalClock.send is now()")
    ts = prog.cls(LC, "HLCTimestamp")
    lt = ts.methods["__lt__"]
    r = [s for s in walk_stmts(lt.node.body) if isinstance(s, ast.Return)]
    ok = len(r) == 1 and isinstance(r[0].value, ast.Compare) and isinstance(r[0].value.ops[0], ast.Lt) and \
        [unparse(e) for e in r[0].value.left.elts] == ["self.physical_ns", "self.logical", "self.node_id"] and [unparse(e) for e in r[0].value.comparators[0].elts] == ["other.physical_ns", "other.logical", "other.node_id"]
    eq = ts.methods["__eq__"]
    r2 = [s for s in walk_stmts(eq.node.body) if isinstance(s, ast.Return) and isinstance(s.value, ast.Compare)]
    ok2 = len(r2) == 1 and isinstance(r2[0].value.ops[0], ast.Eq) and [unparse(e) for e in r2[0].value.left.elts] == ["self.physical_ns", "self.logical", "self.node_id"] \
        and [unparse(e) for e in r2[0].value.comparators[0].elts] == ["other.physical_ns", "other.logical", "other.node_id"]
    deco = any(unparse(d) == "functools.total_ordering" for d in ts.node.decorator_list)
    ctx.ob("C18-1", "G3", lt, r[0] if r else None, ok and ok2 and deco, "HLCTimestamp is totally ordered lexicographically by (physical_ns, logical, node_id), equality on the same triple")

    # ---- Vector clock
    vr = prog.func(LC, "VectorClock.receive")
    vf = ctx.flow(vr)
    loops = [s for s in vr.node.body if isinstance(s, ast.For) and unparse(s.iter) == "remote.items()"]
    ok = len(loops) == 1
    why = ""
    if ok:
        k, v = [path_of(e) for e in loops[0].target.elts]
        ws = [s for s in walk_stmts(loops[0].body) if isinstance(s, ast.Assign) and unparse(s.targets[0]).replace(" ", "") == f"self._vector[{k}]"]
        for w in ws:
            known = vf.holds_at(node_of(vf.cfg, w), Fact("in", k, "self._vector"))
            val = unparse(w.value).replace(" ", "")
            if known and val not in (f"max(self._vector[{k}],{v})", f"max({v},self._vector[{k}])"):
                ok, why = False, f"known slot written `{val}`"
            if not known and val not in (v, f"max(self._vector.get({k},0),{v})"):
                ok, why = False, f"unknown slot written `{val}`"
        if len(ws) < 1 or any(isinstance(s, (ast.Break, ast.Continue, ast.Return)) for s in walk_stmts(loops[0].body)):
            ok, why = False, "join loop incomplete"
        own = [s for s in vr.node.body if isinstance(s, ast.AugAssign) and unparse(s.target).replace(" ", "") == "self._vector[self._node_id]" and isinstance(s.op, ast.Add) and unparse(s.value) == "1"]
        if not (len(own) == 1 and vr.node.body.index(own[0]) > vr.node.body.index(loops[0])):
            ok, why = False, "own slot not advanced after the join"
    ctx.ob("C18-1", "G9", vr, loops[0] if loops else None, ok, "VectorClock.receive takes the element-wise max with the received vector and then advances its own slot" + (f" — {why}" if why else ""))
    for q in ("VectorClock.send", "VectorClock.tick"):
        fn = prog.func(LC, q)
        own = [s for s in fn.node.body if isinstance(s, ast.AugAssign) and unparse(s.target).replace(" ", "") == "self._vector[self._node_id]" and isinstance(s.op, ast.Add) and unparse(s.value) == "1"]
        ok = len(own) == 1
        if q.endswith("send"):
            rets = [s for s in fn.node.body if isinstance(s, ast.Return)]
            ok = ok and len(rets) == 1 and unparse(rets[0].value) in ("dict(self._vector)", "self._vector.copy()", "self.snapshot()") and fn.node.body.index(rets[0]) > fn.node.body.index(own[0])
        ctx.ob("C18-1", "G9", fn, own[0] if own else None, ok, f"{q} advances exactly its own slot" + (" and hands out a copy of the vector (later events do not change a sent timestamp)" if q.endswith("send") else ""))
    sn = prog.func(LC, "VectorClock.snapshot")
    rets = [s for s in sn.node.body if isinstance(s, ast.Return)]
    ctx.ob("C18-1", "G9", sn, rets[0] if rets else None, len(rets) == 1 and unparse(rets[0].value) in ("dict(self._vector)", "self._vector.copy()"), "VectorClock.snapshot returns a copy")
    hb = prog.func(LC, "VectorClock.happened_before")
    got = _dominance_summary(hb)
    ctx.ob("C18-1", "G4", hb, "∀≤ ∧ ∃<", got == ("other._vector", "self._vector"), f"happened_before(self, other) ⇔ other ≥ self componentwise with one strict (recognised: {got})")
    ic = prog.func(LC, "VectorClock.is_concurrent")
    rets = [s for s in ic.node.body if isinstance(s, ast.Return)]
    ok = len(rets) == 1 and isinstance(rets[0].value, ast.BoolOp) and isinstance(rets[0].value.op, ast.And) and \
        sorted(unparse(v).replace(" ", "") for v in rets[0].value.values) == ["notother.happened_before(self)", "notself.happened_before(other)"]
    ctx.ob("C18-1", "G3", ic, rets[0] if rets else None, ok, "concurrent ⇔ neither happened before the other")
    mg = prog.func(LC, "VectorClock.merge")
    ws = [s for s in walk_stmts(mg.node.body) if isinstance(s, ast.Assign) and unparse(s.targets[0]).replace(" ", "") == "merged._vector[k]"]
    ok = len(ws) == 1 and unparse(ws[0].value).replace(" ", "").replace(",)", ")") == "max(self._vector.get(k,0),other._vector.get(k,0))" and not any(unparse(s.targets[0]).startswith(("self.", "other.")) for s in walk_stmts(mg.node.body) if isinstance(s, ast.Assign))
    ctx.ob("C18-1", "G9", mg, ws[0] if ws else None, ok, "VectorClock.merge builds a new clock with the element-wise max and changes neither operand")


def _writes_through(fn, name: str) -> list[ast.AST]:
    """statements/calls in fn that mutate state reachable from parameter `name`"""
    out = []
    for n in walk_scope(fn.node):
        if isinstance(n, (ast.Assign, ast.AugAssign)):
            for t in (n.targets if isinstance(n, ast.Assign) else [n.target]):
                if (path_of(t) or unparse(t)).startswith(name + "."):
                    out.append(n)
        if isinstance(n, ast.Call) and isinstance(n.func, ast.Attribute) and n.func.attr in ("clear", "add", "update", "pop", "remove", "discard", "append", "setdefault", "difference_update") and (path_of(n.func.value) or "").startswith(name + "."):
            out.append(n)
    return out


def rule_crdts(ctx: Ctx) -> None:
    prog = ctx.prog
    # ---- GCounter
    g = prog.cls(GC, "GCounter")
    mg = g.methods["merge"]
    lp = [s for s in mg.node.body if isinstance(s, ast.For) and unparse(s.iter) == "other._counts.items()"]
    ok = len(lp) == 1
    if ok:
        k, v = [path_of(e) for e in lp[0].target.elts]
        ws = [s for s in walk_stmts(lp[0].body)]
        ok = len(ws) == 1 and isinstance(ws[0], ast.Assign) and unparse(ws[0].targets[0]).replace(" ", "") == f"self._counts[{k}]" and unparse(ws[0].value).replace(" ", "") in (f"max(self._counts.get({k},0),{v})", f"max({v},self._counts.get({k},0))")
    ctx.ob("C18-2", "G9", mg, lp[0] if lp else None, ok and not _writes_through(mg, "other"), "GCounter.merge is the element-wise max (join of the product lattice) and leaves the other replica untouched")
    inc = g.methods["increment"]
    fi = ctx.flow(inc)
    ws = [s for s in walk_stmts(inc.node.body) if isinstance(s, ast.Assign) and unparse(s.targets[0]).startswith("self._counts[")]
    guard = [s for s in walk_stmts(inc.node.body) if isinstance(s, ast.If) and {f.sig for f in atoms(s.test, True)} == {("lt", "n", "1")} and any(isinstance(b, ast.Raise) for b in s.body)]
    ok = len(ws) == 1 and unparse(ws[0].targets[0]).replace(" ", "") == "self._counts[self._node_id]" and unparse(ws[0].value).replace(" ", "") == "self._counts.get(self._node_id,0)+n" and len(guard) == 1 \
        and not always_before(ctx, inc, lambda x: x.kind == "test" and x.ast is guard[0].test, lambda x: x.ast is ws[0])
    ctx.ob("C18-2", "G9", inc, ws[0] if ws else None, ok, "GCounter.increment adds a positive amount to this replica's own slot only (an inflation)")
    for m in g.methods.values():
        if m.name in ("__init__", "merge", "increment", "from_dict"):
            continue
        for st in walk_stmts(m.node.body):
            if isinstance(st, (ast.Assign, ast.AugAssign, ast.Delete)) and "self._counts" in unparse(st.targets[0] if isinstance(st, ast.Assign) else st.target if isinstance(st, ast.AugAssign) else st.targets[0]):
                ctx.ob("C18-2", "G9", m, st, False, f"GCounter.{m.name} writes the counts outside increment/merge")
    val = g.methods["value"]
    r = [s for s in val.node.body if isinstance(s, ast.Return)]
    ctx.ob("C18-2", "G3", val, r[0] if r else None, len(r) == 1 and unparse(r[0].value) == "sum(self._counts.values())", "GCounter.value is the sum over all slots")
    eq = g.methods["__eq__"]
    r = [s for s in eq.node.body if isinstance(s, ast.Return) and isinstance(s.value, ast.Compare)]
    ctx.ob("C18-2", "G3", eq, r[0] if r else None, len(r) == 1 and unparse(r[0].value) == "self._counts == other._counts", "GCounter equality is equality of the per-node counts")
    # ---- PNCounter
    p = prog.cls(PN, "PNCounter")
    calls = [unparse(c).replace(" ", "") for c in calls_in(p.methods["merge"].node)]
    ctx.ob("C18-2", "G9", p.methods["merge"], "P with P, N with N", sorted(calls) == ["self._n.merge(other._n)", "self._p.merge(other._p)"] and not _writes_through(p.methods["merge"], "other"), "PNCounter.merge joins the increment counters with each other and the decrement counters with each other")
    ok = [unparse(c).replace(" ", "") for c in calls_in(p.methods["increment"].node)] == ["self._p.increment(n)"] and [unparse(c).replace(" ", "") for c in calls_in(p.methods["decrement"].node)] == ["self._n.increment(n)"]
    ctx.ob("C18-2", "G9", p.methods["increment"], "increment → P, decrement → N", ok, "PNCounter increments go to P, decrements to N, both as positive G-counter increments")
    r = [s for s in p.methods["value"].node.body if isinstance(s, ast.Return)]
    ctx.ob("C18-2", "G3", p.methods["value"], r[0] if r else None, len(r) == 1 and unparse(r[0].value) == "self._p.value - self._n.value", "PNCounter.value = increments − decrements")
    r = [s for s in p.methods["__eq__"].node.body if isinstance(s, ast.Return) and isinstance(s.value, ast.BoolOp)]
    ctx.ob("C18-2", "G3", p.methods["__eq__"], r[0] if r else None, len(r) == 1 and unparse(r[0].value).replace(" ", "") == "self._p==other._pandself._n==other._n", "PNCounter equality compares both components")
    # ---- LWW
    lw = prog.cls(LWW, "LWWRegister")
    for q, argts, argval in (("set", "timestamp", "value"), ("merge", "other._timestamp", "other._value")):
        fn = lw.methods[q]
        bad = []
        # the held and the incoming value may be *equal* too: re-writing the held value later is still the later write (its timestamp must
        # be taken over, or a concurrent write in between wins everywhere)
        for (cur, new), (vold, vnew) in itertools.product(itertools.product((None, 1, 2), (None, 1, 2)), (("old", "new"), ("same", "same"))):
            if q == "set" and new is None:
                continue
            env = {"self._timestamp": cur, "self._value": vold, argts: new, argval: vnew}
            if q == "merge":
                env["other"] = {"_timestamp": new, "_value": vnew}
            _, ev = _post_state(fn, env)
            got = (ev.env["self._value"], ev.env["self._timestamp"])
            want = (vnew, new) if (new is not None and (cur is None or new > cur)) else (vold, cur)
            if got != want:
                bad.append(f"current={cur}/{vold!r} incoming={new}/{vnew!r}: got {got}, want {want}")
        ctx.ob("C18-3", "G3", fn, "greatest timestamp wins", not bad, f"LWWRegister.{q}: the write with the strictly greater timestamp wins, value and timestamp move together, ties/older keep the current pair" + ("" if not bad else " — " + "; ".join(bad[:3])))
    ctx.ob("C18-3", "G9", lw.methods["merge"], "merge leaves other untouched", not _writes_through(lw.methods["merge"], "other"), "LWWRegister.merge changes only this replica")
    r = [s for s in lw.methods["__eq__"].node.body if isinstance(s, ast.Return) and isinstance(s.value, ast.BoolOp)]
    ctx.ob("C18-3", "G3", lw.methods["__eq__"], r[0] if r else None, len(r) == 1 and unparse(r[0].value).replace(" ", "") == "self._value==other._valueandself._timestamp==other._timestamp", "LWWRegister equality compares value and timestamp")
    # ---- ORSet
    o = prog.cls(ORS, "ORSet")
    add = o.methods["add"]
    tag = stmts_matching(add, "tag = (self._node_id, self._seq)")
    bump = [s for s in walk_stmts(add.node.body) if isinstance(s, ast.AugAssign) and path_of(s.target) == "self._seq" and unparse(s.value) == "1" and isinstance(s.op, ast.Add)]
    put = [c for c in calls_in(add.node) if unparse(c.func).replace(" ", "") == "self._entries[element].add" and [path_of(a) for a in c.args] == ["tag"]]
    ok = len(tag) == 1 and len(bump) == 1 and len(put) == 1 and not always_before(ctx, add, lambda x: x.ast is tag[0][0], lambda x: x.ast is bump[0])
    af = ctx.flow(add)
    ok = ok and not [n for n in af.cfg.nodes if n.kind == "stmt" and isinstance(n.ast, ast.Return)]  # unconditional
    ctx.ob("C18-2", "G9", add, tag[0][0] if tag else None, ok, "ORSet.add tags the element with a fresh (node, sequence) pair — read, then advance — on every call")
    rm = o.methods["remove"]
    tomb = [s for s in walk_stmts(rm.node.body) if isinstance(s, ast.AugAssign) and path_of(s.target) == "self._removed" and isinstance(s.op, ast.BitOr) and unparse(s.value).replace(" ", "") == "self._entries[element]"]
    clr = [c for c in calls_in(rm.node) if unparse(c.func).replace(" ", "") == "self._entries[element].clear"]
    drops = [n for n in walk_scope(rm.node) if (isinstance(n, ast.Delete) and "self._entries" in unparse(n)) or (isinstance(n, ast.Call) and unparse(n.func).replace(" ", "") in ("self._entries.pop", "self._entries[element].discard", "self._entries[element].remove"))]
    ok = len(tomb) == 1 and not always_before(ctx, rm, lambda x: x.ast is tomb[0], lambda x: any(x is node_of(ctx.flow(rm).cfg, c) for c in clr)) and (len(clr) == 1 or drops) and not (drops and not tomb)
    ctx.ob("C18-2", "G9", rm, tomb[0] if tomb else None, ok, "ORSet.remove records the observed tags as tombstones before dropping them (a remove moves the state up the lattice, so merging an older replica cannot resurrect the element)")
    mg = o.methods["merge"]
    t_union = [s for s in mg.node.body if isinstance(s, ast.AugAssign) and path_of(s.target) == "self._removed" and isinstance(s.op, ast.BitOr) and path_of(s.value) == "other._removed"]
    lp = [s for s in mg.node.body if isinstance(s, ast.For) and unparse(s.iter) == "other._entries.items()"]
    ok = len(t_union) == 1 and len(lp) == 1
    why = ""
    if ok:
        e, tg = [path_of(x) for x in lp[0].target.elts]
        mf = ctx.flow(mg)
        adopt = [s for s in walk_stmts(lp[0].body) if isinstance(s, ast.Assign) and unparse(s.targets[0]).replace(" ", "") == f"self._entries[{e}]"]
        union = [s for s in walk_stmts(lp[0].body) if isinstance(s, ast.AugAssign) and unparse(s.target).replace(" ", "") == f"self._entries[{e}]" and isinstance(s.op, ast.BitOr) and path_of(s.value) == tg]
        if not (len(adopt) == 1 and unparse(adopt[0].value).replace(" ", "") in (f"set({tg})", f"{tg}.copy()", f"{tg}|set()") and mf.holds_at(node_of(mf.cfg, adopt[0]), Fact("notin", e, "self._entries"))):
            ok, why = False, "an element unknown here must adopt a *copy* of the other replica's tags"
        if len(union) != 1:
            ok, why = False, "tags of a known element are not united"
        sub = [s for s in mg.node.body if isinstance(s, ast.For) and unparse(s.iter) == "self._entries.values()" and any(isinstance(b, ast.AugAssign) and isinstance(b.op, ast.Sub) and path_of(b.value) == "self._removed" and path_of(b.target) == path_of(s.target) for b in s.body)]
        if not (len(sub) == 1 and mg.node.body.index(sub[0]) > mg.node.body.index(lp[0]) and mg.node.body.index(sub[0]) > mg.node.body.index(t_union[0])):
            ok, why = False, "tombstoned tags are not removed after the unions"
        if any(isinstance(s, (ast.Break, ast.Continue, ast.Return)) for s in walk_stmts(mg.node.body)):
            ok, why = False, "early exit in merge"
    ctx.ob("C18-2", "G9", mg, lp[0] if lp else None, ok and not _writes_through(mg, "other"), "ORSet.merge = union of tombstones, union of tags per element, minus tombstones; adopts copies; the other replica is untouched" + (f" — {why}" if why else ""))
    for q in ("elements", "contains", "__len__", "__iter__", "__eq__"):
        fn = o.methods[q]
        txt = unparse(fn.node)
        ok = ("if tags" in txt) or ("bool(self._entries.get(element))" in txt)
        ctx.ob("C18-2", "G3", fn, "present ⇔ a live tag", ok, f"ORSet.{q}: an element is present exactly when it has at least one tag not removed")
    for m in o.methods.values():
        if m.name in ("__init__", "add", "remove", "merge", "from_dict"):
            continue
        adds = [n for n in walk_scope(m.node) if isinstance(n, (ast.Assign, ast.AugAssign)) and any(unparse(t).startswith(("self._entries", "self._removed", "self._seq")) for t in (n.targets if isinstance(n, ast.Assign) else [n.target]))]
        if adds:
            ctx.ob("C18-2", "G9", m, adds[0], False, f"ORSet.{m.name} writes the state outside add/remove/merge")


def rule_serialisation(ctx: Ctx) -> None:
    prog = ctx.prog
    for rel, cname in ((GC, "GCounter"), (PN, "PNCounter"), (LWW, "LWWRegister"), (ORS, "ORSet"), (LC, "HLCTimestamp")):
        c = prog.cls(rel, cname)
        td, fd = c.methods["to_dict"], c.methods["from_dict"]
        rets = [s for s in walk_stmts(td.node.body) if isinstance(s, ast.Return) and isinstance(s.value, ast.Dict)]
        need(len(rets) == 1, f"C18-4: {cname}.to_dict should return one dict literal")
        written = {k.value: v for k, v in zip(rets[0].value.keys, rets[0].value.values) if isinstance(k, ast.Constant)}
        param = [p for p in fd.params() if p not in ("cls", "self")][0]
        read_req, read_opt = set(), set()
        for n in walk_scope(fd.node):
            if isinstance(n, ast.Subscript) and path_of(n.value) == param and isinstance(n.slice, ast.Constant):
                read_req.add(n.slice.value)
            if isinstance(n, ast.Call) and isinstance(n.func, ast.Attribute) and n.func.attr == "get" and path_of(n.func.value) == param and n.args and isinstance(n.args[0], ast.Constant):
                read_opt.add(n.args[0].value)
        missing = sorted(read_req - set(written))
        unread = sorted(set(written) - read_req - read_opt - {"type"})
        ctx.ob("C18-4", "G8", fd, "keys agree", not missing and not unread, f"{cname}: from_dict reads exactly the keys to_dict writes (written {sorted(written)}; missing {missing}; never read {unread})")
        # every slot of the state is restored
        slots = []
        for st in c.node.body:
            if isinstance(st, ast.Assign) and path_of(st.targets[0]) == "__slots__":
                slots = [e.value for e in st.value.elts]
        if not slots:
            slots = [st.target.id for st in c.node.body if isinstance(st, ast.AnnAssign) and isinstance(st.target, ast.Name)]
        txt_td = unparse(td.node)
        lost = [s for s in slots if f"self.{s}" not in txt_td]
        ctx.ob("C18-4", "G8", td, "every slot serialised", bool(slots) and not lost, f"{cname}.to_dict carries every slot of the state ({slots}; not serialised: {lost})")
        # no lossy conversion of state in to_dict
        lossy = [unparse(n)[:60] for n in walk_scope(td.node) if (isinstance(n, ast.Call) and path_of(n.func) in ("str", "repr", "int", "float", "format", "hash", "id")) or isinstance(n, ast.JoinedStr)]
        ctx.ob("C18-4", "G8", td, "no lossy conversion", not lossy, f"{cname}.to_dict applies no lossy conversion to state (str()/repr()/f-strings turn 1 and '1' into the same key): {lossy}")
        # containers are copied on at least one side
        if cname in ("GCounter",):
            ok = "dict(" in unparse(written.get("counts")) and "dict(" in unparse(fd.node)
            ctx.ob("C18-4", "G9", td, "copies", ok, "GCounter serialisation copies the counts on both sides (a gossiped dict never aliases live state)")
    o = prog.cls(ORS, "ORSet")
    fd = o.methods["from_dict"]
    ok = "tuple(tag)" in unparse(fd.node) and unparse(fd.node).count("tuple(tag)") >= 2
    ctx.ob("C18-4", "G8", fd, "tags restored as tuples", ok, "ORSet.from_dict turns the serialised [node, seq] lists back into hashable (node, seq) tuples for entries and tombstones alike")
    lf = prog.cls(LWW, "LWWRegister").methods["from_dict"]
    ctx.ob("C18-4", "G8", lf, "timestamp restored through HLCTimestamp.from_dict", "HLCTimestamp.from_dict(data['timestamp'])" in unparse(lf.node) and ".to_dict()" in unparse(prog.cls(LWW, "LWWRegister").methods["to_dict"].node),
           "LWWRegister carries its timestamp through HLCTimestamp.to_dict/from_dict")


def rule_store(ctx: Ctx) -> None:
    prog = ctx.prog
    st = prog.cls(STORE, "CRDTStore")
    mr = st.methods["_merge_remote_state"]
    mf = ctx.flow(mr)
    merges = [c for c in calls_in(mr.node) if isinstance(c.func, ast.Attribute) and c.func.attr == "merge"]
    ok = len(merges) == 2 and all(path_of(c.func.value) == "local_crdt" and [path_of(a) for a in c.args] == ["remote_crdt"] for c in merges)
    ctx.ob("C18-5", "G7", mr, merges[0] if merges else None, ok, "CRDTStore merges remote state only through the CRDT type's own merge (never by replacing or hand-merging fields)")
    news = [s for s in walk_stmts(mr.node.body) if isinstance(s, ast.Assign) and path_of(s.targets[0]) == "local_crdt" and isinstance(s.value, ast.Call) and "self._crdts" not in unparse(s.value)]
    ok = len(news) == 1 and unparse(news[0].value).replace(" ", "") in ("type(remote_crdt)(self.name)", "remote_crdt.__class__(self.name)")
    stores = [s for s in walk_stmts(mr.node.body) if isinstance(s, ast.Assign) and unparse(s.targets[0]).replace(" ", "") == "self._crdts[key]"]
    ok = ok and len(stores) == 1 and path_of(stores[0].value) == "local_crdt" and mf.holds_at(node_of(mf.cfg, stores[0]), Fact("notin", "key", "self._crdts"))
    ctx.ob("C18-5", "G7", mr, news[0] if news else None, ok, "a key first seen through gossip gets a local replica created under *this* node's identity and merged with the remote state (adopting the sender's replica would record local updates in the sender's slot)")
    lp = [s for s in mr.node.body if isinstance(s, ast.For)]
    ctx.ob("C18-5", "G2", mr, lp[0] if lp else None, len(lp) == 1 and unparse(lp[0].iter) == "remote_state.items()" and not any(isinstance(s, (ast.Break, ast.Return)) for s in walk_stmts(lp[0].body)), "every key of the received state is merged (no early exit)")
    ex = [s for s in walk_stmts(mr.node.body) if isinstance(s, ast.Assign) and path_of(s.targets[0]) == "remote_crdt"]
    ok = len(ex) == 2 and all("from_dict" in unparse(s.value) or "_reconstruct_crdt" in unparse(s.value) for s in ex)
    ctx.ob("C18-5", "G7", mr, ex[0] if ex else None, ok, "remote state is rebuilt with from_dict of the matching CRDT type")
    goc = st.methods["get_or_create"]
    mk = [s for s in walk_stmts(goc.node.body) if isinstance(s, ast.Assign) and unparse(s.targets[0]).replace(" ", "") == "self._crdts[key]"]
    ctx.ob("C18-5", "G7", goc, mk[0] if mk else None, len(mk) == 1 and unparse(mk[0].value) == "self._crdt_factory(self.name)", "local CRDTs are created with this node's name as replica id")
    for q in ("_handle_gossip_push", "_handle_gossip_response"):
        fn = st.methods[q]
        ff = ctx.flow(fn)
        m = [c for c in calls_in(fn.node) if path_of(c.func) == "self._merge_remote_state"]
        ok = len(m) == 1 and [path_of(a) for a in m[0].args] == ["remote_state"] and len(stmts_matching(fn, "remote_state: dict = metadata.get('state', {})")) == 1
        if q.endswith("push"):
            ser = [c for c in calls_in(fn.node) if path_of(c.func) == "self._serialize_state"]
            ok = ok and len(ser) == 1 and not always_before(ctx, fn, lambda x: x is node_of(ff.cfg, m[0]), lambda x: x is node_of(ff.cfg, ser[0]))
        ctx.ob("C18-5", "G2", fn, m[0] if m else None, ok, f"CRDTStore.{q} merges the received state" + (" before serialising its own reply (push-pull: the reply already contains what was pushed)" if q.endswith("push") else ""))
    ser = st.methods["_serialize_state"]
    r = [s for s in ser.node.body if isinstance(s, ast.Return)]
    ctx.ob("C18-5", "G7", ser, r[0] if r else None, len(r) == 1 and unparse(r[0].value).replace(" ", "") == "{key:crdt.to_dict()forkey,crdtinself._crdts.items()}", "gossip carries the to_dict() of every local CRDT")
    tm = [n for n in walk_scope(st.methods["_reconstruct_crdt"].node) if isinstance(n, ast.Dict) and len(n.keys) >= 4]
    ok = len(tm) == 1 and {k.value: unparse(v) for k, v in zip(tm[0].keys, tm[0].values)} == {"GCounter": "GCounter", "PNCounter": "PNCounter", "LWWRegister": "LWWRegister", "ORSet": "ORSet"}
    ctx.ob("C18-5", "G8", st.methods["_reconstruct_crdt"], tm[0] if tm else None, ok, "the type tag written by each to_dict maps back to the same class")
    for rel, cname in ((GC, "GCounter"), (PN, "PNCounter"), (LWW, "LWWRegister"), (ORS, "ORSet")):
        td = prog.cls(rel, cname).methods["to_dict"]
        tags = [unparse(v) for s in walk_stmts(td.node.body) if isinstance(s, ast.Return) and isinstance(s.value, ast.Dict) for k, v in zip(s.value.keys, s.value.values) if isinstance(k, ast.Constant) and k.value == "type"]
        ctx.ob("C18-5", "G8", td, "type tag", tags == [repr(cname)], f"{cname}.to_dict tags its state with its own class name")


def rule_gossip_always_merges(ctx: Ctx) -> None:
    """C18-5: replicas converge because every received state is joined into the local one.  (a) Both gossip handlers reach
    `_merge_remote_state(remote_state)` on every path — no shortcut on "the hashes are equal"; (b) the hash that *is* compared (to decide
    whether there is anything new to push) is computed from the full serialised state (`to_dict()`), not from the resolved values: two
    replicas with equal values can hold different per-replica state (a: +5−2, b: +3 both read 3) and still have to merge."""
    prog = ctx.prog
    for q in ("CRDTStore._handle_gossip_push", "CRDTStore._handle_gossip_response"):
        fn = prog.func(STORE, q)
        ff = ctx.flow(fn)
        ms = [c for c in calls_in(fn.node) if path_of(c.func) == "self._merge_remote_state"]
        ok = len(ms) == 1 and [path_of(a_) for a_ in ms[0].args] == ["remote_state"]
        if ok:
            mn = node_of(ff.cfg, ms[0])
            for p_ in enumerate_paths(ff, ff.cfg.entry):
                if p_.end != "raise" and not any(nd is mn for nd in p_.nodes):
                    ok = False
        ctx.ob("C18-5", "G2", fn, ms[0] if ms else None, ok, f"{q}: the received state is merged on every path through the handler (no early exit before the join)")
    sh = prog.func(STORE, "CRDTStore._state_hash")
    txt = unparse(sh.node)
    per_key = [x for x in ast.walk(sh.node) if isinstance(x, (ast.ListComp, ast.GeneratorExp)) and "self._crdts" in unparse(x)]
    ok = len(per_key) == 1 and ".to_dict()" in unparse(per_key[0].elt) and "sorted(" in unparse(per_key[0])
    ctx.ob("C18-5", "G7", sh, per_key[0] if per_key else None, ok, "CRDTStore._state_hash digests every key's full serialised state (`to_dict()`), in sorted key order — not the resolved value, which "
           "different internal states can share")


def run(ctx: Ctx) -> None:
    ctx.guarded(rule_gossip_always_merges)
    ctx.guarded(rule_clocks)
    ctx.guarded(rule_crdts)
    ctx.guarded(rule_serialisation)
    ctx.guarded(rule_store)
    for r, k in (("C18-1", 13), ("C18-2", 14), ("C18-3", 4), ("C18-4", 17), ("C18-5", 12)):
        ctx.floor(r, k)


MUTANTS = [
    ("lww-set-skips-rewrite-of-held-value", LWW, "        if self._timestamp is None or timestamp > self._timestamp:\n            self._value = value\n            self._timestamp = timestamp\n", "        if self._timestamp is not None and value == self._value:\n            return\n        if self._timestamp is None or timestamp > self._timestamp:\n            self._value = value\n            self._timestamp = timestamp\n", "C18-3"),
    ("gossip-push-skips-merge-on-equal-hash", STORE, "        # Merge remote state into local\n        self._merge_remote_state(remote_state)\n", "        if remote_hash and remote_hash == self._state_hash():\n            return None\n        self._merge_remote_state(remote_state)\n", "C18-5"),
    ("state-hash-over-values", STORE, "{self._crdts[key].to_dict()}", "{self._crdts[key].value!r}", "C18-5"),
    ("lamport-receive-no-increment", LC, "        self._time = max(self._time, remote_ts) + 1", "        self._time = max(self._time, remote_ts)", "C18-1"),
    ("lamport-receive-ignores-local", LC, "        self._time = max(self._time, remote_ts) + 1", "        self._time = remote_ts + 1", "C18-1"),
    ("hlc-now-equal-physical-resets-logical", LC, "        if pt > self._last.physical_ns:\n            self._last = HLCTimestamp(physical_ns=pt, logical=0, node_id=self._node_id)", "        if pt >= self._last.physical_ns:\n            self._last = HLCTimestamp(physical_ns=pt, logical=0, node_id=self._node_id)", "C18-1"),
    ("hlc-receive-tie-takes-local-only", LC, "            logical = max(self._last.logical, remote.logical) + 1", "            logical = self._last.logical + 1", "C18-1"),
    ("hlc-receive-remote-wins-no-increment", LC, "            logical = remote.logical + 1", "            logical = remote.logical", "C18-1"),
    ("hlc-receive-ignores-remote-physical", LC, "        max_pt = max(pt, self._last.physical_ns, remote.physical_ns)", "        max_pt = max(pt, self._last.physical_ns)", "C18-1"),
    ("hlc-order-ignores-logical", LC, "        return (self.physical_ns, self.logical, self.node_id) < (\n            other.physical_ns,\n            other.logical,\n            other.node_id,\n        )", "        return (self.physical_ns, self.node_id) < (\n            other.physical_ns,\n            other.node_id,\n        )", "C18-1"),
    ("vector-receive-overwrites", LC, "                self._vector[nid] = max(self._vector[nid], ts)", "                self._vector[nid] = ts", "C18-1"),
    ("vector-receive-no-own-tick", LC, "                self._vector[nid] = ts\n        self._vector[self._node_id] += 1", "                self._vector[nid] = ts", "C18-1"),
    ("vector-send-aliases", LC, "        self._vector[self._node_id] += 1\n        return dict(self._vector)", "        self._vector[self._node_id] += 1\n        return self._vector", "C18-1"),
    ("vector-hb-weak", LC, "            if local_val < other_val:\n                any_lt = True\n        return all_leq and any_lt", "            if local_val < other_val:\n                any_lt = True\n        return all_leq", "C18-1"),
    ("vector-concurrent-or", LC, "        return not self.happened_before(other) and not other.happened_before(self)", "        return not self.happened_before(other) or not other.happened_before(self)", "C18-1"),
    ("gcounter-merge-sums", GC, "            self._counts[node_id] = max(self._counts.get(node_id, 0), count)", "            self._counts[node_id] = self._counts.get(node_id, 0) + count", "C18-2"),
    ("gcounter-merge-overwrites", GC, "            self._counts[node_id] = max(self._counts.get(node_id, 0), count)", "            self._counts[node_id] = count", "C18-2"),
    ("gcounter-increment-accepts-negative", GC, "        if n < 1:\n            raise ValueError(f\"Increment must be positive, got {n}\")\n", "", "C18-2"),
    ("pncounter-merge-crossed", PN, "        self._p.merge(other._p)\n        self._n.merge(other._n)", "        self._p.merge(other._p)\n        self._n.merge(other._p)", "C18-2"),
    ("pncounter-decrement-on-p", PN, "        self._n.increment(n)", "        self._p.increment(n)", "C18-2"),
    ("lww-merge-ties-take-other", LWW, "        if self._timestamp is None or other._timestamp > self._timestamp:\n            self._value = other._value", "        if self._timestamp is None or other._timestamp >= self._timestamp:\n            self._value = other._value", "C18-3"),
    ("lww-set-value-without-timestamp", LWW, "        if self._timestamp is None or timestamp > self._timestamp:\n            self._value = value\n            self._timestamp = timestamp", "        if self._timestamp is None or timestamp > self._timestamp:\n            self._timestamp = timestamp\n        self._value = value", "C18-3"),
    ("orset-remove-forgets-tombstones", ORS, "            self._removed |= self._entries[element]\n            self._entries[element].clear()", "            self._entries[element].clear()", "C18-2"),
    ("orset-add-reuses-tag", ORS, "        tag = (self._node_id, self._seq)\n        self._seq += 1\n", "        tag = (self._node_id, self._seq)\n", "C18-2"),
    ("orset-merge-aliases-tags", ORS, "                self._entries[element] = set(other_tags)", "                self._entries[element] = other_tags", "C18-2"),
    ("orset-merge-ignores-remote-tombstones", ORS, "        self._removed |= other._removed\n", "", "C18-2"),
    ("orset-merge-keeps-tombstoned-tags", ORS, "        for tags in self._entries.values():\n            tags -= self._removed\n", "", "C18-2"),
    ("orset-to-dict-stringifies", ORS, "            entries[element] = [list(tag) for tag in sorted(tags)]", "            entries[str(element)] = [list(tag) for tag in sorted(tags)]", "C18-4"),
    ("orset-from-dict-drops-tombstones", ORS, "        s._removed = {tuple(tag) for tag in data.get(\"removed\", [])}\n", "", "C18-4"),
    ("orset-to-dict-omits-seq", ORS, "            \"seq\": self._seq,\n", "", "C18-4"),
    ("lww-to-dict-omits-timestamp-conversion", LWW, "            \"timestamp\": self._timestamp.to_dict() if self._timestamp else None,", "            \"timestamp\": str(self._timestamp) if self._timestamp else None,", "C18-4"),
    ("hlc-from-dict-swaps-key", LC, "            logical=d[\"logical\"],", "            logical=d[\"counter\"],", "C18-4"),
    ("store-adopts-remote-replica", STORE, "                    local_crdt = type(remote_crdt)(self.name)\n                    local_crdt.merge(remote_crdt)\n                    self._crdts[key] = local_crdt", "                    self._crdts[key] = remote_crdt", "C18-5"),
    ("store-replaces-instead-of-merging", STORE, "                remote_crdt = local_crdt.__class__.from_dict(remote_dict)\n                local_crdt.merge(remote_crdt)", "                remote_crdt = local_crdt.__class__.from_dict(remote_dict)\n                self._crdts[key] = remote_crdt", "C18-5"),
    ("store-push-replies-before-merge", STORE, ["        # Merge remote state into local\n        self._merge_remote_state(remote_state)\n\n        # Find the requester to send response", "        # Respond with our state\n        state = self._serialize_state()\n"],
     ["        # Find the requester to send response", "        # Respond with our state\n        state = self._serialize_state()\n        self._merge_remote_state(remote_state)\n"], "C18-5"),
    ("store-factory-foreign-id", STORE, "            self._crdts[key] = self._crdt_factory(self.name)", "            self._crdts[key] = self._crdt_factory(key)", "C18-5"),
]
REFACTORS = [
    ("lamport-receive-two-steps", LC, "        self._time = max(self._time, remote_ts) + 1", "        self._time = max(remote_ts, self._time)\n        self._time += 1"),
    ("hlc-receive-branches-reordered", LC, ["        if max_pt == self._last.physical_ns == remote.physical_ns:\n            # All three tied — advance logical past both\n            logical = max(self._last.logical, remote.logical) + 1"],
     ["        if max_pt == remote.physical_ns and max_pt == self._last.physical_ns:\n            logical = 1 + max(remote.logical, self._last.logical)"]),
    ("gcounter-merge-max-args-swapped", GC, "            self._counts[node_id] = max(self._counts.get(node_id, 0), count)", "            self._counts[node_id] = max(count, self._counts.get(node_id, 0))"),
]
