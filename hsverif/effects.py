"""E4 — effect summaries: which ``self`` attributes a method may write / structurally mutate,
whether it may suspend, which self-methods it calls.  Fixed point over ``self.m()`` calls.
"""

from __future__ import annotations

import ast
from dataclasses import dataclass, field

from .astutil import path_of, walk_scope
from .model import FunctionInfo, Program

MUTATORS = {
    "append", "appendleft", "add", "pop", "popleft", "popitem", "remove", "discard", "clear",
    "extend", "extendleft", "insert", "update", "setdefault", "sort", "reverse", "rotate",
    "difference_update", "intersection_update", "symmetric_difference_update", "move_to_end",
    "subtract",
}
ARG0_MUTATORS = {"heappush", "heappop", "heapify", "heapreplace", "heappushpop", "insort", "insort_left", "insort_right", "shuffle"}
READERS = {
    "get", "keys", "values", "items", "copy", "index", "count", "startswith", "endswith", "format",
    "join", "split", "strip", "lower", "upper", "encode", "decode", "hexdigest", "digest",
    "isEnabledFor", "debug", "info", "warning", "error", "exception", "critical", "log",
    "to_seconds", "total_seconds", "bit_length", "union", "intersection", "difference", "issubset",
    "issuperset", "isdisjoint", "most_common", "__next__", "is_integer",
}
PURE_BUILTINS = {
    "len", "min", "max", "sum", "abs", "int", "float", "str", "bool", "repr", "isinstance", "issubclass",
    "getattr", "hasattr", "list", "tuple", "dict", "set", "frozenset", "sorted", "reversed", "enumerate",
    "zip", "range", "any", "all", "iter", "next", "id", "hash", "round", "divmod", "pow", "type", "map",
    "filter", "print", "callable", "format", "bytes", "bytearray", "ord", "chr", "bin", "hex", "vars",
    "super", "object", "ValueError", "RuntimeError", "TypeError", "KeyError", "IndexError",
    "NotImplementedError", "StopIteration", "Exception", "AssertionError", "cast",
}


@dataclass
class Summary:
    writes: set[str] = field(default_factory=set)  # self attribute names (first component) assigned
    mutates: set[str] = field(default_factory=set)  # self attribute names structurally mutated
    calls_self: set[str] = field(default_factory=set)
    unknown_self_call: bool = False
    suspends: bool = False  # contains a yield / yield from

    def touched(self) -> set[str]:
        return self.writes | self.mutates


def _self_attr(expr: ast.AST | None) -> str | None:
    """First attribute name under ``self`` for ``self.x``, ``self.x.y``, ``self.x[k]``…"""
    cur = expr
    last = None
    while True:
        if isinstance(cur, ast.Attribute):
            last = cur.attr
            cur = cur.value
        elif isinstance(cur, ast.Subscript):
            cur = cur.value
            last_sub = True  # noqa: F841
        elif isinstance(cur, ast.Call):
            return None
        else:
            break
    if isinstance(cur, ast.Name) and cur.id == "self":
        return last
    return None


def _targets(t: ast.AST) -> list[ast.AST]:
    if isinstance(t, (ast.Tuple, ast.List)):
        out = []
        for e in t.elts:
            out += _targets(e)
        return out
    if isinstance(t, ast.Starred):
        return _targets(t.value)
    return [t]


def write_targets(stmt: ast.AST) -> list[ast.AST]:
    """Assignment-like targets written by a simple statement / for header / with header."""
    out: list[ast.AST] = []
    if isinstance(stmt, ast.Assign):
        for t in stmt.targets:
            out += _targets(t)
    elif isinstance(stmt, (ast.AugAssign, ast.AnnAssign)):
        if not (isinstance(stmt, ast.AnnAssign) and stmt.value is None):
            out += _targets(stmt.target)
    elif isinstance(stmt, ast.Delete):
        for t in stmt.targets:
            out += _targets(t)
    elif isinstance(stmt, (ast.For, ast.AsyncFor)):
        out += _targets(stmt.target)
    elif isinstance(stmt, (ast.With, ast.AsyncWith)):
        for it in stmt.items:
            if it.optional_vars is not None:
                out += _targets(it.optional_vars)
    for n in walk_scope(stmt):
        if isinstance(n, ast.NamedExpr):
            out.append(n.target)
    return out


def direct_summary(fn: FunctionInfo) -> Summary:
    s = Summary()
    for n in walk_scope(fn.node, include_root=False):
        if isinstance(n, (ast.Yield, ast.YieldFrom, ast.Await)):
            s.suspends = True
        if isinstance(n, (ast.Assign, ast.AugAssign, ast.AnnAssign, ast.Delete)):
            for t in write_targets(n):
                a = _self_attr(t)
                if a is None:
                    continue
                if isinstance(t, ast.Attribute) and isinstance(t.value, ast.Name) and t.value.id == "self":
                    s.writes.add(a)
                else:
                    s.mutates.add(a)
        if isinstance(n, ast.Call):
            f = n.func
            if isinstance(f, ast.Attribute):
                if isinstance(f.value, ast.Name) and f.value.id == "self":
                    s.calls_self.add(f.attr)
                elif f.attr in MUTATORS:
                    a = _self_attr(f.value)
                    if a is not None:
                        s.mutates.add(a)
                elif f.attr in ARG0_MUTATORS and n.args:
                    a = _self_attr(n.args[0])
                    if a is not None:
                        s.mutates.add(a)
            elif isinstance(f, ast.Name) and f.id in ARG0_MUTATORS and n.args:
                a = _self_attr(n.args[0])
                if a is not None:
                    s.mutates.add(a)
    return s


class Effects:
    """Transitive summaries per (class, method)."""

    def __init__(self, prog: Program):
        self.prog = prog
        self._direct: dict[str, Summary] = {}
        self._trans: dict[str, Summary] = {}

    def direct(self, fn: FunctionInfo) -> Summary:
        s = self._direct.get(fn.key)
        if s is None:
            s = direct_summary(fn)
            self._direct[fn.key] = s
        return s

    def transitive(self, fn: FunctionInfo) -> Summary:
        """Summary including everything reachable through ``self.m()`` calls (MRO + overrides)."""
        if fn.key in self._trans:
            return self._trans[fn.key]
        seen: dict[str, FunctionInfo] = {}
        out = Summary()
        stack = [fn]
        while stack:
            cur = stack.pop()
            if cur.key in seen:
                continue
            seen[cur.key] = cur
            d = self.direct(cur)
            out.writes |= d.writes
            out.mutates |= d.mutates
            out.suspends = out.suspends or d.suspends
            if cur.cls is None:
                continue
            for name in d.calls_self:
                targets: list[FunctionInfo] = []
                m = self.prog.lookup_method(cur.cls, name)
                if m is not None:
                    targets.append(m)
                if fn.cls is not None:
                    m2 = self.prog.lookup_method(fn.cls, name)
                    if m2 is not None and m2 not in targets:
                        targets.append(m2)
                for sc in self.prog.subclasses(cur.cls):
                    if name in sc.methods:
                        targets.append(sc.methods[name])
                if not targets:
                    # attribute holding a callable, or a method the model cannot see
                    ai = self.prog.attr_info(cur.cls, name)
                    if ai is None:
                        out.unknown_self_call = True
                out.calls_self.add(name)
                stack.extend(targets)
        self._trans[fn.key] = out
        return out

    def may_suspend(self, fn: FunctionInfo) -> bool:
        return self.direct(fn).suspends
