"""Cross-cutting rules applied to every property's anchored files after its own pack ran.

U — dimension analysis of time quantities (`hsverif/units.py`).  A property whose mechanism computes with time — event timestamps, fault
windows, refill by elapsed time, timeouts, TTLs, heartbeats, watermarks — is broken by any arithmetic in its anchored code that combines
nanoseconds with seconds (or hands one to an API that takes the other): the computed instant or delay is off by 10^9 whatever the inputs.
The rule decides *that* (a necessary condition), not the behaviour.  Functions that only report (repr/str/stats/summary) are not examined.
"""

from __future__ import annotations

import json
import os

from . import units
from . import AnalysisError
from .report import Ctx

_REPORT_ONLY = ("__repr__", "__str__", "stats", "get_stats", "summary", "describe", "to_dict", "snapshot_stats")
_HERE = os.path.dirname(os.path.dirname(os.path.abspath(__file__)))
# typed sites confirmed on the reference tree per property (anti-vacuity: at most a third may disappear before the run is declared broken)
MIN_TOTAL_SITES = 500


def anchored_files(prop: str) -> tuple[str, ...]:
    with open(os.path.join(_HERE, "properties.jsonl"), encoding="utf-8") as fh:
        for line in fh:
            d = json.loads(line)
            if d["id"] == prop:
                return tuple(d["anchors"]["files"])
    raise AnalysisError(f"property {prop} not in properties.jsonl")


def run(ctx: Ctx) -> None:
    prop = ctx.prop
    files = anchored_files(prop)
    if prop == "C07":  # "every component in the library"
        files = ("happysimulator/components/", "happysimulator/faults/", "happysimulator/load/", "happysimulator/core/",
                 "happysimulator/instrumentation/", "happysimulator/parallel/")
    rule = f"{prop}-U"
    n_fn_all, n_sites_all, all_conf = units.analyse(ctx.prog, "happysimulator/")
    if n_sites_all < MIN_TOTAL_SITES:
        raise AnalysisError(f"{rule}: only {n_sites_all} unit-typed sites found in the package (< {MIN_TOTAL_SITES}) — accessor names changed?")
    n_fn = sum(1 for fn in ctx.prog.all_functions("happysimulator/") if fn.module.relpath.startswith(files))
    mine = [(fn, node, msg) for fn, node, msg in all_conf if fn.module.relpath.startswith(files) and fn.name not in _REPORT_ONLY]
    for fn, node, msg in mine:
        ctx.ob(rule, "G10", fn, node, False, f"{fn.qual}: {msg} — a time quantity in this property's anchored code is off by a factor of 10^9")
    ctx.ob(rule, "G10", None, "time-unit consistency of the anchored files", not mine,
           f"{n_fn} functions in {len(files)} anchored path(s): no operator, comparison, constructor, keyword, named store, yield or return combines "
           f"nanoseconds with seconds ({n_sites_all} unit-typed sites package-wide, {len(all_conf)} conflict(s) package-wide)", relpath="happysimulator/")
    ctx.stats["unit_typed_sites"] = n_sites_all
    run_merge_purity(ctx)


# M — merge(self, other) reads its argument and never writes it ----------------------------------------------------------------------------
_MUTATORS = {"pop", "append", "remove", "clear", "extend", "insert", "update", "add", "discard", "sort", "popleft", "appendleft", "popitem",
             "setdefault", "reverse", "difference_update", "intersection_update", "symmetric_difference_update", "__setitem__", "__delitem__"}
_COPIERS = {"list", "dict", "set", "sorted", "tuple", "frozenset", "deepcopy", "copy.deepcopy", "copy.copy", "copy", "deque", "Counter", "bytearray"}
MERGE_PROPS = {"C18": 6, "C20": 6}  # property -> merge methods confirmed on the reference tree (floor)


def _rooted_at(e, names: set[str]) -> bool:
    import ast
    while isinstance(e, (ast.Attribute, ast.Subscript)):
        e = e.value
    return isinstance(e, ast.Name) and e.id in names


def run_merge_purity(ctx: Ctx) -> None:
    """A state-based merge must leave its argument as it found it: the argument is another replica / shard that keeps running (or is merged
    into a third state next), so a merge that drains, reorders or later co-owns the argument's containers changes what *that* replica
    reports and what the next merge sees.  Decided per `merge(self, other)` of the anchored files: no store, `del`, augmented assignment
    or mutating method call on `other`, on anything reached through it, or on a local that is the argument's container itself (bound
    without a copying constructor)."""
    import ast

    from .astutil import path_of, unparse, walk_scope, walk_stmts

    prop = ctx.prop
    if prop not in MERGE_PROPS:
        return
    files = anchored_files(prop)
    rule = f"{prop}-M"
    n = 0
    for fn in ctx.prog.all_functions("happysimulator/"):
        if not fn.module.relpath.startswith(files) or fn.cls is None or fn.name not in ("merge", "merge_from", "merge_with", "_merge_remote_state"):
            continue
        ps = [p for p in fn.params() if p != "self"]
        if not ps:
            continue
        other = {ps[0]}
        # locals that ARE (parts of) the argument: `x = other._a`, `x = other._a[k]`, `for k, x in other._a.items()` — not `x = list(other._a)`
        alias = set(other)
        changed = True
        while changed:
            changed = False
            for st in walk_stmts(fn.node.body):
                if isinstance(st, ast.Assign) and len(st.targets) == 1 and isinstance(st.targets[0], ast.Name):
                    v = st.value
                    if isinstance(v, ast.Call) and isinstance(v.func, ast.Attribute) and v.func.attr in ("get", "items", "values") and _rooted_at(v.func.value, alias):
                        v = v.func.value
                    if _rooted_at(v, alias) and isinstance(v, (ast.Attribute, ast.Subscript, ast.Name)) and st.targets[0].id not in alias:
                        alias.add(st.targets[0].id)
                        changed = True
                elif isinstance(st, ast.For):
                    it = st.iter
                    if isinstance(it, ast.Call) and isinstance(it.func, ast.Attribute) and it.func.attr in ("items", "values") and _rooted_at(it.func.value, alias):
                        tg = st.target.elts[-1] if isinstance(st.target, ast.Tuple) else st.target
                        if isinstance(tg, ast.Name) and tg.id not in alias:
                            alias.add(tg.id)
                            changed = True
        bad = []
        for x in walk_scope(fn.node, include_root=False):
            if isinstance(x, (ast.Assign, ast.AugAssign, ast.AnnAssign, ast.Delete)):
                tgts = x.targets if isinstance(x, (ast.Assign, ast.Delete)) else [x.target]
                for t in tgts:
                    for tt in (t.elts if isinstance(t, ast.Tuple) else [t]):
                        if isinstance(tt, (ast.Attribute, ast.Subscript)) and _rooted_at(tt, alias):
                            bad.append((x, f"writes `{unparse(tt)}`"))
            elif isinstance(x, ast.Call) and isinstance(x.func, ast.Attribute) and x.func.attr in _MUTATORS and _rooted_at(x.func.value, alias) \
                    and not (isinstance(x.func.value, ast.Name) and x.func.value.id in other):
                bad.append((x, f"calls `{unparse(x.func)}()` on the argument's own container"))
            elif isinstance(x, ast.Assign) and False:
                pass
        # storing the argument's container in self without a copy: `self._a[k] = other_tags` / `self._a = other._a`
        for st in walk_stmts(fn.node.body):
            if isinstance(st, ast.Assign) and any(_rooted_at(t, {"self"}) for t in st.targets if isinstance(t, (ast.Attribute, ast.Subscript))):
                v = st.value
                if isinstance(v, (ast.Name, ast.Attribute, ast.Subscript)) and _rooted_at(v, alias) and not (isinstance(v, ast.Name) and v.id in other):
                    kind = ctx.prog  # noqa: F841
                    if isinstance(v, ast.Name) or isinstance(v, ast.Attribute):
                        # scalars are harmless; only containers matter — decided by how the class initialises the attribute
                        attr = v.attr if isinstance(v, ast.Attribute) else None
                        ai = fn.cls.attrs.get(attr) if attr else None
                        if isinstance(v, ast.Name) or (ai is not None and ai.kind in ("list", "dict", "set", "deque")):
                            if isinstance(v, ast.Name) and not _container_alias(fn, v.id, alias):
                                continue
                            bad.append((st, f"stores the argument's own container `{unparse(v)}` in self (both replicas then share it)"))
        n += 1
        for node, why in bad:
            ctx.ob(rule, "G9", fn, node, False, f"{fn.qual} {why}: a merge must leave its argument unchanged and take copies of what it keeps")
        if not bad:
            ctx.ob(rule, "G9", fn, "argument untouched", True, f"{fn.qual}: no store, del or mutating call reaches `{ps[0]}` or a container obtained from it without a copy; nothing of it is kept by reference")
    if n < MERGE_PROPS[prop]:
        raise AnalysisError(f"{rule}: only {n} merge methods found in the anchored files (< {MERGE_PROPS[prop]})")


def _container_alias(fn, name: str, alias: set[str]) -> bool:
    """`name` was bound from a loop over / lookup in the argument's container of containers (values of a dict of sets etc.)."""
    import ast

    from .astutil import walk_stmts
    for st in walk_stmts(fn.node.body):
        if isinstance(st, ast.For):
            tg = st.target.elts[-1] if isinstance(st.target, ast.Tuple) else st.target
            if isinstance(tg, ast.Name) and tg.id == name and isinstance(st.iter, ast.Call) and isinstance(st.iter.func, ast.Attribute) and st.iter.func.attr in ("items", "values"):
                # values of a mapping: containers only if some mutator/copier is applied to them somewhere in this function
                return any(isinstance(x, ast.Call) and isinstance(x.func, ast.Name) and x.func.id in ("set", "list", "dict") and x.args and isinstance(x.args[0], ast.Name) and x.args[0].id == name
                           for x in ast.walk(fn.node)) or any(isinstance(x, ast.Call) and isinstance(x.func, ast.Attribute) and isinstance(x.func.value, ast.Name) and x.func.value.id == name for x in ast.walk(fn.node))
    return False
