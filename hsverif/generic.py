"""Cross-cutting rules applied to every property's anchored files after its own pack ran.

U — dimension analysis of time quantities (`hsverif/units.py`).  A property whose mechanism computes with time — event timestamps, fault
windows, refill by elapsed time, timeouts, TTLs, heartbeats, watermarks — is broken by any arithmetic in its anchored code that combines
nanoseconds with seconds (or hands one to an API that takes the other): the computed instant or delay is off by 10^9 whatever the inputs.
The rule decides *that* (a necessary condition), not the behaviour.  Functions that only report (repr/str/stats/summary) are not examined.
"""

from __future__ import annotations

import json
import os

from . import units
from . import AnalysisError
from .report import Ctx

_REPORT_ONLY = ("__repr__", "__str__", "stats", "get_stats", "summary", "describe", "to_dict", "snapshot_stats")
_HERE = os.path.dirname(os.path.dirname(os.path.abspath(__file__)))
# typed sites confirmed on the reference tree per property (anti-vacuity: at most a third may disappear before the run is declared broken)
MIN_TOTAL_SITES = 500


def anchored_files(prop: str) -> tuple[str, ...]:
    with open(os.path.join(_HERE, "properties.jsonl"), encoding="utf-8") as fh:
        for line in fh:
            d = json.loads(line)
            if d["id"] == prop:
                return tuple(d["anchors"]["files"])
    raise AnalysisError(f"property {prop} not in properties.jsonl")


def run(ctx: Ctx) -> None:
    prop = ctx.prop
    files = anchored_files(prop)
    if prop == "C07":  # "every component in the library"
        files = ("happysimulator/components/", "happysimulator/faults/", "happysimulator/load/", "happysimulator/core/",
                 "happysimulator/instrumentation/", "happysimulator/parallel/")
    rule = f"{prop}-U"
    n_fn_all, n_sites_all, all_conf = units.analyse(ctx.prog, "happysimulator/")
    if n_sites_all < MIN_TOTAL_SITES:
        raise AnalysisError(f"{rule}: only {n_sites_all} unit-typed sites found in the package (< {MIN_TOTAL_SITES}) — accessor names changed?")
    n_fn = sum(1 for fn in ctx.prog.all_functions("happysimulator/") if fn.module.relpath.startswith(files))
    mine = [(fn, node, msg) for fn, node, msg in all_conf if fn.module.relpath.startswith(files) and fn.name not in _REPORT_ONLY]
    for fn, node, msg in mine:
        ctx.ob(rule, "G10", fn, node, False, f"{fn.qual}: {msg} — a time quantity in this property's anchored code is off by a factor of 10^9")
    ctx.ob(rule, "G10", None, "time-unit consistency of the anchored files", not mine,
           f"{n_fn} functions in {len(files)} anchored path(s): no operator, comparison, constructor, keyword, named store, yield or return combines "
           f"nanoseconds with seconds ({n_sites_all} unit-typed sites package-wide, {len(all_conf)} conflict(s) package-wide)", relpath="happysimulator/")
    ctx.stats["unit_typed_sites"] = n_sites_all
