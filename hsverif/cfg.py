"""E2 — statement-level control-flow graph for one function (generators included).

Nodes are simple statements, atomic branch tests (short-circuit conditions are split),
``for`` headers and ``with`` headers.  Edges out of a test carry ``(expr, polarity)``.
``try/finally`` is handled by inlining a fresh copy of the ``finally`` body on every exit
kind that crosses it (normal, return, break, continue); exception edges go from every
node created inside a ``try`` body to each handler.
"""

from __future__ import annotations

import ast
from dataclasses import dataclass, field

from .astutil import walk_scope


@dataclass(eq=False)
class Node:
    id: int
    kind: str  # entry | exit | raise | stmt | test | for | with | match | handler | join
    ast: ast.AST | None = None
    succ: list[tuple["Node", tuple[ast.AST, bool] | None]] = field(default_factory=list)
    pred: list["Node"] = field(default_factory=list)
    suspends: bool = False
    in_loops: tuple[int, ...] = ()  # ids of enclosing loop header nodes

    @property
    def lineno(self) -> int | None:
        return getattr(self.ast, "lineno", None)

    def __repr__(self) -> str:
        try:
            txt = ast.unparse(self.ast)[:40] if self.ast is not None else ""
        except Exception:
            txt = ""
        return f"<{self.id}:{self.kind} {txt!r}>"


def own_exprs(node: Node) -> list[ast.AST]:
    """The expressions evaluated by the node itself (not by nested bodies)."""
    a = node.ast
    if a is None or node.kind in ("join", "entry", "exit", "raise"):
        return []
    if node.kind == "test":
        return [a]
    if node.kind == "for":
        return [a.iter, a.target]
    if node.kind == "with":
        out = []
        for it in a.items:
            out.append(it.context_expr)
            if it.optional_vars is not None:
                out.append(it.optional_vars)
        return out
    if node.kind == "match":
        return [a.subject]
    if node.kind == "handler":
        return [a.type] if a.type is not None else []
    if isinstance(a, (ast.FunctionDef, ast.AsyncFunctionDef, ast.ClassDef)):
        return []
    return [a]


def _has_yield(exprs: list[ast.AST]) -> bool:
    for e in exprs:
        for n in walk_scope(e):
            if isinstance(n, (ast.Yield, ast.YieldFrom, ast.Await)):
                return True
    return False


class CFG:
    def __init__(self, fn_node: ast.FunctionDef):
        self.fn = fn_node
        self.nodes: list[Node] = []
        self.entry = self._new("entry")
        self.exit = self._new("exit")  # normal return (explicit or falling off the end)
        self.raise_exit = self._new("raise")
        self._loop_stack: list[tuple[Node, Node, int]] = []  # (continue target, break target, finally depth)
        self._finally_stack: list[list[ast.stmt]] = []
        self._handler_stack: list[list[Node]] = []  # handler entry nodes of enclosing try blocks
        self._loops: list[int] = []
        ends = self._body(fn_node.body, [self.entry])
        self._link(ends, self.exit)
        for n in self.nodes:
            for s, _ in n.succ:
                s.pred.append(n)

    # ---------------------------------------------------------------- construction
    def _new(self, kind: str, a: ast.AST | None = None) -> Node:
        n = Node(len(self.nodes), kind, a, in_loops=tuple(self._loops) if hasattr(self, "_loops") else ())
        self.nodes.append(n)
        if kind in ("stmt", "test", "for", "with", "match"):
            n.suspends = _has_yield(own_exprs(n))
            # exception edge to enclosing handlers
            if self._handler_stack:
                for h in self._handler_stack[-1]:
                    n.succ.append((h, None))
        return n

    @staticmethod
    def _edge(a: Node, b: Node, label=None) -> None:
        a.succ.append((b, label))

    def _link(self, preds: list, node: Node) -> None:
        for p in preds:
            if isinstance(p, tuple):
                self._edge(p[0], node, p[1])
            else:
                self._edge(p, node)

    def _body(self, stmts: list[ast.stmt], preds: list) -> list:
        """Build ``stmts``; ``preds`` are dangling ends (Node or (Node, label)). Returns new ends."""
        for st in stmts:
            if not preds:
                # unreachable code: still build it (so rules can see the nodes) but detached
                preds = []
            preds = self._stmt(st, preds)
        return preds

    def _cond(self, test: ast.AST, preds: list) -> tuple[list, list]:
        """Build the short-circuit decomposition of ``test``. Returns (true_ends, false_ends)."""
        if isinstance(test, ast.BoolOp):
            if isinstance(test.op, ast.And):
                false_ends: list = []
                cur = preds
                for v in test.values:
                    t, f = self._cond(v, cur)
                    false_ends += f
                    cur = t
                return cur, false_ends
            true_ends: list = []
            cur = preds
            for v in test.values:
                t, f = self._cond(v, cur)
                true_ends += t
                cur = f
            return true_ends, cur
        if isinstance(test, ast.UnaryOp) and isinstance(test.op, ast.Not):
            t, f = self._cond(test.operand, preds)
            return f, t
        n = self._new("test", test)
        self._link(preds, n)
        return [(n, (test, True))], [(n, (test, False))]

    def _run_finally(self, preds: list, down_to: int) -> list:
        """Inline copies of the enclosing finally bodies (innermost first) down to depth ``down_to``."""
        saved_f = self._finally_stack
        saved_h = self._handler_stack
        for depth in range(len(saved_f) - 1, down_to - 1, -1):
            body = saved_f[depth]
            self._finally_stack = saved_f[:depth]
            self._handler_stack = saved_h[: max(0, len(saved_h) - (len(saved_f) - depth))]
            preds = self._body(body, preds)
        self._finally_stack = saved_f
        self._handler_stack = saved_h
        return preds

    def _stmt(self, st: ast.stmt, preds: list) -> list:
        if isinstance(st, ast.If):
            t, f = self._cond(st.test, preds)
            a = self._body(st.body, t)
            b = self._body(st.orelse, f) if st.orelse else f
            return a + b
        if isinstance(st, ast.While):
            head = self._new("join", st)
            self._link(preds, head)
            self._loops.append(head.id)
            t, f = self._cond(st.test, [head])
            brk = self._new("join", st)
            self._loop_stack.append((head, brk, len(self._finally_stack)))
            ends = self._body(st.body, t)
            self._loop_stack.pop()
            self._link(ends, head)
            self._loops.pop()
            out = self._body(st.orelse, f) if st.orelse else f
            brk.in_loops = tuple(self._loops)
            if not (isinstance(st.test, ast.Constant) and st.test.value is True and False):
                pass
            self._link(out, brk)
            return [brk]
        if isinstance(st, (ast.For, ast.AsyncFor)):
            head = self._new("for", st)
            self._link(preds, head)
            head.in_loops = tuple(self._loops) + (head.id,)
            self._loops.append(head.id)
            brk = self._new("join", st)
            self._loop_stack.append((head, brk, len(self._finally_stack)))
            ends = self._body(st.body, [(head, (st, True))])
            self._loop_stack.pop()
            self._link(ends, head)
            self._loops.pop()
            brk.in_loops = tuple(self._loops)
            f = [(head, (st, False))]
            out = self._body(st.orelse, f) if st.orelse else f
            self._link(out, brk)
            return [brk]
        if isinstance(st, ast.Break):
            n = self._new("stmt", st)
            self._link(preds, n)
            _, brk, depth = self._loop_stack[-1]
            ends = self._run_finally([n], depth)
            self._link(ends, brk)
            return []
        if isinstance(st, ast.Continue):
            n = self._new("stmt", st)
            self._link(preds, n)
            head, _, depth = self._loop_stack[-1]
            ends = self._run_finally([n], depth)
            self._link(ends, head)
            return []
        if isinstance(st, ast.Return):
            n = self._new("stmt", st)
            self._link(preds, n)
            ends = self._run_finally([n], 0)
            self._link(ends, self.exit)
            return []
        if isinstance(st, ast.Raise):
            n = self._new("stmt", st)
            self._link(preds, n)
            if not self._handler_stack:
                ends = self._run_finally([n], 0)
                self._link(ends, self.raise_exit)
            # with handlers: exception edge already added by _new
            elif not self._handler_stack[-1]:
                ends = self._run_finally([n], 0)
                self._link(ends, self.raise_exit)
            return []
        if isinstance(st, (ast.With, ast.AsyncWith)):
            n = self._new("with", st)
            self._link(preds, n)
            return self._body(st.body, [n])
        if isinstance(st, ast.Try) or st.__class__.__name__ == "TryStar":
            handlers = [self._new("handler", h) for h in st.handlers]
            if st.finalbody:
                self._finally_stack.append(st.finalbody)
            self._handler_stack.append(handlers)
            # the state before the try body can also reach handlers (first statement raising)
            pre = self._new("join", st)
            self._link(preds, pre)
            for h in handlers:
                self._edge(pre, h)
            ends = self._body(st.body, [pre])
            self._handler_stack.pop()
            if st.orelse:
                ends = self._body(st.orelse, ends)
            hends: list = []
            for h, hn in zip(st.handlers, handlers):
                hends += self._body(h.body, [hn])
            if st.finalbody:
                self._finally_stack.pop()
                allends = self._body(st.finalbody, ends + hends)
                return allends
            return ends + hends
        if isinstance(st, ast.Match):
            n = self._new("match", st)
            self._link(preds, n)
            ends: list = []
            has_default = False
            for c in st.cases:
                ends += self._body(c.body, [n])
                if isinstance(c.pattern, ast.MatchAs) and c.pattern.pattern is None and c.guard is None:
                    has_default = True
            if not has_default:
                ends.append(n)
            return ends
        if isinstance(st, ast.Assert):
            # `assert c` behaves as `if not c: raise`
            t, f = self._cond(st.test, preds)
            n = self._new("stmt", st)
            self._link(f, n)
            self._edge(n, self.raise_exit)
            return t
        n = self._new("stmt", st)
        self._link(preds, n)
        return [n]

    # ---------------------------------------------------------------- queries
    def stmt_nodes(self) -> list[Node]:
        return [n for n in self.nodes if n.kind in ("stmt", "test", "for", "with", "match")]

    def nodes_for(self, a: ast.AST) -> list[Node]:
        """CFG nodes whose own AST is ``a`` or contains ``a`` as a sub-expression."""
        out = []
        for n in self.nodes:
            if n.ast is None or n.kind in ("join", "handler"):
                continue
            if n.ast is a:
                out.append(n)
                continue
            for e in own_exprs(n):
                if any(x is a for x in ast.walk(e)):
                    out.append(n)
                    break
        return out

    def reachable_from(self, start: Node, *, stop: set[int] | None = None) -> set[int]:
        seen = set()
        stack = [start]
        while stack:
            n = stack.pop()
            if n.id in seen:
                continue
            seen.add(n.id)
            if stop and n.id in stop and n is not start:
                continue
            for s, _ in n.succ:
                stack.append(s)
        return seen
