"""Small AST helpers: access paths, scoped walks, metavariable pattern matching."""

from __future__ import annotations

import ast
from collections.abc import Iterator

_SCOPE_NODES = (ast.FunctionDef, ast.AsyncFunctionDef, ast.Lambda, ast.ClassDef)


def walk_scope(node: ast.AST, *, include_root: bool = True) -> Iterator[ast.AST]:
    """Walk ``node`` without descending into nested function / lambda / class bodies.

    The root itself may be a function: its body is walked, nested scopes are yielded
    (so that callers can see the definition) but not entered.
    """
    if include_root:
        yield node
    stack = list(reversed(list(ast.iter_child_nodes(node))))
    while stack:
        cur = stack.pop()
        yield cur
        if isinstance(cur, _SCOPE_NODES):
            continue
        stack.extend(reversed(list(ast.iter_child_nodes(cur))))


def walk_stmts(body: list[ast.stmt]) -> Iterator[ast.stmt]:
    """All statements of a body, recursively, excluding nested scopes' bodies."""
    for st in body:
        yield st
        if isinstance(st, _SCOPE_NODES):
            continue
        for fld in ("body", "orelse", "finalbody"):
            sub = getattr(st, fld, None)
            if sub and isinstance(sub, list) and sub and isinstance(sub[0], ast.stmt):
                yield from walk_stmts(sub)
        if isinstance(st, ast.Try) or (hasattr(ast, "TryStar") and isinstance(st, ast.TryStar)):
            for h in st.handlers:
                yield from walk_stmts(h.body)
        if isinstance(st, ast.Match):
            for c in st.cases:
                yield from walk_stmts(c.body)


def path_of(expr: ast.AST | None) -> str | None:
    """Dotted access path for Name / Attribute chains, else None."""
    parts: list[str] = []
    cur = expr
    while isinstance(cur, ast.Attribute):
        parts.append(cur.attr)
        cur = cur.value
    if isinstance(cur, ast.Name):
        parts.append(cur.id)
        return ".".join(reversed(parts))
    return None


def paths_in(expr: ast.AST) -> set[str]:
    """Every maximal access path mentioned in ``expr`` (Names and Attribute chains).

    For ``len(self._q) < self.cap`` returns {"len", "self._q", "self.cap"}; for a
    subscript ``self.d[k].x`` returns {"self.d", "k"} (the subscript base).
    """
    out: set[str] = set()

    def rec(n: ast.AST) -> None:
        p = path_of(n)
        if p is not None:
            out.add(p)
            return
        for c in ast.iter_child_nodes(n):
            rec(c)

    rec(expr)
    return out


def has_prefix(path: str, prefix: str) -> bool:
    return path == prefix or path.startswith(prefix + ".")


def contains_yield(node: ast.AST) -> bool:
    return any(isinstance(n, (ast.Yield, ast.YieldFrom)) for n in walk_scope(node))


def yields_in(node: ast.AST) -> list[ast.AST]:
    return [n for n in walk_scope(node) if isinstance(n, (ast.Yield, ast.YieldFrom))]


def calls_in(node: ast.AST) -> list[ast.Call]:
    return [n for n in walk_scope(node) if isinstance(n, ast.Call)]


def unparse(node: ast.AST | None) -> str:
    if node is None:
        return "None"
    try:
        return ast.unparse(node)
    except Exception:  # pragma: no cover
        return ast.dump(node)


def norm_stmt(node: ast.AST, limit: int = 120) -> str:
    """Whitespace-free one-line rendering used in construct keys (no line numbers)."""
    if isinstance(node, (ast.If, ast.While)):
        txt = ("if " if isinstance(node, ast.If) else "while ") + unparse(node.test)
    elif isinstance(node, ast.For):
        txt = f"for {unparse(node.target)} in {unparse(node.iter)}"
    elif isinstance(node, (ast.FunctionDef, ast.AsyncFunctionDef)):
        txt = f"def {node.name}"
    else:
        txt = unparse(node)
    txt = " ".join(txt.split())
    return txt[:limit]


# --------------------------------------------------------------------------------------
# Pattern matching with metavariables.  A pattern is Python source in which identifiers of
# the form ``_X_`` (underscore, capitals/digits, underscore) match any expression; repeated
# metavariables must bind structurally-equal expressions.  ``_`` alone is a wildcard.
# --------------------------------------------------------------------------------------


def _is_meta(name: str) -> bool:
    return len(name) >= 3 and name[0] == "_" and name[-1] == "_" and name[1:-1].replace("_", "").isalnum() and name[1:-1].upper() == name[1:-1]


def dump(node: ast.AST) -> str:
    return ast.dump(node, annotate_fields=False, include_attributes=False)


def same(a: ast.AST, b: ast.AST) -> bool:
    return dump(a) == dump(b)


def parse_expr(src: str) -> ast.expr:
    return ast.parse(src, mode="eval").body


def parse_stmt(src: str) -> ast.stmt:
    return ast.parse(src).body[0]


def match(pattern: ast.AST, node: ast.AST, binds: dict[str, ast.AST] | None = None) -> dict[str, ast.AST] | None:
    """Structural match of ``node`` against ``pattern``; returns bindings or None."""
    if binds is None:
        binds = {}
    if isinstance(pattern, ast.Name):
        if pattern.id == "_":
            return binds
        if _is_meta(pattern.id):
            prev = binds.get(pattern.id)
            if prev is None:
                binds = dict(binds)
                binds[pattern.id] = node
                return binds
            return binds if same(prev, node) else None
    if isinstance(pattern, ast.Expr) and isinstance(node, ast.Expr):
        return match(pattern.value, node.value, binds)
    if type(pattern) is not type(node):
        return None
    for fld in pattern._fields:
        if fld in ("ctx", "type_comment", "kind"):
            continue
        pv = getattr(pattern, fld, None)
        nv = getattr(node, fld, None)
        if isinstance(pv, list):
            if not isinstance(nv, list) or len(pv) != len(nv):
                return None
            for a, b in zip(pv, nv):
                if isinstance(a, ast.AST):
                    r = match(a, b, binds)
                    if r is None:
                        return None
                    binds = r
                elif a != b:
                    return None
        elif isinstance(pv, ast.AST):
            if not isinstance(nv, ast.AST):
                return None
            r = match(pv, nv, binds)
            if r is None:
                return None
            binds = r
        else:
            if pv != nv:
                return None
    return binds


def subst(pattern: ast.AST, binds: dict[str, ast.AST]) -> ast.AST:
    """Instantiate metavariables of ``pattern`` with ``binds`` (deep copy)."""
    import copy

    class T(ast.NodeTransformer):
        def visit_Name(self, n: ast.Name):  # noqa: N802
            if n.id in binds:
                return copy.deepcopy(binds[n.id])
            return n

    return T().visit(copy.deepcopy(pattern))


def find_all(root: ast.AST, pattern: ast.AST) -> list[tuple[ast.AST, dict[str, ast.AST]]]:
    out = []
    for n in walk_scope(root):
        b = match(pattern, n)
        if b is not None:
            out.append((n, b))
    return out


def const_value(node: ast.AST):
    """Python constant denoted by ``node`` (handles unary minus), or raise ValueError."""
    if isinstance(node, ast.Constant):
        return node.value
    if isinstance(node, ast.UnaryOp) and isinstance(node.op, ast.USub) and isinstance(node.operand, ast.Constant):
        return -node.operand.value
    raise ValueError
