"""hsverif — repo-specific static analysis of happy-simulator (stdlib only).

Nothing in this package imports or executes ``happysimulator``; every verdict is
computed from the source text of ``<root>/happysimulator`` parsed with ``ast``.
"""


class AnalysisError(Exception):
    """A rule could not find its anchor / met an idiom it cannot normalise.

    Mapped to exit code 2 (ANALYSIS-ERROR): a vanished anchor is never a pass.
    """


class ShapeMismatch(AnalysisError):
    """An anchored function exists but no longer has the construct a rule must examine.

    Reported as a failing obligation (the clause cannot be established on this code), not as exit 2.
    """
