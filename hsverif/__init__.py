"""hsverif — repo-specific static analysis of happy-simulator (stdlib only).

Nothing in this package imports or executes ``happysimulator``; every verdict is
computed from the source text of ``<root>/happysimulator`` parsed with ``ast``.
"""


class AnalysisError(Exception):
    """A rule could not find its anchor / met an idiom it cannot normalise.

    Mapped to exit code 2 (ANALYSIS-ERROR): a vanished anchor is never a pass.
    """
