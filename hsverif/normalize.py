"""Normalisation of behaviour-preserving *additions* relative to the reference tree, so that they do not change a verdict.

Two rewrites, both applied to the analysed AST only (never to /repo), both semantics-preserving:

* ``inline_new_helpers`` — a private helper function/method that does not exist on the reference tree (``refnames.json`` lists every
  function of every module) and is a plain straight-line body (no yield, no nested defs, at most one trailing ``return``) is inlined at
  its call sites of the forms ``helper(...)``, ``x = helper(...)``, ``return helper(...)`` (arguments must be names, access paths or
  constants); when every call site could be inlined the helper itself is dropped from the analysed tree.  This undoes an
  "extract method" refactoring; it never touches a function that exists on the reference tree.
* ``inline_new_temps`` — a local variable that does not exist on the reference tree (after local-name recovery) and is assigned exactly
  once from a side-effect-free expression is replaced, at every use where the must-alias fact ``x == <expr>`` still holds (FactFlow kills
  it at writes to either side, at calls that may write, and at suspensions for shared state), by that expression; if no use remains the
  assignment is dropped.  This undoes an "introduce temporary variable" refactoring.

Anything these rewrites cannot prove is left as it is: the rules then see the code as written.
"""

from __future__ import annotations

import ast
import copy

from .astutil import path_of, unparse, walk_scope
from . import localnames


# ------------------------------------------------------------------------------------------------- helpers
def _simple_arg(e: ast.AST) -> bool:
    return isinstance(e, ast.Constant) or path_of(e) is not None


def _is_static(fn: ast.FunctionDef) -> bool:
    return len(fn.decorator_list) == 1 and isinstance(fn.decorator_list[0], ast.Name) and fn.decorator_list[0].id == "staticmethod"


def _inlinable(fn: ast.FunctionDef) -> bool:
    if (fn.decorator_list and not _is_static(fn)) or fn.args.vararg or fn.args.kwarg or fn.args.kwonlyargs or fn.args.posonlyargs:
        return False
    body = [s for s in fn.body if not (isinstance(s, ast.Expr) and isinstance(s.value, ast.Constant))]
    if not body:
        return False
    for n in ast.walk(fn):
        if isinstance(n, (ast.Yield, ast.YieldFrom, ast.Await, ast.Global, ast.Nonlocal)) or (n is not fn and isinstance(n, (ast.FunctionDef, ast.AsyncFunctionDef, ast.ClassDef))):
            return False
    return True


def _single_trailing_return(fn: ast.FunctionDef) -> bool:
    body = [s for s in fn.body if not (isinstance(s, ast.Expr) and isinstance(s.value, ast.Constant))]
    rets = [n for n in ast.walk(fn) if isinstance(n, ast.Return)]
    return not (len(rets) > 1 or (rets and rets[0] is not body[-1]))


def _all_paths_return(body) -> bool:
    """every way through ``body`` ends in a return/raise (so the body can replace a `return helper(...)` statement wholesale)"""
    if not body:
        return False
    last = body[-1]
    if isinstance(last, (ast.Return, ast.Raise)):
        return True
    if isinstance(last, ast.If):
        return bool(last.orelse) and _all_paths_return(last.body) and _all_paths_return(last.orelse)
    return False


class _Subst(ast.NodeTransformer):
    def __init__(self, mapping):
        self.mapping = mapping

    def visit_Name(self, n):
        if n.id in self.mapping:
            r = copy.deepcopy(self.mapping[n.id])
            return ast.copy_location(r, n)
        return n


def _instantiate(helper: ast.FunctionDef, call: ast.Call, is_method: bool, at: ast.stmt, caller_names: set, keep_returns: bool = False):
    params = [a.arg for a in helper.args.args]
    if is_method:
        params = params[1:]
    defaults = helper.args.defaults
    dmap = dict(zip(params[len(params) - len(defaults):], defaults)) if defaults else {}
    actual = {}
    if len(call.args) > len(params):
        return None
    for p, a in zip(params, call.args):
        actual[p] = a
    for k in call.keywords:
        if k.arg is None or k.arg not in params or k.arg in actual:
            return None
        actual[k.arg] = k.value
    for p in params:
        if p not in actual:
            if p in dmap:
                actual[p] = dmap[p]
            else:
                return None
    if not all(_simple_arg(v) for v in actual.values()):
        return None
    # a parameter that the helper rebinds cannot be substituted by an expression
    stored = {n.id for n in ast.walk(helper) if isinstance(n, ast.Name) and isinstance(n.ctx, ast.Store)}
    if stored & set(params):
        return None
    locs = stored - set(params)
    lam_params = {a.arg for n in ast.walk(helper) if isinstance(n, ast.Lambda) for a in n.args.args}
    if lam_params & (set(params) | stored):
        return None
    mapping = dict(actual)
    for l in locs:
        # keep the helper's local names (rules know statements by them) unless the caller uses the name for something else
        if l in caller_names:
            mapping[l] = ast.Name(id=f"{l}__{helper.name.strip('_')}", ctx=ast.Load())
    body = [s for s in helper.body if not (isinstance(s, ast.Expr) and isinstance(s.value, ast.Constant))]
    out = []
    ret = None
    for s in body:
        s2 = copy.deepcopy(s)
        if isinstance(s2, ast.Return) and not keep_returns:
            ret = _Subst(mapping).visit(s2).value
            continue
        s2 = _Subst(mapping).visit(s2)
        # store-context names created by the substitution must be Store
        for n in ast.walk(s2):
            if isinstance(n, ast.Name) and n.id.endswith(f"__{helper.name.strip('_')}"):
                pass
        out.append(s2)
    for s2 in out:
        for n in ast.walk(s2):
            if hasattr(n, "lineno"):
                n.lineno = at.lineno
                n.end_lineno = getattr(at, "end_lineno", at.lineno)
                n.col_offset = at.col_offset
                n.end_col_offset = getattr(at, "end_col_offset", at.col_offset)
    return out, ret


def _fix_ctx(stmts):
    """after substitution, assignment targets that became Name(Load) must be Store"""
    for s in stmts:
        for n in ast.walk(s):
            if isinstance(n, (ast.Assign, ast.AugAssign, ast.AnnAssign, ast.For)):
                for t in (n.targets if isinstance(n, ast.Assign) else [n.target]):
                    for x in ast.walk(t):
                        if isinstance(x, ast.Name) and not isinstance(x.ctx, ast.Del):
                            if x is t or isinstance(t, (ast.Tuple, ast.List)):
                                x.ctx = ast.Store()


def inline_new_helpers(tree: ast.Module, relpath: str) -> int:
    ref = localnames.reference().get("__units__", {}).get(relpath)
    if ref is None:
        return 0
    ref = set(ref)
    done = 0
    all_new_callees: set[str] = set()

    def process(container_body, prefix, is_class):
        nonlocal done
        funcs = {s.name: s for s in container_body if isinstance(s, ast.FunctionDef)}
        new = [f for name, f in funcs.items() if (prefix + name) not in ref and name.startswith("_") and not name.startswith("__") and _inlinable(f)]
        all_new_callees.clear()
        all_new_callees.update({f"self.{f.name}" for f in new} if is_class else {f.name for f in new})
        # two passes: a helper whose call was hoisted out of another helper's argument list in the first pass is inlined in the second
        for helper in new + new:
            if helper not in container_body:
                continue
            static = _is_static(helper)
            if static and not is_class:
                continue
            is_method = is_class and not static and helper.args.args and helper.args.args[0].arg in ("self", "cls")
            if static:
                # a static helper is reached as self.h(...) or Class.h(...); neither binds a receiver
                callee = (f"self.{helper.name}", f"{prefix.rstrip('.').split('.')[-1]}.{helper.name}")
            else:
                callee = ((f"self.{helper.name}",) if is_method else (helper.name,))
            remaining = 0
            sites_before = sum(1 for other in funcs.values() if other is not helper for n in ast.walk(other) if isinstance(n, ast.Call) and path_of(n.func) in callee)
            if sites_before == 0:
                continue  # never called from its own class/module: not an extracted helper — leave it for the rules to see
            for other in list(funcs.values()):
                if other is helper:
                    continue
                remaining += _inline_in(other, helper, callee, bool(is_method))
            if remaining == 0:
                # no un-inlined reference left anywhere in the module → drop the helper from the analysed tree
                txt_refs = sum(1 for n in ast.walk(tree) if isinstance(n, ast.Attribute) and n.attr == helper.name) + sum(1 for n in ast.walk(tree) if isinstance(n, ast.Name) and n.id == helper.name)
                if txt_refs == 0:
                    container_body.remove(helper)
                    done += 1

    def _inline_in(fn, helper, callee, is_method) -> int:
        """returns the number of call sites that could NOT be inlined"""
        left = 0

        def rewrite(body):
            nonlocal left
            i = 0
            while i < len(body):
                st = body[i]
                call = None
                form = None
                if isinstance(st, ast.Expr) and isinstance(st.value, ast.Call) and path_of(st.value.func) in callee:
                    call, form = st.value, "expr"
                elif isinstance(st, ast.Assign) and len(st.targets) == 1 and isinstance(st.value, ast.Call) and path_of(st.value.func) in callee:
                    call, form = st.value, "assign"
                elif isinstance(st, ast.Return) and isinstance(st.value, ast.Call) and path_of(st.value.func) in callee:
                    call, form = st.value, "return"
                if call is not None and not call.keywords:
                    # `h(g(...), x)` with g another new helper: `t = g(...)` is evaluated first either way (the arguments before it are
                    # names or constants), so it is hoisted into a temporary and both calls become inlinable statements
                    for k_, a_ in enumerate(call.args):
                        if isinstance(a_, ast.Call) and path_of(a_.func) in all_new_callees and all(isinstance(b_, (ast.Name, ast.Constant)) for b_ in call.args[:k_]):
                            tmp = f"hoisted__{helper.name.strip('_')}_{k_}"
                            body.insert(i, ast.copy_location(ast.Assign(targets=[ast.Name(id=tmp, ctx=ast.Store())], value=a_, lineno=st.lineno), st))
                            call.args[k_] = ast.copy_location(ast.Name(id=tmp, ctx=ast.Load()), a_)
                            ast.fix_missing_locations(body[i])
                            i += 1
                            st = body[i]
                            break
                if call is not None:
                    tgt_names = {x.id for t in (st.targets if isinstance(st, ast.Assign) else []) for x in ast.walk(t) if isinstance(x, ast.Name)}
                    caller_names = ({n.id for n in ast.walk(fn) if isinstance(n, ast.Name) and isinstance(n.ctx, ast.Store)} | {a.arg for a in fn.args.args + fn.args.kwonlyargs}) - tgt_names
                    # a caller local that is dead at the call site (never read at or after it, call not inside a loop) may share its name with a helper local
                    in_loop = any(isinstance(lp, (ast.For, ast.While)) and any(x is st for x in ast.walk(lp)) for lp in ast.walk(fn))
                    if not in_loop:
                        live = {n.id for n in ast.walk(fn) if isinstance(n, ast.Name) and isinstance(n.ctx, ast.Load) and getattr(n, "lineno", 0) >= st.lineno and not any(n is y for y in ast.walk(st))}
                        caller_names = {c for c in caller_names if c in live or c in {a.arg for a in fn.args.args + fn.args.kwonlyargs}}
                    tail = form == "return" and not _single_trailing_return(helper)
                    if tail and not _all_paths_return([s_ for s_ in helper.body if not (isinstance(s_, ast.Expr) and isinstance(s_.value, ast.Constant))]):
                        inst = None
                    elif not tail and not _single_trailing_return(helper):
                        inst = None
                    else:
                        inst = _instantiate(helper, call, is_method, st, caller_names, keep_returns=tail)
                    if inst is not None:
                        new_stmts, ret = inst
                        if tail:
                            # `return helper(...)` with a helper that returns on every path: its body (returns included) replaces the statement
                            _fix_ctx(new_stmts)
                            for s2 in new_stmts:
                                ast.fix_missing_locations(s2)
                            body[i:i + 1] = new_stmts
                            i += len(new_stmts)
                            continue
                        if form == "assign":
                            tgt0 = st.targets[0] if len(st.targets) == 1 else None
                            if isinstance(tgt0, ast.Tuple) and isinstance(ret, ast.Tuple) and len(tgt0.elts) == len(ret.elts) \
                                    and all(path_of(a_) is not None and path_of(a_) == path_of(b_) for a_, b_ in zip(tgt0.elts, ret.elts)):
                                pass  # `a, b = helper()` where the helper ends with `return a, b` over the same names: nothing left to assign
                            elif not (ret is not None and len(st.targets) == 1 and path_of(ret) is not None and path_of(ret) == path_of(st.targets[0])):
                                new_stmts.append(ast.copy_location(ast.Assign(targets=st.targets, value=ret if ret is not None else ast.Constant(None)), st))
                        elif form == "return":
                            new_stmts.append(ast.copy_location(ast.Return(value=ret), st))
                        _fix_ctx(new_stmts)
                        for s2 in new_stmts:
                            ast.fix_missing_locations(s2)
                        body[i:i + 1] = new_stmts or [ast.copy_location(ast.Pass(), st)]
                        i += len(new_stmts) or 1
                        continue
                for fld in ("body", "orelse", "finalbody"):
                    sub = getattr(st, fld, None)
                    if isinstance(sub, list) and sub and isinstance(sub[0], ast.stmt):
                        rewrite(sub)
                for h in getattr(st, "handlers", []) or []:
                    rewrite(h.body)
                i += 1
        rewrite(fn.body)
        for n in ast.walk(fn):
            if isinstance(n, ast.Call) and path_of(n.func) in callee:
                left += 1
        return left

    process(tree.body, "", False)
    for st in ast.walk(tree):
        if isinstance(st, ast.ClassDef):
            # qualified prefix of (possibly nested) classes: only top-level and one nesting level are used in this repository
            process(st.body, st.name + ".", True)
    return done


# ------------------------------------------------------------------------------------------------- temps
def inline_new_temps(prog) -> int:
    """Runs after indexing.  Returns the number of temporaries removed."""
    total = 0
    for _ in range(4):
        n = _inline_new_temps_once(prog)
        total += n
        if n == 0:
            break
    prog.increment_stores_restored = restore_increment_stores(prog)
    if total or prog.increment_stores_restored or getattr(prog, "temp_uses_replaced", 0):
        # temporaries folded back may have re-created `x = x + e` where the reference writes `x += e`
        for rel, mod in prog.modules.items():
            restore_spellings(mod.tree, rel)
    return total


def restore_increment_stores(prog) -> int:
    """`n = self._x + k ... self._x = n` for the reference's `self._x += k`: where the reference function has the augmented spelling that the
    analysed function lacks, a plain store `P = T` of a local T is rewritten to `P += e` when the must-alias fact `T == P + e` holds on
    entry to the store (FactFlow: no write to P, T or e's operands since T was computed).  Same value stored at the same point."""
    from .effects import Effects
    from .facts import FactFlow

    ref_all = localnames.reference()
    spell = ref_all.get("__spellings__", {})
    effects = None
    done = 0
    for rel, mod in prog.modules.items():
        sp = spell.get(rel)
        if not sp:
            continue
        for fn in mod.all_functions:
            top = fn
            while top.parent is not None:
                top = top.parent
            q = (top.cls.name + "." if top.cls is not None else "") + top.name
            want = set(sp.get(q, {}).get("aug", []))
            if not want:
                continue
            have = {_txt(n) for n in ast.walk(fn.node) if isinstance(n, ast.AugAssign)}
            missing = want - have
            if not missing:
                continue
            cands = [st for st in walk_scope(fn.node, include_root=False) if isinstance(st, ast.Assign) and len(st.targets) == 1
                     and (isinstance(st.value, ast.Name) or (isinstance(st.value, ast.BinOp) and isinstance(st.value.left, ast.Name)))
                     and path_of(st.targets[0]) is not None and not isinstance(st.targets[0], ast.Name)]
            if not cands:
                continue
            if effects is None:
                effects = Effects(prog)
            try:
                ff = FactFlow(prog, fn, effects)
            except Exception:  # noqa: BLE001
                continue
            for st in cands:
                nd = next((n_ for n_ in ff.cfg.nodes if n_.ast is st), None)
                if nd is None:
                    continue
                ptxt = unparse(st.targets[0])
                if isinstance(st.value, ast.BinOp):
                    # `P = T op e` with the must-alias `T == P` (T = P read earlier, nothing written since): the same as `P op= e`
                    if ff.same_value(nd, st.value.left.id, ptxt):
                        aug = ast.AugAssign(target=st.targets[0], op=st.value.op, value=st.value.right)
                        if _txt(aug) in missing:
                            for parent in ast.walk(fn.node):
                                for fld in ("body", "orelse", "finalbody"):
                                    blk = getattr(parent, fld, None)
                                    if isinstance(blk, list) and st in blk:
                                        blk[blk.index(st)] = ast.fix_missing_locations(ast.copy_location(aug, st))
                                        done += 1
                    continue
                for sig in list((ff.state_in.get(nd.id) or {}).keys()):
                    if sig[0] != "eq":
                        continue
                    other = sig[2] if sig[1] == st.value.id else (sig[1] if sig[2] == st.value.id else None)
                    if not other:
                        continue
                    try:
                        e = ast.parse(other, mode="eval").body
                    except SyntaxError:
                        continue
                    if isinstance(e, ast.BinOp) and unparse(e.left) == ptxt:
                        aug = ast.AugAssign(target=st.targets[0], op=e.op, value=e.right)
                        if _txt(aug) in missing:
                            for parent in ast.walk(fn.node):
                                for fld in ("body", "orelse", "finalbody"):
                                    blk = getattr(parent, fld, None)
                                    if isinstance(blk, list) and st in blk:
                                        blk[blk.index(st)] = ast.fix_missing_locations(ast.copy_location(aug, st))
                                        done += 1
                            break
    return done


def _inline_new_temps_once(prog) -> int:
    from .cfg import own_exprs
    from .effects import Effects
    from .facts import FactFlow

    ref_all = localnames.reference()
    effects = None
    removed = 0
    for rel, mod in prog.modules.items():
        ref = ref_all.get(rel)
        if ref is None:
            continue
        unit_of = {}
        for q, fnode in localnames.units(mod.tree):
            names = {w[0] for w in ref.get(q, [])}
            cur = set(localnames.locals_of(fnode))
            new = cur - names
            if new and q in ref_all.get("__units__", {}).get(rel, []):
                unit_of[id(fnode)] = new
        if not unit_of:
            continue
        for fn in mod.all_functions:
            top = fn
            while top.parent is not None:
                top = top.parent
            new = unit_of.get(id(top.node))
            if not new:
                continue
            own_stores = {}
            for n in walk_scope(fn.node, include_root=False):
                if isinstance(n, ast.Name) and isinstance(n.ctx, ast.Store) and n.id in new:
                    own_stores.setdefault(n.id, []).append(n)
            cands = {}
            for st in walk_scope(fn.node, include_root=False):
                if isinstance(st, ast.Assign) and len(st.targets) == 1 and isinstance(st.targets[0], ast.Name) and st.targets[0].id in own_stores \
                        and len(own_stores[st.targets[0].id]) == 1:
                    cands[st.targets[0].id] = st
            if not cands:
                continue
            # one temporary per function per round, innermost first (its value mentions no other candidate): the next round sees the result
            pick = None
            for k, st in cands.items():
                if not any(isinstance(x, ast.Name) and x.id in cands and x.id != k for x in ast.walk(st.value)):
                    pick = k
                    break
            if pick is None:
                continue
            cands = {pick: cands[pick]}
            if effects is None:
                effects = Effects(prog)
            try:
                ff = FactFlow(prog, fn, effects)
            except Exception:  # noqa: BLE001
                continue
            val_text = {k: unparse(st.value) for k, st in cands.items()}
            val_expr = {k: copy.deepcopy(st.value) for k, st in cands.items()}
            owner = {}
            for nd in ff.cfg.nodes:
                for e in own_exprs(nd):
                    for x in ast.walk(e):
                        if isinstance(x, ast.Name) and isinstance(x.ctx, ast.Load) and x.id in cands:
                            owner[id(x)] = nd
            replaced = {k: 0 for k in cands}
            kept = {k: 0 for k in cands}

            class T(ast.NodeTransformer):
                def visit_Name(self, n):
                    if isinstance(n.ctx, ast.Load) and n.id in cands:
                        nd = owner.get(id(n))
                        if nd is not None and ff.same_value(nd, n.id, val_text[n.id]):
                            replaced[n.id] += 1
                            return ast.copy_location(copy.deepcopy(val_expr[n.id]), n)
                        kept[n.id] += 1
                    return n
            T().visit(fn.node)
            prog.temp_uses_replaced = getattr(prog, "temp_uses_replaced", 0) + sum(replaced.values())
            for name, st in cands.items():
                if kept[name] == 0 and replaced[name] > 0:
                    for parent in ast.walk(fn.node):
                        for fld in ("body", "orelse", "finalbody"):
                            blk = getattr(parent, fld, None)
                            if isinstance(blk, list) and st in blk:
                                if len(blk) > 1:
                                    blk.remove(st)
                                else:
                                    blk[0] = ast.copy_location(ast.Pass(), st)
                    removed += 1
                elif replaced[name] > 0:
                    removed += 0
            ast.fix_missing_locations(fn.node)
    return removed


# ------------------------------------------------------------------------------------------------- new predicate helpers
def inline_new_predicates(tree: ast.Module, relpath: str) -> int:
    """A private function/method absent from the reference tree whose whole body is `return <expr>` (no yield/await/lambda; parameters
    used as plain names) is an *extracted expression*: every call `self.h(a, b)` / `h(a, b)` with simple arguments is replaced by
    `<expr>[params := args]`, evaluated at the same point.  A `bool(...)` wrapper around the expression is dropped where the call is
    used directly as a branch condition (if/while/assert test, operand of not/and/or inside one) — truthiness is all such a context reads."""
    ref = localnames.reference().get("__units__", {}).get(relpath)
    if ref is None:
        return 0
    ref = set(ref)
    done = 0

    def body_expr(fn):
        body = [s_ for s_ in fn.body if not (isinstance(s_, ast.Expr) and isinstance(s_.value, ast.Constant))]
        if len(body) != 1 or not isinstance(body[0], ast.Return) or body[0].value is None:
            return None
        e = body[0].value
        if any(isinstance(x, (ast.Yield, ast.YieldFrom, ast.Await, ast.Lambda, ast.NamedExpr, ast.ListComp, ast.SetComp, ast.DictComp, ast.GeneratorExp)) for x in ast.walk(e)):
            return None
        return e

    def process(container_body, prefix, is_class):
        nonlocal done
        funcs = {s_.name: s_ for s_ in container_body if isinstance(s_, ast.FunctionDef)}
        for name, h in list(funcs.items()):
            if (prefix + name) in ref or not name.startswith("_") or name.startswith("__"):
                continue
            static = _is_static(h)
            if (h.decorator_list and not static) or h.args.vararg or h.args.kwarg or h.args.kwonlyargs or h.args.posonlyargs:
                continue
            e = body_expr(h)
            if e is None:
                continue
            is_method = is_class and not static and h.args.args and h.args.args[0].arg == "self"
            if is_class and not static and not is_method:
                continue
            callee = (f"self.{name}",) if is_method else ((f"self.{name}", f"{prefix.rstrip('.').split('.')[-1]}.{name}") if static else (name,))
            params = [a.arg for a in h.args.args][1 if is_method else 0:]
            dmap = dict(zip(params[len(params) - len(h.args.defaults):], h.args.defaults)) if h.args.defaults else {}
            # each parameter must be read at most once, or be bound to a side-effect-free argument (checked per call)
            reads = {p_: sum(1 for x in ast.walk(e) if isinstance(x, ast.Name) and x.id == p_) for p_ in params}
            left = 0
            sites = 0

            def instantiate(call):
                if len(call.args) > len(params) or any(isinstance(a, ast.Starred) for a in call.args):
                    return None
                actual = dict(zip(params, call.args))
                for k in call.keywords:
                    if k.arg is None or k.arg not in params or k.arg in actual:
                        return None
                    actual[k.arg] = k.value
                for p_ in params:
                    if p_ not in actual:
                        if p_ not in dmap:
                            return None
                        actual[p_] = dmap[p_]
                if not all(_simple_arg(v) for v in actual.values()):
                    return None
                return _Subst(actual).visit(copy.deepcopy(e))

            class R(ast.NodeTransformer):
                def __init__(self):
                    self.cond = False

                def _test(self, t):
                    old, self.cond = self.cond, True
                    r = self.visit(t)
                    self.cond = old
                    return r

                def visit_If(self, n):
                    n.test = self._test(n.test)
                    n.body = [self.visit(x) for x in n.body]
                    n.orelse = [self.visit(x) for x in n.orelse]
                    return n

                def visit_While(self, n):
                    n.test = self._test(n.test)
                    n.body = [self.visit(x) for x in n.body]
                    n.orelse = [self.visit(x) for x in n.orelse]
                    return n

                def visit_BoolOp(self, n):
                    n.values = [self.visit(v) for v in n.values]
                    return n

                def visit_UnaryOp(self, n):
                    if isinstance(n.op, ast.Not):
                        old, self.cond = self.cond, True
                        n.operand = self.visit(n.operand)
                        self.cond = old
                        return n
                    old, self.cond = self.cond, False
                    self.generic_visit(n)
                    self.cond = old
                    return n

                def visit_Call(self, n):
                    nonlocal left, sites
                    cond = self.cond
                    self.cond = False
                    self.generic_visit(n)
                    self.cond = cond
                    if path_of(n.func) in callee:
                        sites += 1
                        inst = instantiate(n)
                        if inst is None:
                            left += 1
                            return n
                        if cond and isinstance(inst, ast.Call) and isinstance(inst.func, ast.Name) and inst.func.id == "bool" and len(inst.args) == 1 and not inst.keywords:
                            inst = inst.args[0]
                        for x in ast.walk(inst):
                            if hasattr(x, "lineno"):
                                x.lineno, x.end_lineno, x.col_offset, x.end_col_offset = n.lineno, n.end_lineno, n.col_offset, n.end_col_offset
                        return ast.copy_location(inst, n)
                    return n

                def generic_visit(self, n):
                    if isinstance(n, ast.expr) and not isinstance(n, (ast.BoolOp,)):
                        old, self.cond = self.cond, False
                        r = super().generic_visit(n)
                        self.cond = old
                        return r
                    return super().generic_visit(n)

            for other in funcs.values():
                if other is not h:
                    R().visit(other)
                    ast.fix_missing_locations(other)
            if sites and not left:
                refs = sum(1 for x in ast.walk(tree) if (isinstance(x, ast.Attribute) and x.attr == name) or (isinstance(x, ast.Name) and x.id == name))
                if refs == 0:
                    container_body.remove(h)
                    done += 1

    process(tree.body, "", False)
    for st in ast.walk(tree):
        if isinstance(st, ast.ClassDef):
            process(st.body, st.name + ".", True)
    return done


# ------------------------------------------------------------------------------------------------- adjacent single-use temps
def _first_evaluated(stmt: ast.stmt, target: ast.Name) -> bool:
    """Is ``target`` (a Name load inside ``stmt``) evaluated exactly once, unconditionally, and before anything in ``stmt`` that could have
    an effect or observe one (calls, subscripts, yields)?  Then `T = E; stmt(T)` and `stmt(E)` evaluate the same things in the same order."""
    state = {"impure": False, "found": False, "bad": False}

    def contains(n):
        return any(x is target for x in ast.walk(n))

    def forbid(n):
        if n is not None and contains(n):
            state["bad"] = True

    def ev(n):
        if n is None or state["found"] or state["bad"]:
            return
        if n is target:
            state["found"] = True
            if state["impure"]:
                state["bad"] = True
            return
        if isinstance(n, (ast.Constant, ast.Name)):
            return
        if isinstance(n, ast.Attribute):
            ev(n.value)
        elif isinstance(n, ast.BinOp):
            ev(n.left); ev(n.right)
        elif isinstance(n, ast.UnaryOp):
            ev(n.operand)
        elif isinstance(n, ast.BoolOp):
            ev(n.values[0])
            for v in n.values[1:]:
                forbid(v)
            if not state["found"]:
                state["impure"] = True
        elif isinstance(n, ast.Compare):
            ev(n.left); ev(n.comparators[0])
            for v in n.comparators[1:]:
                forbid(v)
            if not state["found"] and len(n.comparators) > 1:
                state["impure"] = True
        elif isinstance(n, ast.Call):
            ev(n.func)
            for a in n.args:
                ev(a)
            for k in n.keywords:
                ev(k.value)
            if not state["found"]:
                state["impure"] = True
        elif isinstance(n, ast.Subscript):
            ev(n.value); ev(n.slice)
            if not state["found"]:
                state["impure"] = True
        elif isinstance(n, ast.Slice):
            ev(n.lower); ev(n.upper); ev(n.step)
        elif isinstance(n, ast.IfExp):
            ev(n.test); forbid(n.body); forbid(n.orelse)
            if not state["found"]:
                state["impure"] = True
        elif isinstance(n, (ast.Tuple, ast.List, ast.Set)):
            for e in n.elts:
                ev(e)
        elif isinstance(n, ast.Dict):
            for k, v in zip(n.keys, n.values):
                ev(k); ev(v)
        elif isinstance(n, ast.Starred):
            ev(n.value)
        elif isinstance(n, ast.JoinedStr):
            for v in n.values:
                ev(v)
        elif isinstance(n, ast.FormattedValue):
            ev(n.value); ev(n.format_spec)
            if not state["found"]:
                state["impure"] = True
        elif isinstance(n, (ast.Yield, ast.YieldFrom, ast.Await)):
            ev(n.value)
            if not state["found"]:
                state["impure"] = True
        else:
            # lambdas, comprehensions, walrus, anything else: evaluation may be deferred or repeated
            forbid(n)
            state["impure"] = True

    if isinstance(stmt, (ast.Return, ast.Expr)):
        ev(stmt.value)
    elif isinstance(stmt, ast.Assign):
        ev(stmt.value)
        for t in stmt.targets:
            forbid(t)
    elif isinstance(stmt, ast.AnnAssign):
        ev(stmt.value); forbid(stmt.target)
    elif isinstance(stmt, ast.AugAssign):
        forbid(stmt.target)
        if isinstance(stmt.target, ast.Name):
            ev(stmt.value)
        else:
            state["bad"] = True
    elif isinstance(stmt, ast.If):
        ev(stmt.test)
        for b in stmt.body + stmt.orelse:
            forbid(b)
    elif isinstance(stmt, ast.For):
        ev(stmt.iter); forbid(stmt.target)
        for b in stmt.body + stmt.orelse:
            forbid(b)
    elif isinstance(stmt, ast.Raise):
        ev(stmt.exc); forbid(stmt.cause)
    else:
        return False
    return state["found"] and not state["bad"]


def unroll_new_display_loops(tree: ast.Module, relpath: str) -> int:
    """`for X in (A, B, ...): BODY` over a tuple/list *display* of at most four plain expressions (names / attribute paths), where X is a
    local that does not exist on the reference tree and BODY neither rebinds X nor contains a `break`/`continue` of this loop: replaced by
    BODY[X:=A]; BODY[X:=B]; ... — the same statements executed in the same order (the inverse of merging sibling loops into one loop over
    a display of their collections)."""
    all_units = localnames.reference().get("__units__", {}).get(relpath)
    if all_units is None:
        return 0
    ref = localnames.reference().get(relpath) or {}
    done = 0
    for q, fn in localnames.units(tree):
        if q not in all_units:
            continue
        known = {w[0] for w in ref.get(q, [])}
        for parent in ast.walk(fn):
            for fld in ("body", "orelse", "finalbody"):
                blk = getattr(parent, fld, None)
                if not (isinstance(blk, list) and blk and isinstance(blk[0], ast.stmt)):
                    continue
                i = 0
                while i < len(blk):
                    lp = blk[i]
                    i += 1
                    if not (isinstance(lp, ast.For) and not lp.orelse and isinstance(lp.target, ast.Name) and lp.target.id not in known
                            and isinstance(lp.iter, (ast.Tuple, ast.List)) and 2 <= len(lp.iter.elts) <= 4 and all(_plain_path(e_) for e_ in lp.iter.elts)):
                        continue
                    x = lp.target.id
                    if any(isinstance(n, ast.Name) and n.id == x and isinstance(n.ctx, ast.Store) for b_ in lp.body for n in ast.walk(b_)):
                        continue
                    # a break/continue that belongs to this loop (not to a loop nested in the body)
                    def own_jumps(stmts):
                        for s_ in stmts:
                            if isinstance(s_, (ast.Break, ast.Continue)):
                                return True
                            if isinstance(s_, (ast.For, ast.While, ast.AsyncFor, ast.FunctionDef, ast.AsyncFunctionDef, ast.ClassDef)):
                                continue
                            for f_ in ("body", "orelse", "finalbody"):
                                sub = getattr(s_, f_, None)
                                if isinstance(sub, list) and sub and isinstance(sub[0], ast.stmt) and own_jumps(sub):
                                    return True
                            if any(own_jumps(h.body) for h in getattr(s_, "handlers", []) or []):
                                return True
                        return False
                    if own_jumps(lp.body) or sum(1 for n in ast.walk(fn) if isinstance(n, ast.Name) and n.id == x) != 1 + sum(1 for b_ in lp.body for n in ast.walk(b_) if isinstance(n, ast.Name) and n.id == x):
                        continue
                    copies = []
                    for e_ in lp.iter.elts:
                        for b_ in lp.body:
                            c_ = copy.deepcopy(b_)
                            copies.append(_Subst({x: e_}).visit(c_))
                    k = blk.index(lp)
                    blk[k:k + 1] = copies
                    i = k + len(copies)
                    done += 1
        ast.fix_missing_locations(fn)
    return done


def fold_new_fill_loops(tree: ast.Module, relpath: str) -> int:
    """`A = []` immediately followed by `for v in IT: [if C: ...] A.append(E)` where A is a local that does not exist on the reference
    tree, the loop body is nothing but that (possibly guarded) append, A is not mentioned elsewhere in the loop and v nowhere else in the
    function: the pair is rewritten to `A = [E for v in IT if C]`.  Same elements, same evaluation order, same
    exceptions; it is the exact inverse of "write the comprehension as a loop" (the adjacent-temp step then folds `x = A`)."""
    all_units = localnames.reference().get("__units__", {}).get(relpath)
    if all_units is None:
        return 0
    ref = localnames.reference().get(relpath) or {}
    done = 0
    for q, fn in localnames.units(tree):
        if q not in all_units:
            continue
        known = {w[0] for w in ref.get(q, [])}
        # also a name that the reference function binds to a list comprehension (there the loop form *is* the notational variant)
        ref_lc = set((localnames.reference().get("__spellings__", {}).get(relpath, {}).get(q) or {}).get("lc", []))
        new = (set(localnames.locals_of(fn)) - known) | ref_lc
        if not new:
            continue
        counts = {}
        # occurrences of a name outside the comprehensions / generator expressions that bind it themselves (those are separate scopes)
        own_scope = set()
        for comp in ast.walk(fn):
            if isinstance(comp, (ast.ListComp, ast.SetComp, ast.DictComp, ast.GeneratorExp)):
                bound = {x.id for g in comp.generators for x in ast.walk(g.target) if isinstance(x, ast.Name)}
                own_scope |= {id(x) for x in ast.walk(comp) if isinstance(x, ast.Name) and x.id in bound}
        for n in ast.walk(fn):
            if isinstance(n, ast.Name) and id(n) not in own_scope:
                counts[n.id] = counts.get(n.id, 0) + 1
        for parent in ast.walk(fn):
            for fld in ("body", "orelse", "finalbody"):
                blk = getattr(parent, fld, None)
                if not (isinstance(blk, list) and blk and isinstance(blk[0], ast.stmt)) or isinstance(parent, (ast.Lambda, ast.IfExp)):
                    continue
                i = 0
                while i + 1 < len(blk):
                    a, lp = blk[i], blk[i + 1]
                    i += 1
                    a_t = a.targets[0] if isinstance(a, ast.Assign) and len(a.targets) == 1 else a.target if isinstance(a, ast.AnnAssign) else None
                    if not (isinstance(a_t, ast.Name) and a_t.id in new and isinstance(a.value, ast.List) and not a.value.elts):
                        continue
                    acc = a_t.id
                    if acc in ref_lc and sum(1 for x in ast.walk(fn) if isinstance(x, ast.Name) and x.id == acc and isinstance(x.ctx, ast.Store)) != 1:
                        continue
                    if not (isinstance(lp, ast.For) and not lp.orelse and isinstance(lp.target, ast.Name) and lp.target.id != acc):
                        continue
                    var = lp.target.id
                    conds = []
                    body = lp.body
                    while len(body) == 1 and isinstance(body[0], ast.If) and not body[0].orelse:
                        conds.append(body[0].test)
                        body = body[0].body
                    if not (len(body) == 1 and isinstance(body[0], ast.Expr) and isinstance(body[0].value, ast.Call) and isinstance(body[0].value.func, ast.Attribute)
                            and body[0].value.func.attr == "append" and isinstance(body[0].value.func.value, ast.Name) and body[0].value.func.value.id == acc
                            and len(body[0].value.args) == 1 and not body[0].value.keywords):
                        continue
                    elt = body[0].value.args[0]
                    parts = [elt, lp.iter, *conds]
                    if any(isinstance(x, ast.Name) and x.id == acc for p_ in parts for x in ast.walk(p_)):
                        continue
                    if any(isinstance(x, (ast.Yield, ast.YieldFrom, ast.Await, ast.NamedExpr, ast.Lambda)) for p_ in parts for x in ast.walk(p_)):
                        continue
                    inside = sum(1 for x in ast.walk(lp) if isinstance(x, ast.Name) and x.id == var and id(x) not in own_scope)
                    if counts.get(var, 0) != inside:
                        continue  # the loop variable is read after the loop: a comprehension would not leak it
                    comp = ast.ListComp(elt=elt, generators=[ast.comprehension(target=lp.target, iter=lp.iter, ifs=conds, is_async=0)])
                    if isinstance(a, ast.AnnAssign):
                        # a local's annotation has no run-time meaning: the folded statement is the plain assignment the loop replaced
                        blk[blk.index(a)] = ast.copy_location(ast.Assign(targets=[a.target], value=ast.copy_location(comp, a.value), lineno=a.lineno), a)
                    else:
                        a.value = ast.copy_location(comp, a.value)
                    blk.remove(lp)
                    done += 1
        ast.fix_missing_locations(fn)
    return done


def inline_adjacent_temps(tree: ast.Module, relpath: str) -> int:
    """`T = E` immediately followed (same block) by the only statement that reads T, where T does not exist on the reference tree, every
    binding of T in the function has that form, and T is the first thing the next statement evaluates: the pair is rewritten to the next
    statement with E in place of T.  Evaluation order is unchanged by construction (E may be any expression, calls included), so this is
    the exact inverse of "introduce a temporary for the returned / passed / tested expression"."""
    all_units = localnames.reference().get("__units__", {}).get(relpath)
    if all_units is None:
        return 0
    ref = localnames.reference().get(relpath) or {}  # functions without locals are not recorded there
    done = 0
    for q, fn in localnames.units(tree):
        if q not in all_units:
            continue
        known = {w[0] for w in ref.get(q, [])}
        for _round in range(400):
            cur = set(localnames.locals_of(fn))
            new = cur - known
            if not new:
                break
            stores, loads = {}, {}
            for n in ast.walk(fn):
                if isinstance(n, ast.Name) and n.id in new:
                    (stores if isinstance(n.ctx, ast.Store) else loads).setdefault(n.id, []).append(n)
            pairs = {}  # name -> list of (block, index, target load node)
            for parent in ast.walk(fn):
                blocks = [getattr(parent, f, None) for f in ("body", "orelse", "finalbody")] if not isinstance(parent, (ast.Lambda, ast.IfExp)) else []
                for c_ in getattr(parent, "cases", []) or []:
                    blocks.append(c_.body)
                for blk in blocks:
                    if not (isinstance(blk, list) and blk and isinstance(blk[0], ast.stmt)):
                        continue
                    for i, st in enumerate(blk[:-1]):
                        if isinstance(st, ast.Assign) and len(st.targets) == 1 and isinstance(st.targets[0], ast.Name) and st.targets[0].id in new:
                            name = st.targets[0].id
                            nxt = blk[i + 1]
                            uses = [x for x in ast.walk(nxt) if isinstance(x, ast.Name) and x.id == name and isinstance(x.ctx, ast.Load)]
                            if len(uses) == 1 and not any(isinstance(x, ast.Name) and x.id == name for x in ast.walk(st.value)) and _first_evaluated(nxt, uses[0]):
                                pairs.setdefault(name, []).append((blk, st, nxt, uses[0]))
            progressed = False
            for name, ps in pairs.items():
                if len(ps) != len(stores.get(name, [])) or len(ps) != len(loads.get(name, [])):
                    continue  # bound or read somewhere else as well: leave it
                # a statement may be the consumer of one temp per round only
                for blk, st, nxt, use in ps:
                    class R(ast.NodeTransformer):
                        def visit_Name(self, n):
                            return ast.copy_location(st.value, n) if n is use else n
                    R().visit(nxt)
                    blk.remove(st)
                    done += 1
                    progressed = True
                break  # recompute after each temp (pairs of other temps may have moved)
            if not progressed:
                break
        ast.fix_missing_locations(fn)
    return done


# ------------------------------------------------------------------------------------------------- spellings
_MIRROR = {ast.Lt: ast.Gt, ast.Gt: ast.Lt, ast.LtE: ast.GtE, ast.GtE: ast.LtE}
_NEGATE = {ast.In: ast.NotIn, ast.NotIn: ast.In, ast.Eq: ast.NotEq, ast.NotEq: ast.Eq, ast.Is: ast.IsNot, ast.IsNot: ast.Is,
           ast.Lt: ast.GtE, ast.GtE: ast.Lt, ast.Gt: ast.LtE, ast.LtE: ast.Gt}


def _txt(n) -> str:
    return ast.unparse(n).replace(" ", "")


def spelling_record(fn: ast.FunctionDef) -> dict:
    """What the reference keeps per function: the texts of its ordered comparisons, augmented assignments and if-tests."""
    cmps, augs, ifs, mms = set(), set(), set(), set()
    ifexps, ifstmts, chains, whiles = set(), set(), set(), set()
    for n in ast.walk(fn):
        if isinstance(n, ast.Compare) and len(n.ops) == 1 and type(n.ops[0]) in _MIRROR:
            cmps.add(_txt(n))
        elif isinstance(n, ast.Compare) and len(n.ops) == 2:
            chains.add(_txt(n))
        elif isinstance(n, ast.AugAssign):
            augs.add(_txt(n))
        elif isinstance(n, (ast.If, ast.IfExp)):
            ifs.add(_txt(n.test))
            (ifstmts if isinstance(n, ast.If) else ifexps).add(_txt(n.test) if isinstance(n, ast.If) else _txt(n))
        elif isinstance(n, ast.While) and not isinstance(n.test, ast.Constant):
            whiles.add(_txt(n.test))
        elif _is_minmax2(n):
            mms.add(_txt(n))
    lcs = {t.id for n in ast.walk(fn) if isinstance(n, (ast.Assign, ast.AnnAssign)) and isinstance(getattr(n, "value", None), ast.ListComp)
           for t in (n.targets if isinstance(n, ast.Assign) else [n.target]) if isinstance(t, ast.Name)}
    sds = {_txt(n) for n in ast.walk(fn) if isinstance(n, ast.Call) and isinstance(n.func, ast.Attribute) and n.func.attr == "setdefault" and len(n.args) == 2}
    fors = {f"{_txt(n.target)}|{_txt(n.iter)}" for n in ast.walk(fn) if isinstance(n, ast.For)}
    return {"cmp": sorted(cmps), "aug": sorted(augs), "if": sorted(ifs), "mm": sorted(mms),
            "ifexp": sorted(ifexps), "ifstmt": sorted(ifstmts), "chain": sorted(chains), "while": sorted(whiles),
            "lc": sorted(lcs), "sd": sorted(sds), "for": sorted(fors)}


def _is_minmax2(n) -> bool:
    return isinstance(n, ast.Call) and isinstance(n.func, ast.Name) and n.func.id in ("min", "max") and len(n.args) == 2 and not n.keywords \
        and not any(isinstance(a, ast.Starred) for a in n.args)


def _negated(test: ast.AST) -> ast.AST | None:
    if isinstance(test, ast.UnaryOp) and isinstance(test.op, ast.Not):
        return test.operand
    if isinstance(test, ast.Compare) and len(test.ops) == 1 and type(test.ops[0]) in _NEGATE:
        return ast.Compare(left=test.left, ops=[_NEGATE[type(test.ops[0])]()], comparators=test.comparators)
    if isinstance(test, ast.BoolOp):
        # De Morgan, in the canonical (distributed) form of canonical_forms
        return ast.BoolOp(op=ast.Or() if isinstance(test.op, ast.And) else ast.And(), values=[_negated(v) for v in test.values])
    return ast.UnaryOp(op=ast.Not(), operand=test)


def flatten_else(tree: ast.Module) -> int:
    """Canonical form, applied to every analysed module: an `else` after a branch that cannot fall through adds nothing —
    `if c: ...; return` / `else: REST` is rewritten to `if c: ...; return` followed by REST in the same block (also through elif chains).
    Exactly the same paths execute; the rules then see one shape whether or not the author wrote the redundant `else`."""
    n_done = 0

    def terminates(body):
        return bool(body) and isinstance(body[-1], (ast.Return, ast.Raise, ast.Continue, ast.Break))

    def block(b):
        nonlocal n_done
        out = []
        for st in b:
            for fld in ("body", "orelse", "finalbody"):
                sub = getattr(st, fld, None)
                if isinstance(sub, list) and sub and isinstance(sub[0], ast.stmt):
                    setattr(st, fld, block(sub))
            for h in getattr(st, "handlers", []) or []:
                h.body = block(h.body)
            for c_ in getattr(st, "cases", []) or []:
                c_.body = block(c_.body)
            if isinstance(st, ast.If) and st.orelse and terminates(st.body):
                rest, st.orelse = st.orelse, []
                n_done += 1
                out.append(st)
                out.extend(rest)
            else:
                out.append(st)
        return out

    tree.body = block(tree.body)
    return n_done


def _plain_path(t) -> bool:
    """a name or a dotted attribute path rooted in a name (`x`, `self.a`, `self.a.b`)"""
    while isinstance(t, ast.Attribute):
        t = t.value
    return isinstance(t, ast.Name)


def canonical_forms(tree: ast.Module) -> tuple[int, int]:
    """Two more canonical forms, applied to every analysed module (like flatten_else; identities on the meaning of the code):
    (1) `a, b = x, y` with plain names or attribute paths (`self.a`) on the left and a tuple display of the same length on the right is split into `a = x` / `b = y`
    when no later value mentions an earlier target and no later value contains a call (so evaluating it cannot observe the earlier binding
    through a closure) — x is evaluated before y either way;  (2) `not (a and b)` / `not (a or b)` is distributed to `not a or not b` /
    `not a and not b` (same operands evaluated in the same order with the same short-circuit).  Returns (splits, distributions)."""
    n_split = n_dist = 0
    captured = {x.id for sc in ast.walk(tree) if isinstance(sc, (ast.Lambda, ast.GeneratorExp, ast.ListComp, ast.SetComp, ast.DictComp)) for x in ast.walk(sc) if isinstance(x, ast.Name)}
    fns = [f for f in ast.walk(tree) if isinstance(f, (ast.FunctionDef, ast.AsyncFunctionDef))]
    for f in fns:
        for inner in ast.walk(f):
            if inner is not f and isinstance(inner, (ast.FunctionDef, ast.AsyncFunctionDef)):
                captured |= {x.id for x in ast.walk(inner) if isinstance(x, ast.Name)}

    class D(ast.NodeTransformer):
        def visit_UnaryOp(self, n):
            nonlocal n_dist
            self.generic_visit(n)
            if isinstance(n.op, ast.Not) and isinstance(n.operand, ast.BoolOp):
                flip = ast.Or() if isinstance(n.operand.op, ast.And) else ast.And()
                n_dist += 1
                return ast.copy_location(ast.BoolOp(op=flip, values=[_negated(v) for v in n.operand.values]), n)
            return n

    def splittable(st):
        if not (isinstance(st, ast.Assign) and len(st.targets) == 1 and isinstance(st.targets[0], ast.Tuple) and isinstance(st.value, ast.Tuple)
                and len(st.targets[0].elts) == len(st.value.elts) >= 2 and all(_plain_path(t) for t in st.targets[0].elts)
                and not any(isinstance(v, ast.Starred) for v in st.value.elts)):
            return False
        names = [_txt(t) for t in st.targets[0].elts]
        if len(set(names)) != len(names) or any(a != b and (a.startswith(b + ".") or b.startswith(a + ".")) for a in names for b in names):
            return False
        for j, v in enumerate(st.value.elts):
            if j == 0:
                continue
            if any(isinstance(x, (ast.Yield, ast.YieldFrom, ast.Await, ast.NamedExpr, ast.Lambda)) for x in ast.walk(v)):
                return False
            # a call in a later value could observe an earlier binding only through a closure over a local name (never for an attribute:
            # there the store itself is visible) — allowed when every earlier target is a plain name that no nested scope mentions
            if any(isinstance(x, ast.Call) for x in ast.walk(v)) and not all(isinstance(t, ast.Name) and t.id not in captured for t in st.targets[0].elts[:j]):
                return False
            # a later value must not read an earlier target (a name, or an attribute path `self.x` / anything below it)
            for x in ast.walk(v):
                if isinstance(x, (ast.Name, ast.Attribute)) and _plain_path(x) and any(_txt(x) == n_ or _txt(x).startswith(n_ + ".") for n_ in names[:j]):
                    return False
        # an earlier value must not read a later target either (it would see the old binding in both forms — fine) — nothing to check
        return True

    def block(b):
        nonlocal n_split
        out = []
        for st in b:
            for fld in ("body", "orelse", "finalbody"):
                sub = getattr(st, fld, None)
                if isinstance(sub, list) and sub and isinstance(sub[0], ast.stmt):
                    setattr(st, fld, block(sub))
            for h in getattr(st, "handlers", []) or []:
                h.body = block(h.body)
            for c_ in getattr(st, "cases", []) or []:
                c_.body = block(c_.body)
            if splittable(st):
                n_split += 1
                for t, v in zip(st.targets[0].elts, st.value.elts):
                    out.append(ast.copy_location(ast.Assign(targets=[t], value=v, lineno=st.lineno), st))
            else:
                out.append(st)
        return out

    tree.body = block(tree.body)
    D().visit(tree)
    ast.fix_missing_locations(tree)
    return n_split, n_dist


def sink_common_tails(tree: ast.Module) -> int:
    """Canonical form, applied to every analysed module late in the pipeline (after temporaries have been folded back, before the
    redundant-else flattening): a simple statement (no suspension) that ends *every* branch of an if/elif/else chain — each branch keeping
    at least one other statement — is written once after the chain (repeatedly, for several common trailing statements).  It is executed
    after the chain whichever branch ran, so this is an identity; it makes "tail hoisted out of both branches" and "tail pushed into both
    branches" the same program for the rules."""
    n_sunk = 0

    def leaves(if_node):
        """the branch bodies of an if / elif / ... / else chain that ends in an else, or None"""
        out_ = [if_node.body]
        if not if_node.orelse:
            return None
        if len(if_node.orelse) == 1 and isinstance(if_node.orelse[0], ast.If):
            rest = leaves(if_node.orelse[0])
            return None if rest is None else out_ + rest
        return out_ + [if_node.orelse]

    def block(b):
        nonlocal n_sunk
        out = []
        for st in b:
            for fld in ("body", "orelse", "finalbody"):
                sub = getattr(st, fld, None)
                if isinstance(sub, list) and sub and isinstance(sub[0], ast.stmt):
                    setattr(st, fld, block(sub))
            for h in getattr(st, "handlers", []) or []:
                h.body = block(h.body)
            for c_ in getattr(st, "cases", []) or []:
                c_.body = block(c_.body)
            if isinstance(st, ast.If):
                # a statement that ends *every* branch of an if/elif/else chain is executed after the chain whichever branch ran:
                # written once after it (repeatedly, for several common trailing statements)
                sunk = []
                while True:
                    lv = leaves(st)
                    if lv is None or any(len(x) < 2 for x in lv):
                        break
                    last = lv[0][-1]
                    if not isinstance(last, (ast.Expr, ast.Assign, ast.AugAssign, ast.AnnAssign, ast.Return, ast.Raise, ast.Continue, ast.Break)) \
                            or any(isinstance(y, (ast.Yield, ast.YieldFrom, ast.Await)) for y in ast.walk(last)) \
                            or any(ast.dump(x[-1]) != ast.dump(last) for x in lv[1:]):
                        break
                    for x in lv:
                        x.pop()
                    sunk.insert(0, last)
                    n_sunk += 1
                out.append(st)
                out.extend(sunk)
                continue
            out.append(st)
        return out

    tree.body = block(tree.body)
    ast.fix_missing_locations(tree)
    return n_sunk


def restore_spellings(tree: ast.Module, relpath: str) -> int:
    """Undo three purely notational edits where the reference tree has the other spelling of the *same* expression in the same function:
    a mirrored comparison (`b > a` for `a < b`), an expanded augmented assignment (`x = x + e` for `x += e`) and an inverted if/else
    (`if not c: B else: A` for `if c: A else: B`).  Each rewrite is an identity on the meaning of the code."""
    ref = localnames.reference().get("__spellings__", {}).get(relpath)
    if not ref:
        return 0
    n_done = 0
    for q, fn in localnames.units(tree):
        r = ref.get(q)
        if not r:
            continue
        rc, ra, ri, rm = set(r["cmp"]), set(r["aug"]), set(r["if"]), set(r.get("mm", []))
        rx, rs, rch, rw = set(r.get("ifexp", [])), set(r.get("ifstmt", [])), set(r.get("chain", [])), set(r.get("while", []))
        rsd = set(r.get("sd", []))
        rfor = set(r.get("for", []))
        # index loop <-> enumerate, whichever the reference function has for the same index name and sequence: `for i in range(len(X))`
        # reading `X[i]`  <->  `for i, v in enumerate(X)` reading `v` (X is not rebound or resized and `v` / `X[i]` not stored to in the body
        # in the direction that would matter; checked below)
        for lp in [n for n in ast.walk(fn) if isinstance(n, ast.For)]:
            hdr = f"{_txt(lp.target)}|{_txt(lp.iter)}"
            if hdr in rfor:
                continue
            it = lp.iter
            if isinstance(lp.target, ast.Name) and isinstance(it, ast.Call) and isinstance(it.func, ast.Name) and it.func.id == "range" and len(it.args) == 1 \
                    and isinstance(it.args[0], ast.Call) and isinstance(it.args[0].func, ast.Name) and it.args[0].func.id == "len" and len(it.args[0].args) == 1:
                X, I = it.args[0].args[0], lp.target.id
                cands = [h for h in rfor if h.endswith(f"|enumerate({_txt(X)})") and h.startswith(f"({I},")]
                if len(cands) == 1:
                    V = cands[0].split("|")[0][1:-1].split(",")[1]
                    want = _txt(ast.Subscript(value=X, slice=ast.Name(id=I, ctx=ast.Load()), ctx=ast.Load()))
                    subs = [x for b_ in lp.body for x in ast.walk(b_) if isinstance(x, ast.Subscript) and _txt(x) == want]
                    if V.isidentifier() and subs and all(isinstance(x.ctx, ast.Load) for x in subs) and not any(isinstance(x, ast.Name) and x.id == V for x in ast.walk(fn)):
                        class RE(ast.NodeTransformer):
                            def visit_Subscript(self, n):
                                return ast.copy_location(ast.Name(id=V, ctx=ast.Load()), n) if any(n is x for x in subs) else self.generic_visit(n)
                        lp.body = [RE().visit(b_) for b_ in lp.body]
                        lp.target = ast.copy_location(ast.Tuple(elts=[ast.Name(id=I, ctx=ast.Store()), ast.Name(id=V, ctx=ast.Store())], ctx=ast.Store()), lp.target)
                        lp.iter = ast.copy_location(ast.Call(func=ast.Name(id="enumerate", ctx=ast.Load()), args=[X], keywords=[]), it)
                        n_done += 1
            elif isinstance(lp.target, ast.Tuple) and len(lp.target.elts) == 2 and all(isinstance(e_, ast.Name) for e_ in lp.target.elts) \
                    and isinstance(it, ast.Call) and isinstance(it.func, ast.Name) and it.func.id == "enumerate" and len(it.args) == 1 and not it.keywords:
                I, V, X = lp.target.elts[0].id, lp.target.elts[1].id, it.args[0]
                if f"{I}|range(len({_txt(X)}))" in rfor:
                    uses = [x for b_ in lp.body for x in ast.walk(b_) if isinstance(x, ast.Name) and x.id == V]
                    # V is only read, and only in statements that come before (or are) the first store to X[I] in the body
                    stores = [k_ for k_, b_ in enumerate(lp.body) for x in ast.walk(b_) if isinstance(x, ast.Subscript) and isinstance(x.ctx, ast.Store) and _txt(x.value) == _txt(X)]
                    first_store = min(stores) if stores else len(lp.body)
                    ok_ = all(isinstance(x.ctx, ast.Load) for x in uses) and all(k_ <= first_store for k_, b_ in enumerate(lp.body) if any(x in uses for x in ast.walk(b_))) \
                        and not any(isinstance(x, ast.Name) and x.id == V for x in ast.walk(fn) if not any(x is y for b_ in lp.body for y in ast.walk(b_)) and x is not lp.target.elts[1]
                                    and not any(isinstance(c_, (ast.ListComp, ast.SetComp, ast.DictComp, ast.GeneratorExp)) and any(x is z for z in ast.walk(c_))
                                                and any(isinstance(w, ast.Name) and w.id == V for g_ in c_.generators for w in ast.walk(g_.target)) for c_ in ast.walk(fn)))
                    if ok_:
                        class RV(ast.NodeTransformer):
                            def visit_Name(self, n):
                                if any(n is x for x in uses):
                                    return ast.copy_location(ast.Subscript(value=copy.deepcopy(X), slice=ast.Name(id=I, ctx=ast.Load()), ctx=ast.Load()), n)
                                return n
                        lp.body = [RV().visit(b_) for b_ in lp.body]
                        lp.target = ast.copy_location(ast.Name(id=I, ctx=ast.Store()), lp.target)
                        lp.iter = ast.copy_location(ast.Call(func=ast.Name(id="range", ctx=ast.Load()), args=[ast.Call(func=ast.Name(id="len", ctx=ast.Load()), args=[X], keywords=[])], keywords=[]), it)
                        n_done += 1
        ast.fix_missing_locations(fn)

        def neg_of(t_):
            """the negation of a test, with its ordered comparisons mirrored into the reference's spelling where that is the one on record"""
            g = _negated(t_)
            if g is None:
                return None

            class M(ast.NodeTransformer):
                def visit_Compare(self, n):
                    self.generic_visit(n)
                    if len(n.ops) == 1 and type(n.ops[0]) in _MIRROR and _txt(n) not in rc:
                        m = ast.Compare(left=n.comparators[0], ops=[_MIRROR[type(n.ops[0])]()], comparators=[n.left])
                        if _txt(m) in rc:
                            return m
                    return n
            return M().visit(copy.deepcopy(g))

        class T(ast.NodeTransformer):
            def visit_Compare(self, n):
                nonlocal n_done
                self.generic_visit(n)
                if len(n.ops) == 1 and type(n.ops[0]) in _MIRROR and _txt(n) not in rc:
                    m = ast.Compare(left=n.comparators[0], ops=[_MIRROR[type(n.ops[0])]()], comparators=[n.left])
                    if _txt(m) in rc:
                        n_done += 1
                        return ast.copy_location(m, n)
                return n

            def visit_Call(self, n):
                nonlocal n_done
                self.generic_visit(n)
                # max(b, a) for the reference's max(a, b): the same value for numbers (the two differ only on NaN operands and on which of
                # two equal operands is returned — nothing any rule looks at)
                if _is_minmax2(n) and _txt(n) not in rm:
                    m = ast.Call(func=n.func, args=[n.args[1], n.args[0]], keywords=[])
                    if _txt(m) in rm:
                        n_done += 1
                        return ast.copy_location(m, n)
                return n

            def visit_Assign(self, n):
                nonlocal n_done
                self.generic_visit(n)
                if len(n.targets) == 1 and isinstance(n.value, ast.BinOp) and isinstance(n.targets[0], (ast.Name, ast.Attribute, ast.Subscript)) \
                        and ast.dump(n.value.left) == ast.dump(_as_load(n.targets[0])):
                    a = ast.AugAssign(target=n.targets[0], op=n.value.op, value=n.value.right)
                    if _txt(a) in ra and _txt(n) not in ra:
                        n_done += 1
                        return ast.copy_location(a, n)
                return n

            def visit_BoolOp(self, n):
                nonlocal n_done
                self.generic_visit(n)
                # `a <= b and b < c` for the reference's chained `a <= b < c` (b a name or constant: evaluated twice without effect)
                if isinstance(n.op, ast.And) and len(n.values) == 2 and all(isinstance(v, ast.Compare) and len(v.ops) == 1 for v in n.values) \
                        and isinstance(n.values[1].left, (ast.Name, ast.Constant)) and ast.dump(n.values[0].comparators[0]) == ast.dump(n.values[1].left):
                    ch = ast.Compare(left=n.values[0].left, ops=[n.values[0].ops[0], n.values[1].ops[0]], comparators=[n.values[0].comparators[0], n.values[1].comparators[0]])
                    if _txt(ch) in rch:
                        n_done += 1
                        return ast.copy_location(ch, n)
                if isinstance(n.op, ast.Or) and len(n.values) == 2 and all(isinstance(v, ast.Compare) and len(v.ops) == 1 and type(v.ops[0]) in _NEGATE for v in n.values):
                    g1, g2 = _negated(n.values[0]), _negated(n.values[1])
                    if isinstance(g2.left, (ast.Name, ast.Constant)) and ast.dump(g1.comparators[0]) == ast.dump(g2.left):
                        ch = ast.Compare(left=g1.left, ops=[g1.ops[0], g2.ops[0]], comparators=[g1.comparators[0], g2.comparators[0]])
                        if _txt(ch) in rch:
                            n_done += 1
                            return ast.copy_location(ast.UnaryOp(op=ast.Not(), operand=ch), n)
                return n

            def visit_While(self, n):
                nonlocal n_done
                self.generic_visit(n)
                # `while True:` / `if not c: break` / BODY for the reference's `while c: BODY`
                if isinstance(n.test, ast.Constant) and n.test.value is True and not n.orelse and len(n.body) >= 2 and isinstance(n.body[0], ast.If) \
                        and not n.body[0].orelse and len(n.body[0].body) == 1 and isinstance(n.body[0].body[0], ast.Break):
                    neg = _negated(n.body[0].test)
                    if neg is not None and _txt(neg) in rw:
                        n_done += 1
                        return ast.copy_location(ast.While(test=neg, body=n.body[1:], orelse=[]), n)
                return n

            def visit_IfExp(self, n):
                nonlocal n_done
                self.generic_visit(n)
                if _txt(n.test) not in ri:
                    neg = neg_of(n.test)
                    if neg is not None and _txt(neg) in ri:
                        n_done += 1
                        return ast.copy_location(ast.IfExp(test=neg, body=n.orelse, orelse=n.body), n)
                return n

            def visit_If(self, n):
                nonlocal n_done
                self.generic_visit(n)
                if n.orelse and _txt(n.test) not in ri:
                    neg = neg_of(n.test)
                    if neg is not None and _txt(neg) in ri:
                        n_done += 1
                        return ast.copy_location(ast.If(test=neg, body=n.orelse, orelse=n.body), n)
                return n
        T().visit(fn)

        # swapped early return: `if not c: REST; A` for the reference's `if c: A; REST` (both A and REST leave the block) — undone at
        # block level: the same paths, the same statements, only which arm is written as the guard differs
        def terminates(body):
            return bool(body) and isinstance(body[-1], (ast.Return, ast.Raise, ast.Continue, ast.Break))

        def unswap(b):
            nonlocal n_done
            for st in b:
                for fld in ("body", "orelse", "finalbody"):
                    sub = getattr(st, fld, None)
                    if isinstance(sub, list) and sub and isinstance(sub[0], ast.stmt) and not isinstance(st, (ast.FunctionDef, ast.AsyncFunctionDef, ast.ClassDef)):
                        setattr(st, fld, unswap(sub))
                for h in getattr(st, "handlers", []) or []:
                    h.body = unswap(h.body)
            for i, st in enumerate(b[:-1]):
                rest = b[i + 1:]
                if isinstance(st, ast.If) and not st.orelse and terminates(st.body) and terminates(rest) and _txt(st.test) not in ri:
                    neg = neg_of(st.test)
                    if neg is not None and _txt(neg) in ri:
                        n_done += 1
                        new_if = ast.copy_location(ast.If(test=neg, body=rest, orelse=[]), st)
                        return b[:i] + [new_if] + unswap(st.body)
            return b
        fn.body = unswap(fn.body)

        # statement-level spellings of one conditional value: `if c: x = a` / `else: x = b`, and `if c: return a` / `return b`, for the
        # reference's `x = a if c else b` / `return a if c else b` (the test occurs in the reference function only as a conditional
        # expression); and `if not c: continue` / REST at the end of a loop body for the reference's `if c: REST`
        def unstatement(b, in_loop):
            nonlocal n_done
            for st in b:
                loop = isinstance(st, (ast.For, ast.While, ast.AsyncFor))
                for fld in ("body", "orelse", "finalbody"):
                    sub = getattr(st, fld, None)
                    if isinstance(sub, list) and sub and isinstance(sub[0], ast.stmt) and not isinstance(st, (ast.FunctionDef, ast.AsyncFunctionDef, ast.ClassDef)):
                        setattr(st, fld, unstatement(sub, loop and fld == "body"))
                for h in getattr(st, "handlers", []) or []:
                    h.body = unstatement(h.body, False)
            out = []
            i = 0
            while i < len(b):
                st = b[i]
                # `if K not in D: D[K] = V` followed by a statement that reads `D[K]`, for the reference's `D.setdefault(K, V)` there
                if isinstance(st, ast.If) and not st.orelse and len(st.body) == 1 and isinstance(st.test, ast.Compare) and len(st.test.ops) == 1 \
                        and isinstance(st.test.ops[0], ast.NotIn) and isinstance(st.body[0], ast.Assign) and len(st.body[0].targets) == 1 \
                        and isinstance(st.body[0].targets[0], ast.Subscript) and i + 1 < len(b):
                    K, D, tgt = st.test.left, st.test.comparators[0], st.body[0].targets[0]
                    if _txt(tgt.value) == _txt(D) and _txt(tgt.slice) == _txt(K):
                        sd_call = ast.Call(func=ast.Attribute(value=D, attr="setdefault", ctx=ast.Load()), args=[K, st.body[0].value], keywords=[])
                        if _txt(sd_call) in rsd:
                            want = _txt(ast.Subscript(value=D, slice=K, ctx=ast.Load()))
                            hits = [x for x in ast.walk(b[i + 1]) if isinstance(x, ast.Subscript) and isinstance(x.ctx, ast.Load) and _txt(x) == want]
                            if len(hits) == 1 and not isinstance(b[i + 1], (ast.If, ast.For, ast.While, ast.Try, ast.With)):
                                class R1(ast.NodeTransformer):
                                    def visit_Subscript(self, n):
                                        return ast.copy_location(sd_call, n) if n is hits[0] else self.generic_visit(n)
                                b[i + 1] = R1().visit(b[i + 1])
                                n_done += 1
                                i += 1
                                continue
                # the other direction: `D.setdefault(K, V)` (as a statement, or as the receiver of one method call) where the reference tests
                # `K not in D` in an if statement and has no such setdefault — V is a display / constructor call without arguments / name
                sdn = None
                if isinstance(st, ast.Expr) and isinstance(st.value, ast.Call):
                    c0 = st.value
                    if isinstance(c0.func, ast.Attribute) and c0.func.attr == "setdefault" and len(c0.args) == 2 and not c0.keywords:
                        sdn, outer = c0, None
                    elif isinstance(c0.func, ast.Attribute) and isinstance(c0.func.value, ast.Call) and isinstance(c0.func.value.func, ast.Attribute) \
                            and c0.func.value.func.attr == "setdefault" and len(c0.func.value.args) == 2 and not c0.func.value.keywords:
                        sdn, outer = c0.func.value, c0
                if sdn is not None and _txt(sdn) not in rsd:
                    D, K, V = sdn.func.value, sdn.args[0], sdn.args[1]
                    cheap = isinstance(V, (ast.Name, ast.Constant)) or (isinstance(V, (ast.List, ast.Set, ast.Tuple)) and not V.elts) or (isinstance(V, ast.Dict) and not V.keys) \
                        or (isinstance(V, ast.Call) and isinstance(V.func, ast.Name) and V.func.id in ("set", "dict", "list", "deque") and not V.args and not V.keywords)
                    test = ast.Compare(left=K, ops=[ast.NotIn()], comparators=[D])
                    if cheap and _txt(test) in rs:
                        store = ast.Assign(targets=[ast.Subscript(value=D, slice=K, ctx=ast.Store())], value=V, lineno=st.lineno)
                        out.append(ast.copy_location(ast.If(test=test, body=[ast.copy_location(store, st)], orelse=[]), st))
                        if outer is not None:
                            outer.func.value = ast.copy_location(ast.Subscript(value=copy.deepcopy(D), slice=copy.deepcopy(K), ctx=ast.Load()), sdn)
                            out.append(st)
                        n_done += 1
                        i += 1
                        continue
                if isinstance(st, ast.If):
                    t = st.test
                    neg = _negated(t)

                    def pick(a_, b_):
                        # the reference spells exactly this conditional expression (either orientation)?
                        for cand in (ast.IfExp(test=t, body=a_, orelse=b_), ast.IfExp(test=neg, body=b_, orelse=a_) if neg is not None else None):
                            if cand is not None and _txt(cand) in rx:
                                return cand
                        return None

                    def one_assign(body):
                        return len(body) == 1 and isinstance(body[0], ast.Assign) and len(body[0].targets) == 1 and _plain_path(body[0].targets[0])
                    if st.orelse and one_assign(st.body) and one_assign(st.orelse) and _txt(st.body[0].targets[0]) == _txt(st.orelse[0].targets[0]):
                        val = pick(st.body[0].value, st.orelse[0].value)
                        if val is not None:
                            out.append(ast.copy_location(ast.Assign(targets=st.body[0].targets, value=val, lineno=st.lineno), st))
                            n_done += 1
                            i += 1
                            continue
                    if not st.orelse and len(st.body) == 1 and isinstance(st.body[0], ast.Return) and st.body[0].value is not None \
                            and i + 1 < len(b) and isinstance(b[i + 1], ast.Return) and b[i + 1].value is not None:
                        val = pick(st.body[0].value, b[i + 1].value)
                        if val is not None:
                            out.append(ast.copy_location(ast.Return(value=val), st))
                            n_done += 1
                            i += 2
                            continue
                # the other direction: `x = a if c else b` / `return a if c else b` where the reference function has no such conditional
                # expression but an `if c:` (or `if not c:`) statement — written back as statements
                if (isinstance(st, ast.Assign) and len(st.targets) == 1 and _plain_path(st.targets[0]) or isinstance(st, ast.Return)) \
                        and isinstance(st.value, ast.IfExp) and _txt(st.value) not in rx:
                    t = st.value.test
                    neg = _negated(t)
                    if _txt(t) in rs:
                        c_, a_, b_ = t, st.value.body, st.value.orelse
                    elif neg is not None and _txt(neg) in rs:
                        c_, a_, b_ = neg, st.value.orelse, st.value.body
                    else:
                        c_ = None
                    if c_ is not None:
                        n_done += 1
                        if isinstance(st, ast.Return):
                            out.append(ast.copy_location(ast.If(test=c_, body=[ast.copy_location(ast.Return(value=a_), st)], orelse=[]), st))
                            out.append(ast.copy_location(ast.Return(value=b_), st))
                        else:
                            out.append(ast.copy_location(ast.If(test=c_, body=[ast.copy_location(ast.Assign(targets=st.targets, value=a_, lineno=st.lineno), st)],
                                                                orelse=[ast.copy_location(ast.Assign(targets=[copy.deepcopy(st.targets[0])], value=b_, lineno=st.lineno), st)]), st))
                        i += 1
                        continue
                if in_loop and isinstance(st, ast.If) and not st.orelse and len(st.body) == 1 and isinstance(st.body[0], ast.Continue) and i + 1 < len(b) \
                        and _txt(st.test) not in ri:
                    neg = _negated(st.test)
                    if neg is not None and _txt(neg) in rs:
                        out.append(ast.copy_location(ast.If(test=neg, body=b[i + 1:], orelse=[]), st))
                        n_done += 1
                        break
                out.append(st)
                i += 1
            return out
        fn.body = unstatement(fn.body, False)
        ast.fix_missing_locations(fn)
    return n_done


def _as_load(t):
    t2 = copy.deepcopy(t)
    for x in ast.walk(t2):
        if hasattr(x, "ctx"):
            x.ctx = ast.Load()
    return t2
