"""Normalisation of behaviour-preserving *additions* relative to the reference tree, so that they do not change a verdict.

Two rewrites, both applied to the analysed AST only (never to /repo), both semantics-preserving:

* ``inline_new_helpers`` — a private helper function/method that does not exist on the reference tree (``refnames.json`` lists every
  function of every module) and is a plain straight-line body (no yield, no nested defs, at most one trailing ``return``) is inlined at
  its call sites of the forms ``helper(...)``, ``x = helper(...)``, ``return helper(...)`` (arguments must be names, access paths or
  constants); when every call site could be inlined the helper itself is dropped from the analysed tree.  This undoes an
  "extract method" refactoring; it never touches a function that exists on the reference tree.
* ``inline_new_temps`` — a local variable that does not exist on the reference tree (after local-name recovery) and is assigned exactly
  once from a side-effect-free expression is replaced, at every use where the must-alias fact ``x == <expr>`` still holds (FactFlow kills
  it at writes to either side, at calls that may write, and at suspensions for shared state), by that expression; if no use remains the
  assignment is dropped.  This undoes an "introduce temporary variable" refactoring.

Anything these rewrites cannot prove is left as it is: the rules then see the code as written.
"""

from __future__ import annotations

import ast
import copy

from .astutil import path_of, unparse, walk_scope
from . import localnames


# ------------------------------------------------------------------------------------------------- helpers
def _simple_arg(e: ast.AST) -> bool:
    return isinstance(e, ast.Constant) or path_of(e) is not None


def _inlinable(fn: ast.FunctionDef) -> bool:
    if fn.decorator_list or fn.args.vararg or fn.args.kwarg or fn.args.kwonlyargs or fn.args.posonlyargs:
        return False
    body = [s for s in fn.body if not (isinstance(s, ast.Expr) and isinstance(s.value, ast.Constant))]
    if not body:
        return False
    for n in ast.walk(fn):
        if isinstance(n, (ast.Yield, ast.YieldFrom, ast.Await, ast.Global, ast.Nonlocal)) or (n is not fn and isinstance(n, (ast.FunctionDef, ast.AsyncFunctionDef, ast.ClassDef))):
            return False
    rets = [n for n in ast.walk(fn) if isinstance(n, ast.Return)]
    if len(rets) > 1 or (rets and rets[0] is not body[-1]):
        return False
    return True


class _Subst(ast.NodeTransformer):
    def __init__(self, mapping):
        self.mapping = mapping

    def visit_Name(self, n):
        if n.id in self.mapping:
            r = copy.deepcopy(self.mapping[n.id])
            return ast.copy_location(r, n)
        return n


def _instantiate(helper: ast.FunctionDef, call: ast.Call, is_method: bool, at: ast.stmt, caller_names: set):
    params = [a.arg for a in helper.args.args]
    if is_method:
        params = params[1:]
    defaults = helper.args.defaults
    dmap = dict(zip(params[len(params) - len(defaults):], defaults)) if defaults else {}
    actual = {}
    if len(call.args) > len(params):
        return None
    for p, a in zip(params, call.args):
        actual[p] = a
    for k in call.keywords:
        if k.arg is None or k.arg not in params or k.arg in actual:
            return None
        actual[k.arg] = k.value
    for p in params:
        if p not in actual:
            if p in dmap:
                actual[p] = dmap[p]
            else:
                return None
    if not all(_simple_arg(v) for v in actual.values()):
        return None
    # a parameter that the helper rebinds cannot be substituted by an expression
    stored = {n.id for n in ast.walk(helper) if isinstance(n, ast.Name) and isinstance(n.ctx, ast.Store)}
    if stored & set(params):
        return None
    locs = stored - set(params)
    lam_params = {a.arg for n in ast.walk(helper) if isinstance(n, ast.Lambda) for a in n.args.args}
    if lam_params & (set(params) | stored):
        return None
    mapping = dict(actual)
    for l in locs:
        # keep the helper's local names (rules know statements by them) unless the caller uses the name for something else
        if l in caller_names:
            mapping[l] = ast.Name(id=f"{l}__{helper.name.strip('_')}", ctx=ast.Load())
    body = [s for s in helper.body if not (isinstance(s, ast.Expr) and isinstance(s.value, ast.Constant))]
    out = []
    ret = None
    for s in body:
        s2 = copy.deepcopy(s)
        if isinstance(s2, ast.Return):
            ret = _Subst(mapping).visit(s2).value
            continue
        s2 = _Subst(mapping).visit(s2)
        # store-context names created by the substitution must be Store
        for n in ast.walk(s2):
            if isinstance(n, ast.Name) and n.id.endswith(f"__{helper.name.strip('_')}"):
                pass
        out.append(s2)
    for s2 in out:
        for n in ast.walk(s2):
            if hasattr(n, "lineno"):
                n.lineno = at.lineno
                n.end_lineno = getattr(at, "end_lineno", at.lineno)
                n.col_offset = at.col_offset
                n.end_col_offset = getattr(at, "end_col_offset", at.col_offset)
    return out, ret


def _fix_ctx(stmts):
    """after substitution, assignment targets that became Name(Load) must be Store"""
    for s in stmts:
        for n in ast.walk(s):
            if isinstance(n, (ast.Assign, ast.AugAssign, ast.AnnAssign, ast.For)):
                for t in (n.targets if isinstance(n, ast.Assign) else [n.target]):
                    for x in ast.walk(t):
                        if isinstance(x, ast.Name) and not isinstance(x.ctx, ast.Del):
                            if x is t or isinstance(t, (ast.Tuple, ast.List)):
                                x.ctx = ast.Store()


def inline_new_helpers(tree: ast.Module, relpath: str) -> int:
    ref = localnames.reference().get("__units__", {}).get(relpath)
    if ref is None:
        return 0
    ref = set(ref)
    done = 0

    def process(container_body, prefix, is_class):
        nonlocal done
        funcs = {s.name: s for s in container_body if isinstance(s, ast.FunctionDef)}
        new = [f for name, f in funcs.items() if (prefix + name) not in ref and name.startswith("_") and not name.startswith("__") and _inlinable(f)]
        for helper in new:
            is_method = is_class and helper.args.args and helper.args.args[0].arg in ("self", "cls")
            callee = (f"self.{helper.name}" if is_method else helper.name)
            remaining = 0
            sites_before = sum(1 for other in funcs.values() if other is not helper for n in ast.walk(other) if isinstance(n, ast.Call) and path_of(n.func) == callee)
            if sites_before == 0:
                continue  # never called from its own class/module: not an extracted helper — leave it for the rules to see
            for other in list(funcs.values()):
                if other is helper:
                    continue
                remaining += _inline_in(other, helper, callee, bool(is_method))
            if remaining == 0:
                # no un-inlined reference left anywhere in the module → drop the helper from the analysed tree
                txt_refs = sum(1 for n in ast.walk(tree) if isinstance(n, ast.Attribute) and n.attr == helper.name) + sum(1 for n in ast.walk(tree) if isinstance(n, ast.Name) and n.id == helper.name)
                if txt_refs == 0:
                    container_body.remove(helper)
                    done += 1

    def _inline_in(fn, helper, callee, is_method) -> int:
        """returns the number of call sites that could NOT be inlined"""
        left = 0

        def rewrite(body):
            nonlocal left
            i = 0
            while i < len(body):
                st = body[i]
                call = None
                form = None
                if isinstance(st, ast.Expr) and isinstance(st.value, ast.Call) and path_of(st.value.func) == callee:
                    call, form = st.value, "expr"
                elif isinstance(st, ast.Assign) and len(st.targets) == 1 and isinstance(st.value, ast.Call) and path_of(st.value.func) == callee:
                    call, form = st.value, "assign"
                elif isinstance(st, ast.Return) and isinstance(st.value, ast.Call) and path_of(st.value.func) == callee:
                    call, form = st.value, "return"
                if call is not None:
                    tgt_names = {x.id for t in (st.targets if isinstance(st, ast.Assign) else []) for x in ast.walk(t) if isinstance(x, ast.Name)}
                    caller_names = ({n.id for n in ast.walk(fn) if isinstance(n, ast.Name) and isinstance(n.ctx, ast.Store)} | {a.arg for a in fn.args.args + fn.args.kwonlyargs}) - tgt_names
                    # a caller local that is dead at the call site (never read at or after it, call not inside a loop) may share its name with a helper local
                    in_loop = any(isinstance(lp, (ast.For, ast.While)) and any(x is st for x in ast.walk(lp)) for lp in ast.walk(fn))
                    if not in_loop:
                        live = {n.id for n in ast.walk(fn) if isinstance(n, ast.Name) and isinstance(n.ctx, ast.Load) and getattr(n, "lineno", 0) >= st.lineno and not any(n is y for y in ast.walk(st))}
                        caller_names = {c for c in caller_names if c in live or c in {a.arg for a in fn.args.args + fn.args.kwonlyargs}}
                    inst = _instantiate(helper, call, is_method, st, caller_names)
                    if inst is not None:
                        new_stmts, ret = inst
                        if form == "assign":
                            if not (ret is not None and len(st.targets) == 1 and path_of(ret) is not None and path_of(ret) == path_of(st.targets[0])):
                                new_stmts.append(ast.copy_location(ast.Assign(targets=st.targets, value=ret if ret is not None else ast.Constant(None)), st))
                        elif form == "return":
                            new_stmts.append(ast.copy_location(ast.Return(value=ret), st))
                        _fix_ctx(new_stmts)
                        for s2 in new_stmts:
                            ast.fix_missing_locations(s2)
                        body[i:i + 1] = new_stmts or [ast.copy_location(ast.Pass(), st)]
                        i += len(new_stmts) or 1
                        continue
                for fld in ("body", "orelse", "finalbody"):
                    sub = getattr(st, fld, None)
                    if isinstance(sub, list) and sub and isinstance(sub[0], ast.stmt):
                        rewrite(sub)
                for h in getattr(st, "handlers", []) or []:
                    rewrite(h.body)
                i += 1
        rewrite(fn.body)
        for n in ast.walk(fn):
            if isinstance(n, ast.Call) and path_of(n.func) == callee:
                left += 1
        return left

    process(tree.body, "", False)
    for st in ast.walk(tree):
        if isinstance(st, ast.ClassDef):
            # qualified prefix of (possibly nested) classes: only top-level and one nesting level are used in this repository
            process(st.body, st.name + ".", True)
    return done


# ------------------------------------------------------------------------------------------------- temps
def inline_new_temps(prog) -> int:
    """Runs after indexing.  Returns the number of temporaries removed."""
    total = 0
    for _ in range(4):
        n = _inline_new_temps_once(prog)
        total += n
        if n == 0:
            break
    return total


def _inline_new_temps_once(prog) -> int:
    from .cfg import own_exprs
    from .effects import Effects
    from .facts import FactFlow

    ref_all = localnames.reference()
    effects = None
    removed = 0
    for rel, mod in prog.modules.items():
        ref = ref_all.get(rel)
        if ref is None:
            continue
        unit_of = {}
        for q, fnode in localnames.units(mod.tree):
            names = {w[0] for w in ref.get(q, [])}
            cur = set(localnames.locals_of(fnode))
            new = cur - names
            if new and q in ref_all.get("__units__", {}).get(rel, []):
                unit_of[id(fnode)] = new
        if not unit_of:
            continue
        for fn in mod.all_functions:
            top = fn
            while top.parent is not None:
                top = top.parent
            new = unit_of.get(id(top.node))
            if not new:
                continue
            own_stores = {}
            for n in walk_scope(fn.node, include_root=False):
                if isinstance(n, ast.Name) and isinstance(n.ctx, ast.Store) and n.id in new:
                    own_stores.setdefault(n.id, []).append(n)
            cands = {}
            for st in walk_scope(fn.node, include_root=False):
                if isinstance(st, ast.Assign) and len(st.targets) == 1 and isinstance(st.targets[0], ast.Name) and st.targets[0].id in own_stores \
                        and len(own_stores[st.targets[0].id]) == 1:
                    cands[st.targets[0].id] = st
            if not cands:
                continue
            # one temporary per function per round, innermost first (its value mentions no other candidate): the next round sees the result
            pick = None
            for k, st in cands.items():
                if not any(isinstance(x, ast.Name) and x.id in cands and x.id != k for x in ast.walk(st.value)):
                    pick = k
                    break
            if pick is None:
                continue
            cands = {pick: cands[pick]}
            if effects is None:
                effects = Effects(prog)
            try:
                ff = FactFlow(prog, fn, effects)
            except Exception:  # noqa: BLE001
                continue
            val_text = {k: unparse(st.value) for k, st in cands.items()}
            val_expr = {k: copy.deepcopy(st.value) for k, st in cands.items()}
            owner = {}
            for nd in ff.cfg.nodes:
                for e in own_exprs(nd):
                    for x in ast.walk(e):
                        if isinstance(x, ast.Name) and isinstance(x.ctx, ast.Load) and x.id in cands:
                            owner[id(x)] = nd
            replaced = {k: 0 for k in cands}
            kept = {k: 0 for k in cands}

            class T(ast.NodeTransformer):
                def visit_Name(self, n):
                    if isinstance(n.ctx, ast.Load) and n.id in cands:
                        nd = owner.get(id(n))
                        if nd is not None and ff.same_value(nd, n.id, val_text[n.id]):
                            replaced[n.id] += 1
                            return ast.copy_location(copy.deepcopy(val_expr[n.id]), n)
                        kept[n.id] += 1
                    return n
            T().visit(fn.node)
            for name, st in cands.items():
                if kept[name] == 0 and replaced[name] > 0:
                    for parent in ast.walk(fn.node):
                        for fld in ("body", "orelse", "finalbody"):
                            blk = getattr(parent, fld, None)
                            if isinstance(blk, list) and st in blk:
                                if len(blk) > 1:
                                    blk.remove(st)
                                else:
                                    blk[0] = ast.copy_location(ast.Pass(), st)
                    removed += 1
                elif replaced[name] > 0:
                    removed += 0
            ast.fix_missing_locations(fn.node)
    return removed


# ------------------------------------------------------------------------------------------------- spellings
_MIRROR = {ast.Lt: ast.Gt, ast.Gt: ast.Lt, ast.LtE: ast.GtE, ast.GtE: ast.LtE}
_NEGATE = {ast.In: ast.NotIn, ast.NotIn: ast.In, ast.Eq: ast.NotEq, ast.NotEq: ast.Eq, ast.Is: ast.IsNot, ast.IsNot: ast.Is,
           ast.Lt: ast.GtE, ast.GtE: ast.Lt, ast.Gt: ast.LtE, ast.LtE: ast.Gt}


def _txt(n) -> str:
    return ast.unparse(n).replace(" ", "")


def spelling_record(fn: ast.FunctionDef) -> dict:
    """What the reference keeps per function: the texts of its ordered comparisons, augmented assignments and if-tests."""
    cmps, augs, ifs = set(), set(), set()
    for n in ast.walk(fn):
        if isinstance(n, ast.Compare) and len(n.ops) == 1 and type(n.ops[0]) in _MIRROR:
            cmps.add(_txt(n))
        elif isinstance(n, ast.AugAssign):
            augs.add(_txt(n))
        elif isinstance(n, ast.If):
            ifs.add(_txt(n.test))
    return {"cmp": sorted(cmps), "aug": sorted(augs), "if": sorted(ifs)}


def _negated(test: ast.AST) -> ast.AST | None:
    if isinstance(test, ast.UnaryOp) and isinstance(test.op, ast.Not):
        return test.operand
    if isinstance(test, ast.Compare) and len(test.ops) == 1 and type(test.ops[0]) in _NEGATE:
        return ast.Compare(left=test.left, ops=[_NEGATE[type(test.ops[0])]()], comparators=test.comparators)
    return ast.UnaryOp(op=ast.Not(), operand=test)


def restore_spellings(tree: ast.Module, relpath: str) -> int:
    """Undo three purely notational edits where the reference tree has the other spelling of the *same* expression in the same function:
    a mirrored comparison (`b > a` for `a < b`), an expanded augmented assignment (`x = x + e` for `x += e`) and an inverted if/else
    (`if not c: B else: A` for `if c: A else: B`).  Each rewrite is an identity on the meaning of the code."""
    ref = localnames.reference().get("__spellings__", {}).get(relpath)
    if not ref:
        return 0
    n_done = 0
    for q, fn in localnames.units(tree):
        r = ref.get(q)
        if not r:
            continue
        rc, ra, ri = set(r["cmp"]), set(r["aug"]), set(r["if"])

        class T(ast.NodeTransformer):
            def visit_Compare(self, n):
                nonlocal n_done
                self.generic_visit(n)
                if len(n.ops) == 1 and type(n.ops[0]) in _MIRROR and _txt(n) not in rc:
                    m = ast.Compare(left=n.comparators[0], ops=[_MIRROR[type(n.ops[0])]()], comparators=[n.left])
                    if _txt(m) in rc:
                        n_done += 1
                        return ast.copy_location(m, n)
                return n

            def visit_Assign(self, n):
                nonlocal n_done
                self.generic_visit(n)
                if len(n.targets) == 1 and isinstance(n.value, ast.BinOp) and isinstance(n.targets[0], (ast.Name, ast.Attribute, ast.Subscript)) \
                        and ast.dump(n.value.left) == ast.dump(_as_load(n.targets[0])):
                    a = ast.AugAssign(target=n.targets[0], op=n.value.op, value=n.value.right)
                    if _txt(a) in ra and _txt(n) not in ra:
                        n_done += 1
                        return ast.copy_location(a, n)
                return n

            def visit_If(self, n):
                nonlocal n_done
                self.generic_visit(n)
                if n.orelse and _txt(n.test) not in ri:
                    neg = _negated(n.test)
                    if neg is not None and _txt(neg) in ri:
                        n_done += 1
                        return ast.copy_location(ast.If(test=neg, body=n.orelse, orelse=n.body), n)
                return n
        T().visit(fn)
        ast.fix_missing_locations(fn)
    return n_done


def _as_load(t):
    t2 = copy.deepcopy(t)
    for x in ast.walk(t2):
        if hasattr(x, "ctx"):
            x.ctx = ast.Load()
    return t2
