"""Monotonicity of a straight-line numeric computation in one input (a finite abstract domain, nothing is executed).

Value of an expression w.r.t. the chosen variable: 'c' (does not depend on it), 'inc' (non-decreasing), 'dec' (non-increasing),
'?' (unknown).  Sign knowledge about variable-independent factors comes from literals, `math.sqrt`, and a caller-supplied set of
access paths assumed positive.
"""

from __future__ import annotations

import ast

from .astutil import path_of, unparse

FLIP = {"inc": "dec", "dec": "inc", "c": "c", "?": "?"}
DECREASING_FUNCS = {"math.erfc"}
INCREASING_FUNCS = {"math.log10", "math.log", "math.log2", "math.sqrt", "math.exp", "math.erf", "float", "abs_nonneg"}


def positive(e: ast.AST, pos: set[str], env_pos: set[str]) -> bool:
    if isinstance(e, ast.Constant) and isinstance(e.value, (int, float)):
        return e.value > 0
    p = path_of(e)
    if p and (p in pos or p in env_pos):
        return True
    if isinstance(e, ast.Call) and path_of(e.func) == "math.sqrt" and e.args:
        return positive(e.args[0], pos, env_pos)
    if isinstance(e, ast.Call) and path_of(e.func) == "max" and e.args:
        return any(positive(a, pos, env_pos) for a in e.args)
    if isinstance(e, ast.BinOp) and isinstance(e.op, (ast.Mult, ast.Div)):
        return positive(e.left, pos, env_pos) and positive(e.right, pos, env_pos)
    return False


def direction(e: ast.AST, env: dict[str, str], pos: set[str], env_pos: set[str]) -> str:
    if isinstance(e, ast.Constant):
        return "c"
    p = path_of(e)
    if p is not None:
        return env.get(p, "c")
    if isinstance(e, ast.UnaryOp) and isinstance(e.op, ast.USub):
        return FLIP[direction(e.operand, env, pos, env_pos)]
    if isinstance(e, ast.BinOp):
        l, r = direction(e.left, env, pos, env_pos), direction(e.right, env, pos, env_pos)
        if isinstance(e.op, ast.Add):
            return l if r == "c" else r if l == "c" else l if l == r else "?"
        if isinstance(e.op, ast.Sub):
            r = FLIP[r]
            return l if r == "c" else r if l == "c" else l if l == r else "?"
        if isinstance(e.op, (ast.Mult, ast.Div)):
            if l == "c" and r == "c":
                return "c"
            if r == "c":
                return l if positive(e.right, pos, env_pos) else "?"
            if l == "c" and isinstance(e.op, ast.Mult):
                return r if positive(e.left, pos, env_pos) else "?"
            return "?"
        return "c" if l == r == "c" else "?"
    if isinstance(e, ast.Call):
        f = path_of(e.func)
        ds = [direction(a, env, pos, env_pos) for a in e.args]
        if all(d == "c" for d in ds) and not any(path_of(k.value) in env for k in e.keywords):
            return "c"
        if f in DECREASING_FUNCS and len(ds) == 1:
            return FLIP[ds[0]]
        if f in INCREASING_FUNCS and len(ds) == 1:
            return ds[0]
        if f in ("max", "min"):
            nz = {d for d in ds if d != "c"}
            return nz.pop() if len(nz) == 1 else "?"
        return "?"
    return "?"


def is_plus_infinity(e: ast.AST) -> bool:
    txt = unparse(e).replace(" ", "").replace('"', "'")
    return txt in ("float('inf')", "math.inf", "float('infinity')", "float('+inf')")
