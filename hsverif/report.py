"""Obligations, known findings, evidence and exit codes."""

from __future__ import annotations

import ast
import json
import os
import time
from dataclasses import asdict, dataclass, field

from . import AnalysisError, ShapeMismatch
from .astutil import norm_stmt
from .effects import Effects
from .model import FunctionInfo, Program

VERIF_DIR = os.path.dirname(os.path.dirname(os.path.abspath(__file__)))


@dataclass
class Ob:
    rule: str  # e.g. "C09-1"
    family: str  # G1..G9
    key: str  # construct key, no line numbers
    loc: str  # file:line (for humans only)
    ok: bool
    msg: str
    detail: str = ""

    @property
    def ident(self) -> str:
        return f"{self.rule}|{self.key}"


class Ctx:
    """Per-run context handed to rule packs."""

    def __init__(self, prog: Program, prop: str, tier: str):
        self.prog = prog
        self.prop = prop
        self.tier = tier
        self.effects = Effects(prog)
        self.obs: list[Ob] = []
        self.floors: list[tuple[str, int, int]] = []
        self.notes: list[str] = []
        self.stats: dict[str, int] = {}
        self._ff_cache: dict = {}

    # -- factflow cache ------------------------------------------------------------
    def flow(self, fn: FunctionInfo):
        from .facts import FactFlow

        ff = self._ff_cache.get(fn.key)
        if ff is None:
            ff = FactFlow(self.prog, fn, self.effects)
            self._ff_cache[fn.key] = ff
            self.stats["functions_flow_analysed"] = self.stats.get("functions_flow_analysed", 0) + 1
        return ff

    # -- recording -------------------------------------------------------------------
    def key(self, fn: FunctionInfo | None, construct: ast.AST | str | None = None, *, relpath: str | None = None) -> str:
        base = fn.key if fn is not None else (relpath or "?")
        if construct is None:
            return base
        txt = construct if isinstance(construct, str) else norm_stmt(construct)
        return f"{base}::{txt}"

    def ob(self, rule: str, family: str, fn: FunctionInfo | None, construct, ok: bool, msg: str, *, node: ast.AST | None = None,
           detail: str = "", relpath: str | None = None) -> Ob:
        if node is None and isinstance(construct, ast.AST):
            node = construct
        loc = fn.loc(node) if fn is not None else f"{relpath}:{getattr(node, 'lineno', 0)}"
        key = self.key(fn, construct, relpath=relpath)
        n_same = sum(1 for x in self.obs if x.rule == rule and (x.key == key or x.key.startswith(key + " #")))
        if n_same:
            key = f"{key} #{n_same + 1}"
        o = Ob(rule=rule, family=family, key=key, loc=loc, ok=bool(ok), msg=msg, detail=detail)
        self.obs.append(o)
        return o

    def floor(self, rule: str, minimum: int) -> None:
        """Require at least ``minimum`` obligations recorded for ``rule`` (anti-vacuity)."""
        n = sum(1 for o in self.obs if o.rule == rule)
        self.floors.append((rule, n, minimum))
        if n < minimum:
            if any(not o.ok and o.rule.split("-")[0] == rule.split("-")[0] for o in self.obs):
                # a violation is already being reported; the missing instances are its consequence
                self.note(f"rule {rule}: {n} instance(s) < {minimum} (a failing obligation explains the shortfall)")
                return
            raise AnalysisError(f"rule {rule}: only {n} instance(s) found, {minimum} confirmed by hand — anchor vanished?")

    def guarded(self, rule_fn) -> None:
        """Run one rule function; a construct that vanished inside an existing anchor becomes a failing obligation."""
        try:
            rule_fn(self)
        except ShapeMismatch as exc:
            msg = str(exc)
            rid = msg.split(":")[0] if msg[:1] == "C" and ":" in msg[:8] else f"{self.prop}-0"
            self.obs.append(Ob(rule=rid, family="shape", key=f"{rule_fn.__module__.split('.')[-1]}.{rule_fn.__name__}::{msg[:160]}", loc="-", ok=False,
                               msg="the construct this rule must examine is no longer present in its anchor, so the clause cannot be established: " + msg))
        except (AttributeError, IndexError, KeyError, TypeError, ValueError) as exc:
            # the rule tripped over a statement whose shape it does not know (e.g. an expected call is now a plain name).  On the reference
            # tree this never happens (every pack runs clean there); on a changed tree it means the examined construct changed shape, which is
            # reported like a vanished construct rather than as an internal error — with the Python error kept for diagnosis.
            import traceback
            tb = traceback.extract_tb(exc.__traceback__)
            where = next((f"{os.path.basename(fr.filename)}:{fr.lineno}" for fr in reversed(tb) if "/rules/" in fr.filename), "?")
            self.obs.append(Ob(rule=f"{self.prop}-0", family="shape", key=f"{rule_fn.__module__.split('.')[-1]}.{rule_fn.__name__}::unexpected shape at {where}", loc="-", ok=False,
                               msg=f"the construct this rule examines has a shape the rule does not know ({type(exc).__name__}: {exc} at {where}), so the clause cannot be established on this code"))

    def note(self, txt: str) -> None:
        self.notes.append(txt)


def load_known(prop: str) -> tuple[dict[str, dict], list[str]]:
    path = os.path.join(VERIF_DIR, "known_findings.json")
    if not os.path.exists(path):
        return {}, []
    with open(path, encoding="utf-8") as fh:
        data = json.load(fh)
    known = {}
    for e in data.get("findings", []):
        if e.get("property") == prop:
            known[f"{e['rule']}|{e['key']}"] = e
    fixed = [s for s in data.get("fixed", []) if f"property={prop} " in s]
    return known, fixed


def finish(ctx: Ctx, *, explanation: str, rule_text: str, not_decided: list[str], assumptions: list[str], t0: float,
           evidence_dir: str | None = None) -> int:
    """Write evidence, print the verdict lines, return the exit code."""
    prop = ctx.prop
    known, fixed = load_known(prop)
    failing = [o for o in ctx.obs if not o.ok]
    known_hits = [o for o in failing if o.ident in known]
    new = [o for o in failing if o.ident not in known]
    stale_known = [k for k in known if k not in {o.ident for o in failing}]

    evidence_dir = evidence_dir or os.path.join(VERIF_DIR, "evidence")
    os.makedirs(evidence_dir, exist_ok=True)
    distinct = {o.ident for o in ctx.obs}
    rules = sorted({o.rule for o in ctx.obs})
    # one sample per rule first, then fill
    samples = []
    seen_rules = set()
    for o in ctx.obs:
        if o.rule not in seen_rules:
            seen_rules.add(o.rule)
            samples.append({"rule": o.rule, "family": o.family, "construct": o.key, "at": o.loc,
                            "verdict": "ok" if o.ok else ("known-finding" if o.ident in known else "VIOLATION"), "what": o.msg})
    for o in failing[:10]:
        samples.append({"rule": o.rule, "family": o.family, "construct": o.key, "at": o.loc,
                        "verdict": "known-finding" if o.ident in known else "VIOLATION", "what": o.msg})
    per_rule = {}
    for o in ctx.obs:
        d = per_rule.setdefault(o.rule, {"instances": 0, "ok": 0, "failed": 0})
        d["instances"] += 1
        d["ok" if o.ok else "failed"] += 1
    ev = {
        "property_id": prop,
        "tier": ctx.tier,
        "seed": int(os.environ.get("VERIF_SEED", "0") or 0),
        "level": "other",
        "coverage": {
            "explanation": explanation,
            "evaluations": len(ctx.obs),
            "distinct_nontrivial": len(distinct),
            "rule": rule_text,
            "samples": samples,
            "obligations": len(ctx.obs),
            "discharged": len(ctx.obs) - len(failing),
            "known_findings": len(known_hits),
            "new_violations": len(new),
            "rules_applied": rules,
            "per_rule": per_rule,
            "instance_floors": [{"rule": r, "found": n, "minimum": m} for r, n, m in ctx.floors],
            "files_parsed": len(ctx.prog.modules),
            "functions_in_program": sum(len(m.all_functions) for m in ctx.prog.modules.values()),
            "generators_in_program": sum(1 for m in ctx.prog.modules.values() for f in m.all_functions if f.is_generator),
            "not_decided": not_decided,
            "normalisation": {k: getattr(ctx.prog, k, 0) for k in ("locals_recovered", "helpers_inlined", "tuple_assigns_split", "negations_distributed", "common_tails_sunk", "display_loops_unrolled", "fill_loops_folded", "adjacent_temps_inlined", "spellings_restored",
                                                                      "else_flattened", "temps_inlined", "increment_stores_restored")},
            "notes": ctx.notes,
            "fixed_entries": fixed,
            "known_entries_not_reproduced": stale_known,
            **ctx.stats,
        },
        "assumptions": assumptions,
        "wall_s": round(time.time() - t0, 3),
        "violations": len(new),
    }
    with open(os.path.join(evidence_dir, f"{prop}.json"), "w", encoding="utf-8") as fh:
        json.dump(ev, fh, indent=1, sort_keys=False)
        fh.write("\n")

    print(f"[{prop}] tier={ctx.tier} files={len(ctx.prog.modules)} obligations={len(ctx.obs)} "
          f"discharged={len(ctx.obs) - len(failing)} known={len(known_hits)} new={len(new)} wall={ev['wall_s']}s")
    for r in rules:
        d = per_rule[r]
        print(f"  rule {r}: {d['instances']} instance(s), {d['failed']} failing")
    for o in known_hits:
        e = known[o.ident]
        print(f"KNOWN-FINDING: property={prop} {o.rule} {o.key} — {e.get('what_fails', o.msg)}")
    for k in stale_known:
        print(f"note: known-findings entry no longer reproduced (repaired?): {k}")
    if new:
        vpath = os.path.join(evidence_dir, f"{prop}.violations.json")
        with open(vpath, "w", encoding="utf-8") as fh:
            json.dump([asdict(o) for o in new], fh, indent=1)
            fh.write("\n")
        for o in new:
            print(f"  FAIL {o.rule} [{o.family}] {o.loc} {o.key}\n       {o.msg}" + (f"\n       {o.detail}" if o.detail else ""))
        print(f"VIOLATION property={prop} replay={vpath}")
        return 1
    else:
        vpath = os.path.join(evidence_dir, f"{prop}.violations.json")
        if os.path.exists(vpath):
            os.remove(vpath)
    return 0
