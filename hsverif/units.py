"""Dimension (unit) analysis of time quantities: seconds vs nanoseconds vs Instant vs Duration.

A small abstract interpretation over expressions.  Every expression gets one of

    NS    an integer count of nanoseconds        (`x.nanoseconds`, names/attributes ending in `_ns`, `S * 1e9`)
    S     a float count of seconds               (`x.to_seconds()`, names/attributes ending in `_s`/`_seconds`/`_sec`, `NS / 1e9`)
    INST  an `Instant`                           (`self.now`, `Instant.from_seconds(..)`, `Instant(..)`, `INST ± S|DUR`)
    DUR   a `Duration`                           (`Duration.from_seconds(..)`, `INST - INST`)
    NUM   a dimensionless number                 (literals, `NS / NS`, `len(..)`)
    None  unknown

and every operator, constructor, comparison, named store, keyword argument, `yield` and `return` whose operands have two *known* and
incompatible units is a conflict.  Unknown is always silent, so the analysis can only report a site where both sides are typed by the
code's own spelling (an accessor, a constructor, or a unit suffix in a name); such a site is off by a factor of 10^9 whatever the inputs.

The library's own conventions, read from `core/temporal.py`: `Instant ± number` and `Duration ± number` take the number as SECONDS;
`Instant(..)`/`Duration(..)` take NANOSECONDS; `from_seconds` takes seconds; a generator handler's yielded number is a delay in SECONDS.
"""

from __future__ import annotations

import ast

from .astutil import path_of, unparse, walk_scope, walk_stmts

NS, S, INST, DUR, NUM = "ns", "s", "Instant", "Duration", "num"

_NS_SUFFIX = ("_ns", "_nanos", "_nanoseconds")
_S_SUFFIX = ("_s", "_seconds", "_secs", "_sec")
_BILLION = (1e9, 1_000_000_000, 1000000000.0)
_NANO = (1e-9,)
_SCALES = (1e3, 1e6, 1e-3, 1e-6, 1000, 1000000, 0.001, 0.000001)  # ms/us conversions: the result is in neither unit
_PASS_THROUGH = {"int", "float", "round", "abs", "math.ceil", "math.floor", "ceil", "floor"}


def unit_of_name(name: str) -> str | None:
    n = name.lower()
    if n in ("nanoseconds", "ns") or n.endswith(_NS_SUFFIX):
        return NS
    if n in ("seconds",) or n.endswith(_S_SUFFIX):
        return S
    return None


def _const_num(e: ast.AST):
    if isinstance(e, ast.Constant) and isinstance(e.value, (int, float)) and not isinstance(e.value, bool):
        return e.value
    if isinstance(e, ast.UnaryOp) and isinstance(e.op, ast.USub):
        v = _const_num(e.operand)
        return -v if v is not None else None
    return None


class Units:
    """Per-function unit inference with conflict collection."""

    def __init__(self, fn, *, module_consts: dict[str, ast.AST] | None = None, world: "World | None" = None):
        self.fn = fn
        self.world = world
        self.conflicts: list[tuple[ast.AST, str]] = []
        self.sites = 0  # expressions with a known unit that took part in a checked combination
        self.env: dict[str, str | None] = {}
        self._busy: set[str] = set()
        self._defs: dict[str, list[ast.AST]] = {}
        self._module_consts = module_consts or {}
        a = fn.node.args
        for p in a.posonlyargs + a.args + a.kwonlyargs:
            u = self._unit_of_annotation(p.annotation) or unit_of_name(p.arg)
            if u:
                self.env[p.arg] = u
        for st in walk_stmts(fn.node.body):
            if isinstance(st, ast.Assign) and len(st.targets) == 1 and isinstance(st.targets[0], ast.Name):
                self._defs.setdefault(st.targets[0].id, []).append(st.value)
            elif isinstance(st, ast.AnnAssign) and isinstance(st.target, ast.Name) and st.value is not None:
                self._defs.setdefault(st.target.id, []).append(st.value)
            elif isinstance(st, (ast.AugAssign,)) and isinstance(st.target, ast.Name):
                self._defs.setdefault(st.target.id, []).append(None)
            elif isinstance(st, (ast.For, ast.With, ast.AsyncFor, ast.AsyncWith)):
                for t in ast.walk(st.target if isinstance(st, (ast.For, ast.AsyncFor)) else ast.Tuple(elts=[i.optional_vars for i in st.items if i.optional_vars is not None])):
                    if isinstance(t, ast.Name):
                        self._defs.setdefault(t.id, []).append(None)
        for st in walk_stmts(fn.node.body):
            if isinstance(st, ast.Assign):
                for t in st.targets:
                    for n in ast.walk(t):
                        if isinstance(n, ast.Name) and not (len(st.targets) == 1 and n is st.targets[0]):
                            self._defs.setdefault(n.id, []).append(None)

    @staticmethod
    def _unit_of_annotation(a: ast.AST | None) -> str | None:
        if a is None:
            return None
        t = unparse(a)
        if t in ("Instant", "'Instant'", '"Instant"'):
            return INST
        if t in ("Duration", "'Duration'", '"Duration"'):
            return DUR
        return None

    event_names = ("Event", "ProcessContinuation")

    # -- inference -----------------------------------------------------------------------------------------------------------------
    def name_unit(self, name: str) -> str | None:
        if name in self.env:
            return self.env[name]
        byname = unit_of_name(name)
        if byname:
            return byname
        defs = self._defs.get(name)
        if not defs or name in self._busy:
            return None
        self._busy.add(name)
        try:
            us = {self.unit(d) if d is not None else None for d in defs}
        finally:
            self._busy.discard(name)
        return us.pop() if len(us) == 1 else None

    def unit(self, e: ast.AST | None) -> str | None:
        if e is None:
            return None
        if _const_num(e) is not None:
            return NUM
        if isinstance(e, ast.Name):
            return self.name_unit(e.id)
        if isinstance(e, ast.Attribute):
            p = path_of(e) or ""
            if e.attr == "nanoseconds":
                return NS
            if e.attr == "now" or p in ("Instant.Epoch", "Instant.Infinity"):
                return INST
            if p in ("Duration.ZERO",):
                return DUR
            if e.attr == "time" and isinstance(e.value, ast.Name) and e.value.id in ("event", "evt", "ev"):
                return INST
            byname = unit_of_name(e.attr)
            if byname is None and self.world is not None and isinstance(e.value, ast.Name) and e.value.id == "self" and self.fn.cls is not None:
                return self.world.attr_unit(self.fn.cls, e.attr)
            return byname
        if isinstance(e, ast.Call):
            f = path_of(e.func) or ""
            last = f.split(".")[-1]
            if self.world is not None and f.startswith("self.") and f.count(".") == 1 and self.fn.cls is not None and unit_of_name(last) is None:
                return self.world.return_unit(self.fn.cls, last)
            if last == "to_seconds" and not e.args:
                return S
            if f in ("Instant.from_seconds",):
                return INST
            if f in ("Duration.from_seconds",):
                return DUR
            if f == "Instant":
                return INST
            if f == "Duration":
                return DUR
            if f in _PASS_THROUGH and len(e.args) >= 1:
                return self.unit(e.args[0])
            if f in ("max", "min") and len(e.args) >= 2 and not e.keywords:
                us = [self.unit(a) for a in e.args]
                known = {u for u in us if u not in (None, NUM)}
                return known.pop() if len(known) == 1 else None
            if f == "len":
                return NUM
            return unit_of_name(last) if last not in ("from_seconds",) else None
        if isinstance(e, ast.IfExp):
            a, b = self.unit(e.body), self.unit(e.orelse)
            if a == b:
                return a
            if a in (None, NUM):
                return b if a == NUM else None
            if b in (None, NUM):
                return a if b == NUM else None
            return None
        if isinstance(e, ast.UnaryOp) and isinstance(e.op, (ast.USub, ast.UAdd)):
            return self.unit(e.operand)
        if isinstance(e, ast.BinOp):
            return self._binop(e, record=False)
        if isinstance(e, ast.NamedExpr):
            return self.unit(e.value)
        return None

    def unit_num(self, e: ast.AST | None) -> str | None:
        """Unit of an expression known to evaluate to a plain NUMBER (the argument of from_seconds / a constructor, a yielded delay):
        a sum or difference is homogeneous, so one typed operand types the whole."""
        u = self.unit(e)
        if u is not None:
            return u
        if isinstance(e, ast.BinOp) and isinstance(e.op, (ast.Add, ast.Sub)):
            l, r = self.unit_num(e.left), self.unit_num(e.right)
            if l in (NS, S) and r in (None, NUM):
                return l
            if r in (NS, S) and l in (None, NUM):
                return r
        if isinstance(e, ast.Call) and (path_of(e.func) or "") in _PASS_THROUGH and e.args:
            return self.unit_num(e.args[0])
        if isinstance(e, ast.Call) and (path_of(e.func) or "") in ("max", "min") and len(e.args) >= 2:
            known = {self.unit_num(a) for a in e.args} & {NS, S}
            return known.pop() if len(known) == 1 else None
        return None

    def _binop(self, e: ast.BinOp, *, record: bool) -> str | None:
        l, r = self.unit(e.left), self.unit(e.right)
        lc, rc = _const_num(e.left), _const_num(e.right)

        def bad(msg):
            if record:
                self.conflicts.append((e, msg))
            return None

        if record and l not in (None, NUM) and r not in (None, NUM):
            self.sites += 1
        if isinstance(e.op, (ast.Add, ast.Sub)):
            if l is None or r is None:
                return None
            if l == NUM:
                return r if r in (NS, S, NUM) else (r if isinstance(e.op, ast.Add) else None)
            if r == NUM:
                return l
            pair = (l, r)
            if pair in ((NS, NS), (S, S)):
                return l
            if pair in ((NS, S), (S, NS)):
                return bad(f"`{unparse(e)}` adds/subtracts nanoseconds and seconds")
            if l == INST:
                if r == NS:
                    return bad(f"`{unparse(e)}`: Instant ± number takes the number as SECONDS, `{unparse(e.right)}` is nanoseconds")
                if r in (S, DUR):
                    return INST
                if r == INST:
                    return DUR if isinstance(e.op, ast.Sub) else bad(f"`{unparse(e)}` adds two Instants")
            if l == DUR:
                if r == NS:
                    return bad(f"`{unparse(e)}`: Duration ± number takes the number as SECONDS, `{unparse(e.right)}` is nanoseconds")
                if r in (S, DUR):
                    return DUR
                if r == INST:
                    return INST if isinstance(e.op, ast.Add) else bad(f"`{unparse(e)}` subtracts an Instant from a Duration")
            if r in (INST, DUR) and l == NS:
                return bad(f"`{unparse(e)}`: number ± {r} takes the number as SECONDS, `{unparse(e.left)}` is nanoseconds")
            if r == INST and l == S:
                return INST if isinstance(e.op, ast.Add) else None
            if r == DUR and l == S:
                return DUR
            return None
        if isinstance(e.op, ast.Mult):
            for (u, c, other) in ((l, rc, r), (r, lc, l)):
                if c is not None:
                    if u == S and c in _BILLION:
                        return NS
                    if u == NS and c in _NANO:
                        return S
                    if u == NS and c in _BILLION:
                        return bad(f"`{unparse(e)}` scales nanoseconds up by 10^9 again")
                    if u == S and c in _NANO:
                        return bad(f"`{unparse(e)}` scales seconds down by 10^-9 again")
                    if c in _SCALES:
                        return None
                    return u if u in (NS, S, DUR, NUM) else None
            if l == NUM:
                return r if r in (NS, S, DUR) else None
            if r == NUM:
                return l if l in (NS, S, DUR) else None
            return None
        if isinstance(e.op, (ast.Div, ast.FloorDiv)):
            if rc is not None:
                if l == NS and rc in _BILLION:
                    return S
                if l == S and rc in _NANO:
                    return NS
                if l == S and rc in _BILLION:
                    return bad(f"`{unparse(e)}` divides seconds by 10^9 again")
                if rc in _SCALES or rc in _BILLION or rc in _NANO:
                    return None
                return l if l in (NS, S, DUR, NUM) else None
            if l in (NS, S) and r in (NS, S):
                if l != r:
                    return bad(f"`{unparse(e)}` divides {l} by {r}")
                return NUM
            if r == NUM:
                return l if l in (NS, S, DUR) else None
            return None
        if isinstance(e.op, ast.Mod):
            if l in (NS, S) and r in (NS, S):
                if l != r:
                    return bad(f"`{unparse(e)}` takes {l} modulo {r}")
                return l
            return None
        return None

    # -- checking ------------------------------------------------------------------------------------------------------------------
    def _mismatch(self, want: str, got: str | None) -> bool:
        if got in (None, NUM):
            return False
        return got != want

    def check(self) -> "Units":
        fn = self.fn
        is_gen = any(isinstance(n, (ast.Yield, ast.YieldFrom)) for n in walk_scope(fn.node, include_root=False))
        for n in walk_scope(fn.node, include_root=False):
            if isinstance(n, ast.BinOp):
                self._binop(n, record=True)
            elif isinstance(n, ast.Compare):
                items = [n.left] + list(n.comparators)
                for a, op, b in zip(items, n.ops, items[1:]):
                    if isinstance(op, (ast.In, ast.NotIn, ast.Is, ast.IsNot)):
                        continue
                    ua, ub = self.unit(a), self.unit(b)
                    if ua in (None, NUM) or ub in (None, NUM):
                        continue
                    self.sites += 1
                    if ua != ub:
                        self.conflicts.append((n, f"`{unparse(n)}` compares {ua} with {ub}"))
            elif isinstance(n, ast.Call):
                f = path_of(n.func) or ""
                if f in ("Instant.from_seconds", "Duration.from_seconds") and n.args:
                    u = self.unit_num(n.args[0])
                    if u not in (None, NUM):
                        self.sites += 1
                    if u in (NS, INST, DUR):
                        self.conflicts.append((n, f"`{unparse(n)}`: from_seconds() is given {u}"))
                elif f in ("Instant", "Duration") and n.args:
                    u = self.unit_num(n.args[0])
                    if u not in (None, NUM):
                        self.sites += 1
                    if u in (S, INST, DUR):
                        self.conflicts.append((n, f"`{unparse(n)}`: the {f} constructor takes nanoseconds and is given {u}"))
                elif f in ("max", "min") and len(n.args) >= 2:
                    known = {}
                    for a in n.args:
                        u = self.unit(a)
                        if u not in (None, NUM):
                            known.setdefault(u, a)
                    if known:
                        self.sites += 1
                    if len(known) > 1:
                        self.conflicts.append((n, f"`{unparse(n)}` takes the {f} of " + " and ".join(sorted(known))))
                if self.world is not None and f.startswith("self.") and f.count(".") == 1 and self.fn.cls is not None:
                    callee = self.world.prog.lookup_method(self.fn.cls, f.split(".")[1])
                    if callee is not None and not any(isinstance(a, ast.Starred) for a in n.args):
                        ps = [p for p in callee.node.args.posonlyargs + callee.node.args.args][1:]
                        for p_, a in zip(ps, n.args):
                            want = self._unit_of_annotation(p_.annotation) or unit_of_name(p_.arg)
                            if want is None:
                                continue
                            u = self.unit(a)
                            if u not in (None, NUM):
                                self.sites += 1
                            if self._mismatch(want, u):
                                self.conflicts.append((n, f"`{unparse(n)[:100]}`: parameter `{p_.arg}` ({want}) of {callee.qual} is given {u}: `{unparse(a)}`"))
                if f.split(".")[-1] in self.event_names:
                    for k in n.keywords:
                        if k.arg == "time":
                            u = self.unit(k.value)
                            if u not in (None, NUM):
                                self.sites += 1
                            if u in (NS, S, DUR):
                                self.conflicts.append((n, f"`{f}(time={unparse(k.value)})`: an event's time is an Instant, this is {u}"))
                for k in n.keywords:
                    if k.arg is None:
                        continue
                    want = unit_of_name(k.arg)
                    if want is None:
                        continue
                    u = self.unit(k.value)
                    if u not in (None, NUM):
                        self.sites += 1
                    if self._mismatch(want, u):
                        self.conflicts.append((n, f"keyword `{k.arg}=` ({want}) is given {u}: `{unparse(k.value)}`"))
            elif isinstance(n, (ast.Assign, ast.AnnAssign, ast.AugAssign)):
                tgts = n.targets if isinstance(n, ast.Assign) else [n.target]
                val = n.value
                if val is None:
                    continue
                for t in tgts:
                    nm = t.id if isinstance(t, ast.Name) else (t.attr if isinstance(t, ast.Attribute) else None)
                    want = unit_of_name(nm) if nm else None
                    if want is None:
                        continue
                    u = self.unit(val)
                    if u not in (None, NUM):
                        self.sites += 1
                    if isinstance(n, ast.AugAssign) and not isinstance(n.op, (ast.Add, ast.Sub)):
                        continue
                    if self._mismatch(want, u):
                        self.conflicts.append((n, f"`{unparse(t)}` ({want}) is assigned {u}: `{unparse(val)}`"))
            elif isinstance(n, ast.Yield) and n.value is not None and is_gen:
                v = n.value.elts[0] if isinstance(n.value, ast.Tuple) and n.value.elts else n.value
                u = self.unit_num(v)
                if u not in (None, NUM):
                    self.sites += 1
                if u == NS:
                    self.conflicts.append((n, f"`yield {unparse(v)}`: a yielded number is a delay in SECONDS, this one is nanoseconds"))
            elif isinstance(n, ast.Return) and n.value is not None:
                want = unit_of_name(fn.name)
                if want is None:
                    continue
                u = self.unit(n.value)
                if u not in (None, NUM):
                    self.sites += 1
                if self._mismatch(want, u) and u in (NS, S):
                    self.conflicts.append((n, f"{fn.qual} (named as {want}) returns {u}: `{unparse(n.value)}`"))
        return self


class World:
    """Program-wide memo: the unit of a `self.<attr>` (all stores in the class and its bases agree) and of a method's result."""

    def __init__(self, prog):
        self.prog = prog
        self._attr: dict = {}
        self._ret: dict = {}
        self._units: dict = {}

    def units(self, fn) -> "Units":
        u = self._units.get(fn.key)
        if u is None:
            u = self._units[fn.key] = Units(fn, world=self)
        return u

    def attr_unit(self, ci, attr: str) -> str | None:
        k = (ci.key, attr)
        if k in self._attr:
            return self._attr[k]
        self._attr[k] = None  # recursion guard
        seen: set = set()
        for c in self.prog.mro(ci):
            for m in c.methods.values():
                for st in walk_stmts(m.node.body):
                    if isinstance(st, (ast.Assign, ast.AnnAssign, ast.AugAssign)):
                        tgts = st.targets if isinstance(st, ast.Assign) else [st.target]
                        for t in tgts:
                            if isinstance(t, ast.Tuple):
                                if any(path_of(x) == f"self.{attr}" for x in t.elts):
                                    seen.add(None)
                            elif path_of(t) == f"self.{attr}" and st.value is not None:
                                if isinstance(st, ast.AugAssign):
                                    continue
                                u = self.units(m).unit(st.value)
                                if isinstance(st.value, ast.Constant) and st.value.value is None:
                                    continue
                                seen.add(u if u != NUM else "const")
            pm = c.methods.get(attr)
            if pm is not None and any(unparse(d) in ("property", "cached_property", "functools.cached_property") for d in pm.node.decorator_list):
                seen.add(self.return_unit(c, attr))
                break
        seen.discard("const")
        res = seen.pop() if len(seen) == 1 else None
        self._attr[k] = res
        return res

    def return_unit(self, ci, name: str) -> str | None:
        m = self.prog.lookup_method(ci, name)
        if m is None:
            return None
        if m.key in self._ret:
            return self._ret[m.key]
        self._ret[m.key] = None
        if any(isinstance(n, (ast.Yield, ast.YieldFrom)) for n in walk_scope(m.node, include_root=False)):
            return None
        ann = Units._unit_of_annotation(m.node.returns)
        if ann:
            self._ret[m.key] = ann
            return ann
        us = set()
        for n in walk_scope(m.node, include_root=False):
            if isinstance(n, ast.Return):
                if n.value is None or (isinstance(n.value, ast.Constant) and n.value.value is None):
                    continue
                u = self.units(m).unit(n.value)
                us.add(u)
        res = us.pop() if len(us) == 1 else None
        if res == NUM:
            res = None
        self._ret[m.key] = res
        return res


def beliefs(world: "World", fn) -> list[tuple[str, str, ast.AST]]:
    """(path, believed unit, site) for every use of an otherwise untyped plain name / `self.<attr>` in a position that fixes its unit:
    the argument of from_seconds (seconds) or of the Instant/Duration constructor (nanoseconds), the other operand of +, -, comparison,
    min/max with a typed number, or a yielded delay (seconds).  Two beliefs about one variable that disagree are a contradiction —
    one of the two sites is off by 10^9 (Engler et al.'s internal-consistency rule; no statistics involved)."""
    u = world.units(fn)
    out = []

    def untyped(e):
        p_ = path_of(e)
        if p_ is None or u.unit(e) is not None:
            return None
        if isinstance(e, ast.Name) or (isinstance(e, ast.Attribute) and isinstance(e.value, ast.Name) and e.value.id == "self"):
            return p_
        return None

    def strip(e):
        while isinstance(e, ast.Call) and (path_of(e.func) or "") in ("int", "float", "round", "abs") and e.args:
            e = e.args[0]
        return e

    for n in walk_scope(fn.node, include_root=False):
        if isinstance(n, ast.Call):
            f = path_of(n.func) or ""
            if f in ("Instant.from_seconds", "Duration.from_seconds") and n.args:
                p_ = untyped(strip(n.args[0]))
                if p_:
                    out.append((p_, S, n))
            elif f in ("Instant", "Duration") and n.args:
                p_ = untyped(strip(n.args[0]))
                if p_:
                    out.append((p_, NS, n))
            elif f in ("max", "min") and len(n.args) >= 2:
                typed = {u.unit(a) for a in n.args} & {NS, S}
                if len(typed) == 1:
                    for a in n.args:
                        p_ = untyped(strip(a))
                        if p_:
                            out.append((p_, next(iter(typed)), n))
        elif isinstance(n, ast.BinOp) and isinstance(n.op, (ast.Add, ast.Sub)):
            for a, b in ((n.left, n.right), (n.right, n.left)):
                ub = u.unit(b)
                p_ = untyped(strip(a))
                if p_ and ub in (NS, S):
                    out.append((p_, ub, n))
        elif isinstance(n, ast.Compare) and len(n.ops) == 1 and not isinstance(n.ops[0], (ast.In, ast.NotIn, ast.Is, ast.IsNot)):
            for a, b in ((n.left, n.comparators[0]), (n.comparators[0], n.left)):
                ub = u.unit(b)
                p_ = untyped(strip(a))
                if p_ and ub in (NS, S):
                    out.append((p_, ub, n))
    return out


def analyse(prog, prefixes: tuple[str, ...] | str = "happysimulator/"):
    """(functions analysed, typed sites, [(fn, node, message)]) for every function under ``prefixes``."""
    n_fn = n_sites = 0
    out = []
    world = World(prog)
    by_var: dict = {}
    for fn in prog.all_functions("happysimulator/"):
        if not fn.module.relpath.startswith(prefixes):
            continue
        u = Units(fn, world=world).check()
        n_fn += 1
        n_sites += u.sites
        for node, msg in u.conflicts:
            out.append((fn, node, msg))
        bl = beliefs(world, fn)
        n_sites += len(bl)
        for p_, un, node in bl:
            key = (fn.cls.key if (p_.startswith("self.") and fn.cls is not None) else fn.key, p_)
            by_var.setdefault(key, []).append((un, fn, node))
    for (owner, p_), uses in sorted(by_var.items()):
        kinds = {x[0] for x in uses}
        if len(kinds) > 1:
            n_s = sum(1 for x in uses if x[0] == S)
            minority = NS if n_s >= len(uses) - n_s else S
            for un, fn, node in uses:
                if un == minority:
                    other = next(x for x in uses if x[0] != minority)
                    out.append((fn, node, f"`{p_}` is used as {un} in `{unparse(node)[:90]}` but as {other[0]} in `{unparse(other[2])[:90]}` ({other[1].loc(other[2])}): one of the two is off by 10^9"))
    return n_fn, n_sites, out
