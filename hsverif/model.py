"""E1 — program model: modules, classes, MRO, attribute kinds, callee resolution.

Built from source text only.  ``Program.load(root)`` parses every ``*.py`` under
``<root>/happysimulator``.
"""

from __future__ import annotations

import ast
import os
from dataclasses import dataclass, field

from . import AnalysisError, localnames, normalize
from .astutil import contains_yield, path_of, walk_scope, walk_stmts

PKG = "happysimulator"


@dataclass
class FunctionInfo:
    name: str
    qual: str  # "Class.method" / "func" / "Class.method.<locals>.inner"
    module: "Module"
    cls: "ClassInfo | None"
    node: ast.FunctionDef
    parent: "FunctionInfo | None" = None

    @property
    def key(self) -> str:
        return f"{self.module.relpath}::{self.qual}"

    @property
    def is_generator(self) -> bool:
        return contains_yield(self.node)

    @property
    def lineno(self) -> int:
        return self.node.lineno

    def loc(self, node: ast.AST | None = None) -> str:
        ln = getattr(node, "lineno", None) if node is not None else self.node.lineno
        return f"{self.module.relpath}:{ln}"

    def params(self) -> list[str]:
        a = self.node.args
        return [x.arg for x in a.posonlyargs + a.args + a.kwonlyargs] + ([a.vararg.arg] if a.vararg else []) + (
            [a.kwarg.arg] if a.kwarg else []
        )

    def __hash__(self) -> int:
        return hash(self.key)

    def __eq__(self, other) -> bool:
        return isinstance(other, FunctionInfo) and other.key == self.key

    def __repr__(self) -> str:
        return f"<fn {self.key}>"


@dataclass
class AttrInfo:
    name: str
    kind: str  # scalar | list | deque | dict | set | object | unknown
    cls_name: str | None = None  # constructor / annotation class name when kind == object
    node: ast.AST | None = None


@dataclass
class ClassInfo:
    name: str
    module: "Module"
    node: ast.ClassDef
    base_names: list[str] = field(default_factory=list)
    methods: dict[str, FunctionInfo] = field(default_factory=dict)
    attrs: dict[str, AttrInfo] = field(default_factory=dict)
    class_attrs: dict[str, ast.AST] = field(default_factory=dict)

    @property
    def key(self) -> str:
        return f"{self.module.relpath}::{self.name}"

    def __hash__(self) -> int:
        return hash(self.key)

    def __eq__(self, other) -> bool:
        return isinstance(other, ClassInfo) and other.key == self.key

    def __repr__(self) -> str:
        return f"<class {self.key}>"


@dataclass
class Module:
    name: str  # dotted
    relpath: str  # relative to root, posix
    path: str
    tree: ast.Module
    src: str
    imports: dict[str, tuple[str, str | None]] = field(default_factory=dict)
    classes: dict[str, ClassInfo] = field(default_factory=dict)
    functions: dict[str, FunctionInfo] = field(default_factory=dict)
    all_functions: list[FunctionInfo] = field(default_factory=list)

    def __hash__(self) -> int:
        return hash(self.relpath)


_CONTAINER_CTORS = {
    "list": "list",
    "dict": "dict",
    "set": "set",
    "frozenset": "set",
    "deque": "deque",
    "defaultdict": "dict",
    "OrderedDict": "dict",
    "Counter": "dict",
}


def _kind_of_value(v: ast.AST | None) -> tuple[str, str | None]:
    if v is None:
        return "unknown", None
    if isinstance(v, (ast.List, ast.ListComp)):
        return "list", None
    if isinstance(v, (ast.Dict, ast.DictComp)):
        return "dict", None
    if isinstance(v, (ast.Set, ast.SetComp)):
        return "set", None
    if isinstance(v, ast.Constant):
        return "scalar", None
    if isinstance(v, ast.Call):
        p = path_of(v.func)
        if p is not None:
            last = p.split(".")[-1]
            if last in _CONTAINER_CTORS:
                return _CONTAINER_CTORS[last], None
            if last[:1].isupper():
                return "object", last
    if isinstance(v, ast.IfExp):
        k1 = _kind_of_value(v.body)
        k2 = _kind_of_value(v.orelse)
        for k in (k1, k2):
            if k[0] not in ("unknown", "scalar"):
                return k
    if isinstance(v, ast.BoolOp):
        for x in v.values:
            k = _kind_of_value(x)
            if k[0] not in ("unknown", "scalar"):
                return k
    return "unknown", None


def _kind_of_annotation(a: ast.AST | None) -> tuple[str, str | None]:
    if a is None:
        return "unknown", None
    if isinstance(a, ast.Constant) and isinstance(a.value, str):
        try:
            a = ast.parse(a.value, mode="eval").body
        except SyntaxError:
            return "unknown", None
    if isinstance(a, ast.BinOp) and isinstance(a.op, ast.BitOr):
        for side in (a.left, a.right):
            k = _kind_of_annotation(side)
            if k[0] != "unknown" and not (k[0] == "scalar"):
                return k
        return "unknown", None
    base = a.value if isinstance(a, ast.Subscript) else a
    p = path_of(base)
    if p is None:
        return "unknown", None
    last = p.split(".")[-1]
    low = last.lower()
    if low in ("list", "sequence"):
        return "list", None
    if low in ("dict", "defaultdict", "ordereddict", "mapping", "counter"):
        return "dict", None
    if low in ("set", "frozenset"):
        return "set", None
    if low == "deque":
        return "deque", None
    if last in ("int", "float", "bool", "str", "bytes", "None"):
        return "scalar", None
    if last in ("Optional",) and isinstance(a, ast.Subscript):
        return _kind_of_annotation(a.slice)
    if last[:1].isupper():
        return "object", last
    return "unknown", None


class Program:
    def __init__(self, root: str):
        self.root = os.path.abspath(root)
        self.modules: dict[str, Module] = {}  # by relpath
        self.by_name: dict[str, Module] = {}  # by dotted name
        self.classes_by_name: dict[str, list[ClassInfo]] = {}
        self._mro_cache: dict[str, list[ClassInfo]] = {}
        self._subs_cache: dict[str, list[ClassInfo]] | None = None
        self.parse_failures: list[str] = []
        self.else_flattened = 0    # redundant `else` after a non-falling-through branch removed (canonical form, see normalize.flatten_else)
        self.tuple_assigns_split = 0   # canonical form: `a, b = x, y` -> `a = x` / `b = y` (normalize.canonical_forms)
        self.display_loops_unrolled = 0  # `for X in (A, B): BODY` with a new local X unrolled (normalize.unroll_new_display_loops)
        self.common_tails_sunk = 0  # canonical form: a statement ending every branch of an if/else chain written once after it (normalize.canonical_forms)
        self.negations_distributed = 0  # canonical form: `not (a and b)` -> `not a or not b` (normalize.canonical_forms)
        self.fill_loops_folded = 0   # `A = []; for v in IT: [if C:] A.append(E)` with new locals A, v folded back to a comprehension (normalize.fold_new_fill_loops)
        self.adjacent_temps_inlined = 0  # `T = E; <stmt reading T first and only>` pairs with a new local T folded back (normalize.inline_adjacent_temps)
        self.locals_recovered = 0  # locals renamed back to their reference names (see localnames.py)
        self.helpers_inlined = 0   # private helpers absent from the reference tree inlined at their call sites (see normalize.py)
        self.spellings_restored = 0  # mirrored comparisons / expanded aug-assigns / inverted ifs put back into the reference spelling
        self.temps_inlined = 0     # temporaries absent from the reference tree replaced by the expression they alias

    # ------------------------------------------------------------------ loading
    @classmethod
    def load(cls, root: str) -> "Program":
        prog = cls(root)
        pkg_dir = os.path.join(prog.root, PKG)
        if not os.path.isdir(pkg_dir):
            raise AnalysisError(f"package directory not found: {pkg_dir}")
        for dirpath, dirnames, filenames in os.walk(pkg_dir):
            dirnames[:] = sorted(d for d in dirnames if d != "__pycache__")
            for fn in sorted(filenames):
                if not fn.endswith(".py"):
                    continue
                path = os.path.join(dirpath, fn)
                rel = os.path.relpath(path, prog.root).replace(os.sep, "/")
                try:
                    with open(path, encoding="utf-8") as fh:
                        src = fh.read()
                    tree = ast.parse(src, filename=path)
                    sp_, di_ = normalize.canonical_forms(tree)
                    prog.tuple_assigns_split += sp_
                    prog.negations_distributed += di_
                    prog.display_loops_unrolled += normalize.unroll_new_display_loops(tree, rel)
                    prog.locals_recovered += localnames.recover(tree, rel)
                    prog.helpers_inlined += normalize.inline_new_helpers(tree, rel)
                    prog.helpers_inlined += normalize.inline_new_predicates(tree, rel)
                    prog.adjacent_temps_inlined += normalize.inline_adjacent_temps(tree, rel)
                    prog.fill_loops_folded += normalize.fold_new_fill_loops(tree, rel)
                    prog.adjacent_temps_inlined += normalize.inline_adjacent_temps(tree, rel)
                    prog.spellings_restored += normalize.restore_spellings(tree, rel)
                    prog.common_tails_sunk += normalize.sink_common_tails(tree)
                    prog.else_flattened += normalize.flatten_else(tree)
                except (SyntaxError, UnicodeDecodeError, OSError) as exc:
                    prog.parse_failures.append(f"{rel}: {exc}")
                    continue
                dotted = rel[:-3].replace("/", ".")
                if dotted.endswith(".__init__"):
                    dotted = dotted[: -len(".__init__")]
                mod = Module(name=dotted, relpath=rel, path=path, tree=tree, src=src)
                prog.modules[rel] = mod
                prog.by_name[dotted] = mod
        for mod in prog.modules.values():
            prog._index_module(mod)
        prog.temps_inlined = normalize.inline_new_temps(prog)
        return prog

    def _index_module(self, mod: Module) -> None:
        is_pkg = mod.relpath.endswith("__init__.py")
        pkg_parts = mod.name.split(".") if is_pkg else mod.name.split(".")[:-1]
        for st in ast.walk(mod.tree):
            if isinstance(st, ast.Import):
                for al in st.names:
                    mod.imports.setdefault(al.asname or al.name.split(".")[0], (al.name, None))
            elif isinstance(st, ast.ImportFrom):
                if st.level:
                    base = pkg_parts[: len(pkg_parts) - (st.level - 1)]
                    src_mod = ".".join(base + ([st.module] if st.module else []))
                else:
                    src_mod = st.module or ""
                for al in st.names:
                    mod.imports.setdefault(al.asname or al.name, (src_mod, al.name))

        def add_func(node: ast.FunctionDef, qual: str, cls: ClassInfo | None, parent: FunctionInfo | None) -> FunctionInfo:
            fi = FunctionInfo(name=node.name, qual=qual, module=mod, cls=cls, node=node, parent=parent)
            mod.all_functions.append(fi)
            for sub in walk_stmts(node.body):
                if isinstance(sub, (ast.FunctionDef, ast.AsyncFunctionDef)) and sub is not node:
                    # only direct nested (walk_stmts does not enter nested scopes)
                    add_func(sub, f"{qual}.<locals>.{sub.name}", cls, fi)
            return fi

        for st in mod.tree.body:
            self._index_toplevel(mod, st, add_func)
        # top-level definitions inside `if TYPE_CHECKING` / try blocks
        for st in mod.tree.body:
            if isinstance(st, (ast.If, ast.Try)):
                for sub in walk_stmts([st]):
                    if sub is not st:
                        self._index_toplevel(mod, sub, add_func)

    def _index_toplevel(self, mod: Module, st: ast.stmt, add_func) -> None:
        if isinstance(st, (ast.FunctionDef, ast.AsyncFunctionDef)):
            if st.name not in mod.functions:
                mod.functions[st.name] = add_func(st, st.name, None, None)
        elif isinstance(st, ast.ClassDef):
            if st.name in mod.classes:
                return
            ci = ClassInfo(name=st.name, module=mod, node=st)
            for b in st.bases:
                base = b.value if isinstance(b, ast.Subscript) else b
                p = path_of(base)
                if p:
                    ci.base_names.append(p)
            mod.classes[st.name] = ci
            self.classes_by_name.setdefault(st.name, []).append(ci)
            for sub in st.body:
                if isinstance(sub, (ast.FunctionDef, ast.AsyncFunctionDef)):
                    # keep the last definition unless it is a property setter overload
                    fi = add_func(sub, f"{st.name}.{sub.name}", ci, None)
                    is_setter = any(isinstance(d, ast.Attribute) and d.attr in ("setter", "deleter") for d in sub.decorator_list)
                    if is_setter:
                        ci.methods.setdefault(f"{sub.name}.setter", fi)
                    else:
                        ci.methods[sub.name] = fi
                elif isinstance(sub, ast.AnnAssign) and isinstance(sub.target, ast.Name):
                    kind, cn = _kind_of_annotation(sub.annotation)
                    if kind == "unknown" and sub.value is not None:
                        kind, cn = _kind_of_value(sub.value)
                    # dataclass field(default_factory=list)
                    if isinstance(sub.value, ast.Call) and path_of(sub.value.func) in ("field", "dataclasses.field"):
                        for kw in sub.value.keywords:
                            if kw.arg == "default_factory":
                                p = path_of(kw.value)
                                if p and p.split(".")[-1] in _CONTAINER_CTORS:
                                    kind, cn = _CONTAINER_CTORS[p.split(".")[-1]], None
                    ci.attrs[sub.target.id] = AttrInfo(sub.target.id, kind, cn, sub)
                    if sub.value is not None:
                        ci.class_attrs[sub.target.id] = sub.value
                elif isinstance(sub, ast.Assign):
                    for t in sub.targets:
                        if isinstance(t, ast.Name):
                            ci.class_attrs[t.id] = sub.value
            self._collect_self_attrs(ci)

    def _collect_self_attrs(self, ci: ClassInfo) -> None:
        for mname, fi in ci.methods.items():
            params = {}
            for a in fi.node.args.args + fi.node.args.kwonlyargs:
                params[a.arg] = a.annotation
            for n in walk_scope(fi.node):
                tgt = val = ann = None
                if isinstance(n, ast.Assign) and len(n.targets) == 1:
                    tgt, val = n.targets[0], n.value
                elif isinstance(n, ast.AnnAssign):
                    tgt, val, ann = n.target, n.value, n.annotation
                else:
                    continue
                if not (isinstance(tgt, ast.Attribute) and isinstance(tgt.value, ast.Name) and tgt.value.id == "self"):
                    continue
                kind, cn = _kind_of_annotation(ann) if ann is not None else ("unknown", None)
                if kind == "unknown":
                    kind, cn = _kind_of_value(val)
                if kind == "unknown" and isinstance(val, ast.Name) and val.id in params:
                    kind, cn = _kind_of_annotation(params[val.id])
                prev = ci.attrs.get(tgt.attr)
                in_ctor = mname in ("__init__", "__post_init__")
                if prev is None or (prev.kind in ("unknown", "scalar") and kind not in ("unknown",)) and in_ctor:
                    ci.attrs[tgt.attr] = AttrInfo(tgt.attr, kind, cn, n)

    # ------------------------------------------------------------------ lookups
    def module(self, relpath: str) -> Module:
        m = self.modules.get(relpath)
        if m is None:
            raise AnalysisError(f"anchor module missing: {relpath}")
        return m

    def cls(self, relpath: str, name: str) -> ClassInfo:
        c = self.module(relpath).classes.get(name)
        if c is None:
            raise AnalysisError(f"anchor class missing: {relpath}::{name}")
        return c

    def func(self, relpath: str, qual: str) -> FunctionInfo:
        mod = self.module(relpath)
        if "<locals>" in qual:
            for fi in mod.all_functions:
                if fi.qual == qual:
                    return fi
            raise AnalysisError(f"anchor function missing: {relpath}::{qual}")
        if "." in qual:
            cname, mname = qual.split(".", 1)
            c = mod.classes.get(cname)
            if c is None:
                raise AnalysisError(f"anchor class missing: {relpath}::{cname}")
            f = c.methods.get(mname)
            if f is None:
                for fi in mod.all_functions:
                    if fi.qual == qual:
                        return fi
                raise AnalysisError(f"anchor function missing: {relpath}::{qual}")
            return f
        f = mod.functions.get(qual)
        if f is None:
            raise AnalysisError(f"anchor function missing: {relpath}::{qual}")
        return f

    def try_func(self, relpath: str, qual: str) -> FunctionInfo | None:
        try:
            return self.func(relpath, qual)
        except AnalysisError:
            return None

    def all_functions(self, prefix: str = "") -> list[FunctionInfo]:
        out = []
        for rel, mod in self.modules.items():
            if rel.startswith(prefix):
                out.extend(mod.all_functions)
        return out

    def all_classes(self, prefix: str = "") -> list[ClassInfo]:
        out = []
        for rel, mod in self.modules.items():
            if rel.startswith(prefix):
                out.extend(mod.classes.values())
        return out

    # ------------------------------------------------------------------ hierarchy
    def resolve_class_name(self, mod: Module, name: str) -> ClassInfo | None:
        last = name.split(".")[-1]
        if "." not in name and name in mod.classes:
            return mod.classes[name]
        head = name.split(".")[0]
        imp = mod.imports.get(head)
        seen = set()
        while imp is not None:
            src_mod, attr = imp
            if (src_mod, attr) in seen:
                break
            seen.add((src_mod, attr))
            target = self.by_name.get(src_mod)
            if target is None:
                # `from pkg import sub` where sub is module
                break
            want = attr if "." not in name else last
            if want is None:
                break
            if want in target.classes:
                return target.classes[want]
            imp = target.imports.get(want)
        cands = self.classes_by_name.get(last, [])
        if len(cands) == 1:
            return cands[0]
        return None

    def bases(self, ci: ClassInfo) -> list[ClassInfo]:
        out = []
        for b in ci.base_names:
            r = self.resolve_class_name(ci.module, b)
            if r is not None and r is not ci:
                out.append(r)
        return out

    def mro(self, ci: ClassInfo) -> list[ClassInfo]:
        cached = self._mro_cache.get(ci.key)
        if cached is not None:
            return cached
        out: list[ClassInfo] = [ci]
        self._mro_cache[ci.key] = out  # recursion guard
        for b in self.bases(ci):
            for x in self.mro(b):
                if x not in out:
                    out.append(x)
        return out

    def is_subclass(self, ci: ClassInfo, base_name: str) -> bool:
        return any(c.name == base_name for c in self.mro(ci)) or any(
            b.split(".")[-1] == base_name for c in self.mro(ci) for b in c.base_names
        )

    def subclasses(self, ci: ClassInfo) -> list[ClassInfo]:
        if self._subs_cache is None:
            subs: dict[str, list[ClassInfo]] = {}
            for mod in self.modules.values():
                for c in mod.classes.values():
                    for b in self.mro(c)[1:]:
                        subs.setdefault(b.key, []).append(c)
            self._subs_cache = subs
        return list(self._subs_cache.get(ci.key, []))

    def subclasses_of_name(self, base_name: str, prefix: str = "") -> list[ClassInfo]:
        return [c for c in self.all_classes(prefix) if c.name != base_name and self.is_subclass(c, base_name)]

    def lookup_method(self, ci: ClassInfo, name: str) -> FunctionInfo | None:
        for c in self.mro(ci):
            if name in c.methods:
                return c.methods[name]
        return None

    def attr_info(self, ci: ClassInfo, attr: str) -> AttrInfo | None:
        for c in self.mro(ci):
            if attr in c.attrs:
                return c.attrs[attr]
        return None

    # ------------------------------------------------------------------ call resolution
    def resolve_call(self, fn: FunctionInfo, call: ast.Call, local_types: dict[str, str] | None = None) -> list[FunctionInfo]:
        """Resolved callee set for a call inside ``fn`` ([] when unknown)."""
        f = call.func
        mod = fn.module
        if isinstance(f, ast.Name):
            # nested function of this function or its parents
            cur: FunctionInfo | None = fn
            while cur is not None:
                for cand in mod.all_functions:
                    if cand.parent is cur and cand.name == f.id:
                        return [cand]
                cur = cur.parent
            if f.id in mod.functions:
                return [mod.functions[f.id]]
            if f.id in mod.classes:
                init = self.lookup_method(mod.classes[f.id], "__init__")
                return [init] if init else []
            imp = mod.imports.get(f.id)
            if imp and imp[1]:
                target = self.by_name.get(imp[0])
                hops = 0
                name = imp[1]
                while target is not None and hops < 4:
                    if name in target.functions:
                        return [target.functions[name]]
                    if name in target.classes:
                        init = self.lookup_method(target.classes[name], "__init__")
                        return [init] if init else []
                    nxt = target.imports.get(name)
                    if not nxt or not nxt[1]:
                        break
                    target, name = self.by_name.get(nxt[0]), nxt[1]
                    hops += 1
            return []
        if isinstance(f, ast.Attribute):
            recv = f.value
            # super().m()
            if isinstance(recv, ast.Call) and isinstance(recv.func, ast.Name) and recv.func.id == "super" and fn.cls:
                for c in self.mro(fn.cls)[1:]:
                    if f.attr in c.methods:
                        return [c.methods[f.attr]]
                return []
            if isinstance(recv, ast.Name) and recv.id == "self" and fn.cls is not None:
                out = []
                m = self.lookup_method(fn.cls, f.attr)
                if m:
                    out.append(m)
                for sc in self.subclasses(fn.cls):
                    if f.attr in sc.methods and sc.methods[f.attr] not in out:
                        out.append(sc.methods[f.attr])
                return out
            # self.attr.m()
            p = path_of(recv)
            if p and p.startswith("self.") and p.count(".") == 1 and fn.cls is not None:
                ai = self.attr_info(fn.cls, p.split(".")[1])
                if ai and ai.kind == "object" and ai.cls_name:
                    return self._methods_of_class_name(mod, ai.cls_name, f.attr)
                return []
            if isinstance(recv, ast.Name):
                if local_types and recv.id in local_types:
                    return self._methods_of_class_name(mod, local_types[recv.id], f.attr)
                # parameter with a class annotation
                cur_fn: FunctionInfo | None = fn
                while cur_fn is not None:
                    for a in cur_fn.node.args.posonlyargs + cur_fn.node.args.args + cur_fn.node.args.kwonlyargs:
                        if a.arg == recv.id and a.annotation is not None:
                            kind, cn = _kind_of_annotation(a.annotation)
                            if kind == "object" and cn:
                                r = self._methods_of_class_name(mod, cn, f.attr)
                                if r:
                                    return r
                    cur_fn = cur_fn.parent
                # ClassName.method / module.func
                tc = self.resolve_class_name(mod, recv.id) if recv.id[:1].isupper() else None
                if tc is not None:
                    m = self.lookup_method(tc, f.attr)
                    return [m] if m else []
                imp = mod.imports.get(recv.id)
                if imp and imp[1] is None:
                    target = self.by_name.get(imp[0])
                    if target and f.attr in target.functions:
                        return [target.functions[f.attr]]
                elif imp:
                    target = self.by_name.get(f"{imp[0]}.{imp[1]}")
                    if target and f.attr in target.functions:
                        return [target.functions[f.attr]]
        return []

    def _methods_of_class_name(self, mod: Module, cls_name: str, meth: str) -> list[FunctionInfo]:
        tc = self.resolve_class_name(mod, cls_name)
        if tc is None:
            return []
        out = []
        m = self.lookup_method(tc, meth)
        if m:
            out.append(m)
        for sc in self.subclasses(tc):
            if meth in sc.methods and sc.methods[meth] not in out:
                out.append(sc.methods[meth])
        return out
