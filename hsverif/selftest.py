"""Mutant / refactoring self-test of the rule packs (thorough tier).

Each rule pack may define

    MUTANTS   = [(name, relpath, old_text, new_text, expected_rule), ...]   # property-breaking single edits
    REFACTORS = [(name, relpath, old_text, new_text), ...]                  # behaviour-preserving edits

The edit is applied to a scratch copy of ``<root>/happysimulator`` in a temporary directory (outside /repo and
/verif, deleted immediately), the copy must still byte-compile, and the pack is re-run on it *statically*.
A mutant is killed when an obligation of ``expected_rule`` that held on the unmodified tree now fails; a
refactoring passes when no obligation that held now fails and no anchor is lost.  Reports of mutants are internal:
they never print VIOLATION lines.
"""

from __future__ import annotations

import importlib
import os
import shutil
import tempfile
from concurrent.futures import ProcessPoolExecutor

from . import AnalysisError
from .model import Program
from .report import Ctx


def _run_pack_on(root: str, prop: str) -> tuple[dict[str, bool], str | None]:
    pack = importlib.import_module(f"hsverif.rules.{prop.lower()}")
    prog = Program.load(root)
    if prog.parse_failures:
        return {}, "does not parse: " + prog.parse_failures[0]
    ctx = Ctx(prog, prop, "quick")
    try:
        ctx.guarded(pack.run)
    except AnalysisError as exc:
        return {o.ident: o.ok for o in ctx.obs}, f"ANALYSIS-ERROR: {exc}"
    return {o.ident: o.ok for o in ctx.obs}, None


def _one(args) -> dict:
    kind, prop, root, name, rel, old, new, expected = args
    src_pkg = os.path.join(root, "happysimulator")
    path = os.path.join(root, rel)
    try:
        with open(path, encoding="utf-8") as fh:
            text = fh.read()
    except OSError:
        return {"name": name, "kind": kind, "status": "not-applicable", "why": f"{rel} missing"}
    edits = list(zip(old, new)) if isinstance(old, (list, tuple)) else [(old, new)]
    for o, _ in edits:
        if text.count(o) != 1:
            return {"name": name, "kind": kind, "status": "not-applicable", "why": f"pattern occurs {text.count(o)}x in {rel}: {o[:40]!r}"}
    tmp = tempfile.mkdtemp(prefix="hsverif_mut_")
    try:
        shutil.copytree(src_pkg, os.path.join(tmp, "happysimulator"), ignore=shutil.ignore_patterns("__pycache__"))
        mpath = os.path.join(tmp, rel)
        new_text = text
        for o, n_ in edits:
            new_text = new_text.replace(o, n_)
        try:
            compile(new_text, mpath, "exec")
        except SyntaxError as exc:
            return {"name": name, "kind": kind, "status": "broken-mutant", "why": f"does not compile: {exc}"}
        with open(mpath, "w", encoding="utf-8") as fh:
            fh.write(new_text)
        obs, err = _run_pack_on(tmp, prop)
        return {"name": name, "kind": kind, "status": "ran", "obs": obs, "err": err, "expected": expected}
    finally:
        shutil.rmtree(tmp, ignore_errors=True)


def run_selftest(ctx: Ctx, pack, root: str) -> None:
    base = {o.ident: o.ok for o in ctx.obs}
    base_clean = all(base.values()) or True
    muts = list(getattr(pack, "MUTANTS", []))
    refs = list(getattr(pack, "REFACTORS", []))
    jobs = [("mutant", ctx.prop, root, n, rel, old, new, exp) for (n, rel, old, new, exp) in muts]
    jobs += [("refactor", ctx.prop, root, n, rel, old, new, None) for (n, rel, old, new) in refs]
    if not jobs:
        return
    with ProcessPoolExecutor(max_workers=min(16, len(jobs))) as ex:
        results = list(ex.map(_one, jobs))
    killed = survived = na = ref_ok = ref_bad = 0
    problems = []
    detail = []
    for r in results:
        if r["status"] != "ran":
            na += 1
            detail.append({"name": r["name"], "kind": r["kind"], "result": r["status"], "why": r.get("why")})
            if r["status"] == "broken-mutant":
                problems.append(f"{r['name']}: {r['why']}")
            continue
        newly = sorted(k for k, ok in r["obs"].items() if not ok and base.get(k, True))
        lost = sorted(k for k in base if k not in r["obs"])
        if r["kind"] == "mutant":
            exp = r["expected"]
            hit = [k for k in newly if k.split("|")[0] == exp]
            err_hit = r["err"] is not None and exp in (r["err"] or "")
            already = any(k.split("|")[0] == exp and not ok for k, ok in base.items())
            if hit or err_hit:
                killed += 1
                detail.append({"name": r["name"], "kind": "mutant", "result": "killed", "by": (hit or [r["err"]])[0][:200]})
            elif already:
                na += 1
                detail.append({"name": r["name"], "kind": "mutant", "result": "masked", "why": f"{exp} already failing on the analysed tree"})
            else:
                survived += 1
                detail.append({"name": r["name"], "kind": "mutant", "result": "SURVIVED", "newly_failing": newly[:5], "err": r["err"]})
                problems.append(f"mutant `{r['name']}` not detected by {exp} (newly failing: {newly[:3]}, err: {r['err']})")
        else:
            if newly or r["err"]:
                ref_bad += 1
                detail.append({"name": r["name"], "kind": "refactor", "result": "FALSE-ALARM", "newly_failing": newly[:5], "err": r["err"]})
                problems.append(f"behaviour-preserving edit `{r['name']}` raises an alarm: {newly[:3]} {r['err'] or ''}")
            else:
                ref_ok += 1
                detail.append({"name": r["name"], "kind": "refactor", "result": "silent", "anchors_lost": len(lost)})
    ctx.stats["selftest_mutants"] = len(muts)
    ctx.stats["selftest_mutants_killed"] = killed
    ctx.stats["selftest_mutants_survived"] = survived
    ctx.stats["selftest_not_applicable"] = na
    ctx.stats["selftest_refactors"] = len(refs)
    ctx.stats["selftest_refactors_silent"] = ref_ok
    ctx.stats["selftest_refactors_false_alarm"] = ref_bad
    ctx.stats["selftest_detail"] = detail  # type: ignore[assignment]
    print(f"  self-test: {killed}/{len(muts)} mutants killed, {survived} survived, {na} n/a; "
          f"{ref_ok}/{len(refs)} behaviour-preserving edits silent, {ref_bad} false alarm(s)")
    for dd in detail:
        if dd.get("result") in ("not-applicable", "masked"):
            print(f"  selftest n/a: {dd['name']}: {str(dd.get('why'))[:160]}")
    for p in problems:
        print("  SELFTEST-PROBLEM " + p)
    from .report import load_known

    known, _ = load_known(ctx.prop)
    if problems and not any((not ok) and k not in known for k, ok in base.items()):
        # the analysed tree is clean but the checker no longer detects what it is meant to: the checker is broken
        raise AnalysisError("self-test failed: " + "; ".join(problems[:3]))
