"""E7 — suspension-aware def-use inside generators.

(a) stale emission time: a value read from a time source before a clock-advancing suspension reaches the
    ``time=`` argument of an Event construction after it;
(b) zero-delay wait loops: a loop all of whose suspensions are constant-zero delays and whose exit
    condition is not written in its body;
(c) live-container iteration: ``for x in <shared container>`` with a suspension in the body while some
    other method of the class structurally mutates that container.
Also classifies the time argument of every Event construction site.
"""

from __future__ import annotations

import ast
from dataclasses import dataclass

from .astutil import calls_in, norm_stmt, path_of, unparse, walk_scope, walk_stmts
from .cfg import CFG, Node, own_exprs
from .effects import MUTATORS, write_targets
from .model import FunctionInfo, Program

EVENT_MOD = "happysimulator/core/event.py"


def event_class_names(prog: Program) -> set[str]:
    ev = prog.cls(EVENT_MOD, "Event")
    return {"Event"} | {c.name for c in prog.subclasses(ev)}


# ------------------------------------------------------------------------------------------
# suspensions
# ------------------------------------------------------------------------------------------


def _is_zero(e: ast.AST | None) -> bool:
    if e is None:
        return False
    if isinstance(e, ast.Constant) and isinstance(e.value, (int, float)) and not isinstance(e.value, bool):
        return e.value == 0
    if isinstance(e, ast.Tuple) and e.elts:
        return _is_zero(e.elts[0])
    return False


def yield_kind(y: ast.AST) -> str:
    """'zero' (constant zero delay: the clock cannot move), 'advance' (anything else)."""
    if isinstance(y, ast.Yield):
        return "zero" if _is_zero(y.value) else "advance"
    return "advance"


def node_suspension(prog: Program, fn: FunctionInfo, node: Node) -> str | None:
    """None / 'zero' / 'advance' for the suspension(s) performed by ``node`` itself."""
    kinds = []
    for e in own_exprs(node):
        for n in walk_scope(e):
            if isinstance(n, ast.Yield):
                kinds.append(yield_kind(n))
            elif isinstance(n, (ast.YieldFrom, ast.Await)):
                k = "advance"
                if isinstance(n, ast.YieldFrom) and isinstance(n.value, ast.Call):
                    callees = prog.resolve_call(fn, n.value)
                    if callees and all(not c.is_generator for c in callees):
                        k = None  # delegating to a non-generator iterable: treated as no suspension
                    elif callees and all(_all_yields_zero(c) for c in callees):
                        k = "zero"
                if k:
                    kinds.append(k)
    if not kinds:
        return None
    return "advance" if "advance" in kinds else "zero"


def _all_yields_zero(fn: FunctionInfo) -> bool:
    ys = [n for n in walk_scope(fn.node, include_root=False) if isinstance(n, (ast.Yield, ast.YieldFrom))]
    return bool(ys) and all(isinstance(y, ast.Yield) and _is_zero(y.value) for y in ys)


# ------------------------------------------------------------------------------------------
# time sources
# ------------------------------------------------------------------------------------------


def is_time_source(e: ast.AST, event_params: set[str]) -> bool:
    """`self.now`, `<x>.now`, `<x>._clock.now`, `<event param>.time` (fresh at handler entry)."""
    if isinstance(e, ast.Attribute):
        if e.attr == "now":
            return True
        if e.attr == "time" and isinstance(e.value, ast.Name) and e.value.id in event_params:
            return True
    return False


def time_sources_in(e: ast.AST, event_params: set[str]) -> list[ast.AST]:
    return [n for n in walk_scope(e) if is_time_source(n, event_params)]


@dataclass
class StaleUse:
    fn: FunctionInfo
    call: ast.Call  # the Event(...) construction
    time_expr: ast.AST
    var: str
    def_stmt: ast.AST | None
    exact: bool  # time argument is exactly the stale value (or stale - x)
    kind: str  # "exact" | "minus" | "plus"


@dataclass
class Emission:
    fn: FunctionInfo
    call: ast.Call
    time_expr: ast.AST | None
    cls: str  # classification


def emission_calls(prog: Program, fn: FunctionInfo, ev_names: set[str]) -> list[tuple[ast.Call, ast.AST | None]]:
    out = []
    for c in calls_in(fn.node):
        p = path_of(c.func)
        if p is None:
            continue
        last = p.split(".")[-1]
        is_ctor = last in ev_names and (p == last or p.split(".")[-2:-1] != ["self"])
        is_once = p.endswith("Event.once")
        if not (is_ctor or is_once):
            continue
        t = None
        for k in c.keywords:
            if k.arg == "time":
                t = k.value
        if t is None and c.args:
            t = c.args[0]
        out.append((c, t))
    return out


class StaleTime:
    """Forward may-analysis: which time-derived locals have crossed a clock-advancing suspension."""

    def __init__(self, prog: Program, fn: FunctionInfo, cfg: CFG, ev_names: set[str]):
        self.prog, self.fn, self.cfg, self.ev_names = prog, fn, cfg, ev_names
        params = fn.params()
        self.event_params = {p for p in params if p in ("event", "evt", "ev", "request_event")}
        self.uses: list[StaleUse] = []
        self.emissions: list[Emission] = []
        self._run()

    # state: var -> frozenset of (def_lineno, crossed)
    def _taint(self, e: ast.AST, st: dict[str, frozenset]) -> tuple[bool, bool, str | None]:
        """(is time derived, stale, name of a stale var) for expression ``e`` under state ``st``."""
        derived = False
        stale = False
        sv = None
        for n in walk_scope(e):
            if is_time_source(n, self.event_params):
                derived = True
                key = unparse(n) if (isinstance(n, ast.Attribute) and n.attr == "time") else None
                if key and key in st and any(c for _, c in st[key]):
                    stale = True
                    sv = key
            elif isinstance(n, ast.Name) and n.id in st and not n.id.startswith("@ev:"):
                derived = True
                if any(c for _, c in st[n.id]):
                    stale = True
                    sv = n.id
        return derived, stale, sv

    def _is_emission_ctor(self, c: ast.AST) -> ast.AST | None:
        """Time argument of an Event construction, or None."""
        if not isinstance(c, ast.Call):
            return None
        p = path_of(c.func)
        if p is None:
            return None
        last = p.split(".")[-1]
        if not ((last in self.ev_names and not p.startswith("self.")) or p.endswith("Event.once")):
            return None
        for k in c.keywords:
            if k.arg == "time":
                return k.value
        return c.args[0] if c.args else None

    def _callee_may_return_fresh_events(self, c: ast.AST) -> bool:
        """`self.<collaborator>.m(...)` (a non-generator method of another component, resolved through the attribute's type) with a return
        value that is, or is a list display containing, an Event stamped from the current time — e.g. `self._pool.release(conn)` returning
        `[idle_timeout_event]`.  May-analysis: one such return suffices (the other returns hand over nothing)."""
        if not (isinstance(c, ast.Call) and isinstance(c.func, ast.Attribute) and (path_of(c.func.value) or "").startswith("self._")):
            return False
        try:
            callees = self.prog.resolve_call(self.fn, c)
        except Exception:
            return False
        if not callees or len(callees) > 3:
            return False
        for cal in callees:
            if cal.is_generator:
                continue
            evp = {p_ for p_ in cal.params() if p_ in ("event", "evt", "ev", "request_event")}
            for r in [s_ for s_ in walk_stmts(cal.node.body) if isinstance(s_, ast.Return) and s_.value is not None]:
                elts = r.value.elts if isinstance(r.value, ast.List) else [r.value]
                for v in elts:
                    if isinstance(v, ast.Name):
                        defs = [s_.value for s_ in walk_stmts(cal.node.body) if isinstance(s_, ast.Assign) and path_of(s_.targets[0]) == v.id]
                        v = defs[-1] if len(defs) == 1 else v
                    t = self._is_emission_ctor(v)
                    if t is not None and any(is_time_source(n_, evp) for n_ in walk_scope(t)):
                        return True
        return False

    def _helper_returns_fresh_event(self, c: ast.AST) -> bool:
        """`self.m(...)` whose every return value is an Event stamped from a fresh time source (e.g. `_schedule_next()`)."""
        if self._callee_may_return_fresh_events(c):
            return True
        if not (isinstance(c, ast.Call) and isinstance(c.func, ast.Attribute) and path_of(c.func.value) == "self"):
            return False
        callees = self.prog.resolve_call(self.fn, c)
        if not callees:
            return False
        for cal in callees:
            if cal.is_generator:
                return False
            rets = [s_ for s_ in walk_stmts(cal.node.body) if isinstance(s_, ast.Return) and s_.value is not None]
            if not rets:
                return False
            evp = {p_ for p_ in cal.params() if p_ in ("event", "evt", "ev", "request_event")}
            for r in rets:
                v = r.value
                if isinstance(v, ast.Name):
                    defs = [s_.value for s_ in walk_stmts(cal.node.body) if isinstance(s_, ast.Assign) and path_of(s_.targets[0]) == v.id]
                    v = defs[-1] if len(defs) == 1 else v
                t = self._is_emission_ctor(v)
                if t is None or not any(is_time_source(n_, evp) for n_ in walk_scope(t)):
                    return False
        return True

    def _fresh_stamped(self, t: ast.AST | None, st) -> bool:
        """``t`` derives from a fresh (uncrossed) time value, possibly plus a delay."""
        if t is None:
            return False
        d, stale, _ = self._taint(t, st)
        return d and not stale

    def _bare_fresh(self, t: ast.AST | None, st) -> bool:
        """Is ``t`` exactly a fresh (uncrossed) time value — a time source or a time-derived local, no arithmetic?"""
        if t is None:
            return False
        if isinstance(t, ast.IfExp):
            return self._bare_fresh(t.body, st) or self._bare_fresh(t.orelse, st)
        if is_time_source(t, self.event_params):
            return True
        return isinstance(t, ast.Name) and t.id in st and not any(c for _, c in st[t.id])

    def _run(self) -> None:
        cfg = self.cfg
        init: dict[str, frozenset] = {f"{p}.time": frozenset({(0, False)}) for p in self.event_params}
        state_in: dict[int, dict[str, frozenset]] = {cfg.entry.id: init}
        work = [cfg.entry]
        seen_emission: dict[int, Emission] = {}
        seen_use: dict[tuple[int, str], StaleUse] = {}
        susp_cache: dict[int, str | None] = {}
        iters = 0
        while work:
            iters += 1
            if iters > 100000:
                break
            n = work.pop()
            st = state_in[n.id]
            # 1. uses inside this node are evaluated before the node's own suspension takes effect
            if n.kind in ("stmt", "test", "for", "with"):
                for e in own_exprs(n):
                    for c in [x for x in walk_scope(e) if isinstance(x, ast.Call)]:
                        p = path_of(c.func)
                        if p is None:
                            continue
                        last = p.split(".")[-1]
                        if not ((last in self.ev_names and not p.startswith("self.")) or p.endswith("Event.once")):
                            continue
                        t = None
                        for k in c.keywords:
                            if k.arg == "time":
                                t = k.value
                        if t is None and c.args:
                            t = c.args[0]
                        if t is None:
                            continue
                        derived, stale, sv = self._taint(t, st)
                        if stale:
                            tp = path_of(t)
                            exact = tp is not None and (tp == sv or (tp in st and any(c_ for _, c_ in st[tp])))
                            kind = "exact" if exact else "plus"
                            if isinstance(t, ast.BinOp) and isinstance(t.op, ast.Sub):
                                kind = "minus"
                            if isinstance(t, ast.IfExp):
                                # `fresh_now if clock else stale` re-reads the clock: exact only when no branch is a fresh source
                                def br_stale(b):
                                    return path_of(b) is not None and self._taint(b, st)[1]
                                fresh_branch = any(is_time_source(b, self.event_params) and not self._taint(b, st)[1] for b in (t.body, t.orelse))
                                kind = "exact" if (not fresh_branch and any(br_stale(b) for b in (t.body, t.orelse))) else "plus"
                            seen_use[(id(c), sv or "")] = StaleUse(self.fn, c, t, sv or "?", None, kind in ("exact", "minus"), kind)
                # event objects built before a clock-advancing suspension and handed to the engine after it
                a_ = n.ast
                handed: list[ast.AST] = []
                if n.kind == "stmt" and isinstance(a_, ast.Return) and a_.value is not None:
                    handed.append(a_.value)
                for e in own_exprs(n):
                    for y in walk_scope(e):
                        if isinstance(y, ast.Yield) and isinstance(y.value, ast.Tuple) and len(y.value.elts) >= 2:
                            handed.append(y.value.elts[1])
                for hexpr in handed:
                    popped = {path_of(c.func.value) for c in walk_scope(hexpr) if isinstance(c, ast.Call) and isinstance(c.func, ast.Attribute)
                              and c.func.attr == "pop" and not c.args}
                    for nm in walk_scope(hexpr):
                        if isinstance(nm, ast.Name) and f"@ev:{nm.id}" in st and any(c for _, c in st[f"@ev:{nm.id}"]):
                            if nm.id in popped and any(not c for _, c in st[f"@ev:{nm.id}"]):
                                continue  # `.pop()` hands over the most recently appended object, which is fresh
                            # `.pop()` / indexing of the list still hands over a stale object
                            seen_use[(id(hexpr), nm.id)] = StaleUse(self.fn, hexpr if isinstance(hexpr, ast.Call) else ast.Call(func=ast.Name(id="emit", ctx=ast.Load()), args=[hexpr], keywords=[]),
                                                                    hexpr, nm.id, None, True, "object")
            # 2. suspension
            if n.id not in susp_cache:
                susp_cache[n.id] = node_suspension(self.prog, self.fn, n) if n.kind in ("stmt", "test", "for", "with") else None
            out = st
            # `lst.pop()` takes the most recently appended (fresh) object out of the list again
            for e_ in own_exprs(n):
                for c_ in walk_scope(e_):
                    if isinstance(c_, ast.Call) and isinstance(c_.func, ast.Attribute) and c_.func.attr == "pop" and not c_.args \
                            and isinstance(c_.func.value, ast.Name) and f"@ev:{c_.func.value.id}" in out:
                        key_ = f"@ev:{c_.func.value.id}"
                        rest = frozenset(x for x in out[key_] if x[1])
                        out = dict(out)
                        if rest:
                            out[key_] = rest
                        else:
                            out.pop(key_, None)
            if susp_cache[n.id] == "advance":
                out = {k: frozenset((d, True) for d, _ in v) for k, v in out.items()}
            # 3. defs
            if n.kind in ("stmt", "for", "with") and n.ast is not None:
                tg = write_targets(n.ast)
                if tg:
                    out = dict(out)
                    val = getattr(n.ast, "value", None)
                    for t in tg:
                        name = path_of(t)
                        if name is None:
                            continue
                        if isinstance(n.ast, (ast.Assign, ast.AnnAssign)) and val is not None and (isinstance(t, ast.Name)):
                            derived, stale, _ = self._taint(val, out)
                            if derived:
                                out[name] = frozenset({(getattr(n.ast, "lineno", 0), stale)})
                            else:
                                out.pop(name, None)
                        elif isinstance(n.ast, ast.AugAssign):
                            pass  # keeps its taint
                        else:
                            out.pop(name, None)
            # 3b. event objects stamped with the current time: `x = Event(time=<fresh now>)`, `lst.append(Event(...))`, `lst = [Event(...)]`
            if n.kind == "stmt" and n.ast is not None:
                a_ = n.ast
                holders: list[tuple[str, bool]] = []
                if isinstance(a_, (ast.Assign, ast.AnnAssign)) and getattr(a_, "value", None) is not None:
                    tgt = a_.targets[0] if isinstance(a_, ast.Assign) else a_.target
                    if isinstance(tgt, ast.Name):
                        ctors = [c for c in walk_scope(a_.value) if self._is_emission_ctor(c) is not None]
                        fresh = [c for c in ctors if self._fresh_stamped(self._is_emission_ctor(c), out)]
                        if fresh or self._helper_returns_fresh_event(a_.value):
                            holders.append((tgt.id, True))
                        elif isinstance(a_.value, ast.Name) and f"@ev:{a_.value.id}" in out:
                            out = dict(out)
                            out[f"@ev:{tgt.id}"] = out[f"@ev:{a_.value.id}"]  # alias of a list of stamped events
                        elif f"@ev:{tgt.id}" in out:
                            out = dict(out)
                            out.pop(f"@ev:{tgt.id}", None)
                elif isinstance(a_, ast.Expr) and isinstance(a_.value, ast.Call) and isinstance(a_.value.func, ast.Attribute) \
                        and a_.value.func.attr in ("append", "extend", "insert") and isinstance(a_.value.func.value, ast.Name):
                    ctors = [c for arg in a_.value.args for c in walk_scope(arg) if self._is_emission_ctor(c) is not None]
                    if any(self._fresh_stamped(self._is_emission_ctor(c), out) for c in ctors) or any(self._helper_returns_fresh_event(arg) for arg in a_.value.args):
                        holders.append((a_.value.func.value.id, False))
                    else:
                        # `lst.extend(other)` / `lst.append(x)` where the argument already holds stamped events: the receiver holds them too
                        for arg in a_.value.args:
                            if isinstance(arg, ast.Name) and f"@ev:{arg.id}" in out:
                                out = dict(out)
                                key = f"@ev:{a_.value.func.value.id}"
                                out[key] = out.get(key, frozenset()) | out[f"@ev:{arg.id}"]
                elif isinstance(a_, ast.Expr) and isinstance(a_.value, ast.Call) and isinstance(a_.value.func, ast.Attribute) \
                        and a_.value.func.attr == "clear" and isinstance(a_.value.func.value, ast.Name) and f"@ev:{a_.value.func.value.id}" in out:
                    out = dict(out)
                    out.pop(f"@ev:{a_.value.func.value.id}", None)
                for nm, replace in holders:
                    out = dict(out)
                    key = f"@ev:{nm}"
                    newv = frozenset({(getattr(a_, "lineno", 0), False)})
                    out[key] = newv if replace else (out.get(key, frozenset()) | newv)
            for s, _ in n.succ:
                prev = state_in.get(s.id)
                if prev is None:
                    state_in[s.id] = dict(out)
                    work.append(s)
                else:
                    merged = dict(prev)
                    changed = False
                    for k, v in out.items():
                        nv = merged.get(k, frozenset()) | v
                        if nv != merged.get(k):
                            merged[k] = nv
                            changed = True
                    if changed:
                        state_in[s.id] = merged
                        work.append(s)
        self.uses = list(seen_use.values())
        self.state_in = state_in


# ------------------------------------------------------------------------------------------
# (b) zero-delay wait loops
# ------------------------------------------------------------------------------------------


@dataclass
class WaitLoop:
    fn: FunctionInfo
    loop: ast.While
    yields: list[ast.AST]


def zero_delay_wait_loops(prog: Program, fn: FunctionInfo, may_be_zero=None) -> list[WaitLoop]:
    """``may_be_zero(expr)``: optional predicate for yielded delays that are not the constant 0 but can evaluate to it"""
    out = []
    for st in walk_stmts(fn.node.body):
        if not isinstance(st, ast.While):
            continue
        ys = [n for b in st.body for n in walk_scope(b) if isinstance(n, (ast.Yield, ast.YieldFrom))]
        if not ys:
            continue
        if not all(isinstance(y, ast.Yield) and (_is_zero(y.value) or (may_be_zero is not None and y.value is not None and may_be_zero(y.value))) for y in ys):
            continue
        # condition paths written inside the body? then the loop makes its own progress
        cond_paths = {p for n in walk_scope(st.test) for p in [path_of(n)] if p and isinstance(n, (ast.Name, ast.Attribute))}
        # progress = the body itself *unconditionally* changes something the condition reads (statements nested
        # under an `if` over shared state only fire when somebody else has already acted, which is what the loop waits for)
        written = set()
        for b in st.body:
            if isinstance(b, (ast.If, ast.While, ast.For, ast.Try, ast.With)):
                continue
            for t in write_targets(b):
                base = t
                while isinstance(base, ast.Subscript):
                    base = base.value
                p = path_of(base)
                if p:
                    written.add(p)
            for c in calls_in(b):
                if isinstance(c.func, ast.Attribute) and c.func.attr in MUTATORS:
                    p = path_of(c.func.value)
                    if p:
                        written.add(p)
                elif isinstance(c.func, ast.Attribute) and path_of(c.func.value) == "self":
                    written.add("self")  # a self-method call may change any self state the condition reads
        if any(any(cp == w or cp.startswith(w + ".") or w.startswith(cp + ".") for w in written) for cp in cond_paths):
            continue
        # calls in the condition itself (e.g. `while not self._try_take():`) may make progress
        if any(isinstance(n, ast.Call) and isinstance(n.func, ast.Attribute) and n.func.attr not in ("get", "is_set", "is_empty") and path_of(n.func.value) == "self"
               for n in walk_scope(st.test)):
            continue
        # a constant-true loop with a break/return guarded by something the body computes is a polling loop too,
        # but we only report the definite shape: condition over shared state not written in the body
        if isinstance(st.test, ast.Constant):
            continue
        out.append(WaitLoop(fn, st, ys))
    return out


# ------------------------------------------------------------------------------------------
# (c) live-container iteration across a suspension
# ------------------------------------------------------------------------------------------


@dataclass
class LiveIter:
    fn: FunctionInfo
    loop: ast.For
    container: str
    mutators: list[str]


def live_iterations(prog: Program, fn: FunctionInfo, effects) -> list[LiveIter]:
    if fn.cls is None:
        return []
    out = []
    for st in walk_stmts(fn.node.body):
        if not isinstance(st, ast.For):
            continue
        it = st.iter
        # unwrap .values()/.items()/.keys() and enumerate()/reversed() but NOT list()/sorted()/tuple() (those copy)
        while True:
            if isinstance(it, ast.Call) and isinstance(it.func, ast.Attribute) and it.func.attr in ("values", "items", "keys") and not it.args:
                it = it.func.value
            elif isinstance(it, ast.Call) and isinstance(it.func, ast.Name) and it.func.id in ("enumerate", "reversed", "iter") and it.args:
                it = it.args[0]
            else:
                break
        p = path_of(it)
        if not p or not p.startswith("self.") or p.count(".") != 1:
            continue
        attr = p.split(".")[1]
        ai = prog.attr_info(fn.cls, attr)
        if ai is None or ai.kind not in ("list", "dict", "set", "deque"):
            continue
        susp = False
        for b in st.body:
            for n in walk_scope(b):
                if isinstance(n, ast.Yield) and not _is_zero(n.value):
                    susp = True
                elif isinstance(n, ast.YieldFrom):
                    susp = True
        if not susp:
            continue
        muts = []
        for c in prog.mro(fn.cls):
            for m in c.methods.values():
                if m.name in ("__init__", "__post_init__"):
                    continue
                d = effects.direct(m)
                if attr in d.mutates:  # re-binding the attribute does not disturb an iteration over the old object
                    muts.append(m.qual)
        if muts:
            out.append(LiveIter(fn, st, p, sorted(set(muts))))
    return out


# ------------------------------------------------------------------------------------------
# time-base alternatives of an emission timestamp (flow-insensitive, intra-procedural)
# ------------------------------------------------------------------------------------------


def time_bases(fn: FunctionInfo, e: ast.AST, event_params: set[str], depth: int = 0, seen: frozenset = frozenset()) -> set[str]:
    """The alternative *bases* a timestamp expression can take: 'fresh', 'param:<p>', 'stored:<path>', 'const', 'other:<txt>'.

    ``a + d`` has the bases of its time-typed operand; ``a or b`` / ``x if c else y`` have both; ``max(...)`` with a fresh
    alternative is clamped to fresh; locals are expanded through all their definitions in the function.
    """
    if depth > 8:
        return {"other:deep"}
    if is_time_source(e, event_params):
        return {"fresh"}
    if isinstance(e, ast.Constant):
        return {"const"}
    if isinstance(e, ast.Name):
        if e.id in fn.params():
            return {f"param:{e.id}"}
        if e.id in seen:
            return set()
        defs = [s_.value for s_ in walk_stmts(fn.node.body) if isinstance(s_, (ast.Assign, ast.AnnAssign)) and s_.value is not None
                and any(path_of(t_) == e.id for t_ in (s_.targets if isinstance(s_, ast.Assign) else [s_.target]))]
        for s_ in walk_stmts(fn.node.body):
            if isinstance(s_, ast.Assign) and isinstance(s_.targets[0], (ast.Tuple, ast.List)) and any(path_of(x) == e.id for x in s_.targets[0].elts):
                defs.append(s_.value)
        if not defs:
            return {f"other:{e.id}"}
        out: set[str] = set()
        for d in defs:
            out |= time_bases(fn, d, event_params, depth + 1, seen | {e.id})
        return out
    if isinstance(e, ast.Attribute):
        p = path_of(e)
        if p is not None:
            if e.attr in ("nanoseconds",):
                return time_bases(fn, e.value, event_params, depth + 1, seen)
            return {f"stored:{p}"}
        # an attribute of something that is not a plain access path (`self._states[name].last_run_time`): still a recorded value
        return {f"stored:<expr>.{e.attr}"}
    if isinstance(e, ast.BinOp) and isinstance(e.op, (ast.Add, ast.Sub)):
        lb = time_bases(fn, e.left, event_params, depth + 1, seen)
        rb = time_bases(fn, e.right, event_params, depth + 1, seen)
        timeish = {b for b in lb | rb if b == "fresh" or b.startswith(("stored:", "param:"))}
        # the delay operand: configuration attributes / constants are not time bases
        pick = set()
        for side, bs in ((e.left, lb), (e.right, rb)):
            if "fresh" in bs:
                pick |= {"fresh"}
        if pick:
            # fresh ± something: the other operand is a delay
            return pick | {b for b in (lb | rb) if b.startswith("stored:") and _looks_like_timestamp(b)}
        return timeish or (lb | rb)
    if isinstance(e, ast.BoolOp):
        out = set()
        for v in e.values:
            out |= time_bases(fn, v, event_params, depth + 1, seen)
        return out
    if isinstance(e, ast.IfExp):
        return time_bases(fn, e.body, event_params, depth + 1, seen) | time_bases(fn, e.orelse, event_params, depth + 1, seen)
    if isinstance(e, ast.Subscript) and isinstance(e.slice, ast.Constant) and isinstance(e.slice.value, str) and path_of(e.value) is not None:
        # a value carried in a context / metadata dict under a fixed key: recorded when the dict was filled
        return {f"stored:{path_of(e.value)}.{e.slice.value}"}
    if isinstance(e, ast.Call) and isinstance(e.func, ast.Attribute) and e.func.attr == "get" and e.args and isinstance(e.args[0], ast.Constant) \
            and isinstance(e.args[0].value, str) and path_of(e.func.value) is not None:
        out = {f"stored:{path_of(e.func.value)}.{e.args[0].value}"}
        if len(e.args) > 1:
            out |= time_bases(fn, e.args[1], event_params, depth + 1, seen)
        return out
    if isinstance(e, ast.Call):
        fname = path_of(e.func) or ""
        last = fname.split(".")[-1]
        if last == "max" and e.args:
            alts = [time_bases(fn, a, event_params, depth + 1, seen) for a in e.args]
            if any(a == {"fresh"} for a in alts):
                return {"fresh"}
            return set().union(*alts)
        if last in ("from_seconds", "Instant", "float", "int") and e.args:
            return time_bases(fn, e.args[0], event_params, depth + 1, seen)
        if last in ("to_seconds",) and isinstance(e.func, ast.Attribute):
            return time_bases(fn, e.func.value, event_params, depth + 1, seen)
        if last == "min" and e.args:
            return set().union(*[time_bases(fn, a, event_params, depth + 1, seen) for a in e.args])
        return {f"other:{fname}()"}
    return {f"other:{type(e).__name__}"}


_TS_HINTS = ("_at", "_time", "time", "timestamp", "deadline", "expires", "last_")


def _looks_like_timestamp(base: str) -> bool:
    last = base.split(".")[-1].lower()
    return any(h in last for h in _TS_HINTS)
