#!/venv/bin/python
"""Mechanical behaviour-preserving rewrites of a copy of /repo/happysimulator, to measure false alarms of the rule packs.

usage: auto_refactor.py <mode> <dest-root>      mode: reformat | rename-locals | flip-compare | aug-expand | invert-if | all
  reformat       every module is re-emitted by ast.unparse (layout, quotes, parentheses, comments change; semantics do not)
  rename-locals  + every function-local variable x (assigned in the function, not a parameter, not global/nonlocal, not captured as a
                 parameter name by a nested scope) is renamed to x_ in the whole function
  flip-compare   + every `a < b` / `a <= b` / `a > b` / `a >= b` with a single operator is written the other way round (`b > a` ...)
  aug-expand     + every `x += e` on a plain name or attribute (not subscript) becomes `x = x + e`  (only for numeric-looking e: constants / names)
The copy lives under <dest-root>/happysimulator.  Nothing in /repo is touched.
"""
import ast, os, shutil, sys


class Renamer(ast.NodeTransformer):
    def __init__(self, names):
        self.names = names

    def visit_Name(self, n):
        if n.id in self.names:
            return ast.copy_location(ast.Name(id=n.id + "_", ctx=n.ctx), n)
        return n

    def visit_Global(self, n):
        return n


def local_names(fn):
    params = {a.arg for a in fn.args.args + fn.args.kwonlyargs + fn.args.posonlyargs}
    if fn.args.vararg:
        params.add(fn.args.vararg.arg)
    if fn.args.kwarg:
        params.add(fn.args.kwarg.arg)
    stored, banned = set(), set(params)
    for n in ast.walk(fn):
        if isinstance(n, ast.Name) and isinstance(n.ctx, ast.Store):
            stored.add(n.id)
        if isinstance(n, (ast.Global, ast.Nonlocal)):
            banned |= set(n.names)
        if n is not fn and isinstance(n, (ast.FunctionDef, ast.AsyncFunctionDef, ast.Lambda)):
            a = n.args
            banned |= {x.arg for x in a.args + a.kwonlyargs + a.posonlyargs}
            if a.vararg:
                banned.add(a.vararg.arg)
            if a.kwarg:
                banned.add(a.kwarg.arg)
        if n is not fn and isinstance(n, (ast.FunctionDef, ast.AsyncFunctionDef, ast.ClassDef)):
            banned.add(n.name)
        if isinstance(n, (ast.Import, ast.ImportFrom)):
            banned |= {(al.asname or al.name).split(".")[0] for al in n.names}
        if isinstance(n, ast.ExceptHandler) and n.name:
            banned.add(n.name)
        if isinstance(n, (ast.MatchAs, ast.MatchStar)) and getattr(n, "name", None):
            banned.add(n.name)
        if isinstance(n, ast.Call) and isinstance(n.func, ast.Name) and n.func.id in ("locals", "vars", "eval", "exec"):
            return set()
    return {x for x in stored - banned if not x.startswith("__") and x != "_"}


class TopFuncs(ast.NodeTransformer):
    """rename locals in outermost functions only (nested ones are handled as part of their parent)"""
    def __init__(self):
        self.depth = 0

    def _fn(self, n):
        if self.depth == 0:
            names = local_names(n)
            self.depth += 1
            if names:
                n = Renamer(names).visit(n)
            self.depth -= 1
            return n
        return n

    visit_FunctionDef = _fn
    visit_AsyncFunctionDef = _fn

    def visit_ClassDef(self, n):
        n.body = [self.visit(b) for b in n.body]
        return n


FLIP = {ast.Lt: ast.Gt, ast.Gt: ast.Lt, ast.LtE: ast.GtE, ast.GtE: ast.LtE}


class Flip(ast.NodeTransformer):
    def visit_Compare(self, n):
        self.generic_visit(n)
        if len(n.ops) == 1 and type(n.ops[0]) in FLIP and not any(isinstance(x, (ast.Call, ast.Yield, ast.Await, ast.NamedExpr)) for s in (n.left, n.comparators[0]) for x in ast.walk(s)):
            return ast.copy_location(ast.Compare(left=n.comparators[0], ops=[FLIP[type(n.ops[0])]()], comparators=[n.left]), n)
        return n


class InvertIf(ast.NodeTransformer):
    """`if c: A else: B`  ->  `if not c: B else: A` (comparison operators negated directly where possible)"""
    NEG = {ast.In: ast.NotIn, ast.NotIn: ast.In, ast.Eq: ast.NotEq, ast.NotEq: ast.Eq, ast.Is: ast.IsNot, ast.IsNot: ast.Is,
           ast.Lt: ast.GtE, ast.GtE: ast.Lt, ast.Gt: ast.LtE, ast.LtE: ast.Gt}

    def visit_If(self, n):
        self.generic_visit(n)
        if n.orelse and not (len(n.orelse) == 1 and isinstance(n.orelse[0], ast.If)):
            t = n.test
            if isinstance(t, ast.UnaryOp) and isinstance(t.op, ast.Not):
                neg = t.operand
            elif isinstance(t, ast.Compare) and len(t.ops) == 1 and type(t.ops[0]) in self.NEG:
                neg = ast.Compare(left=t.left, ops=[self.NEG[type(t.ops[0])]()], comparators=t.comparators)
            else:
                neg = ast.UnaryOp(op=ast.Not(), operand=t)
            return ast.copy_location(ast.If(test=neg, body=n.orelse, orelse=n.body), n)
        return n


class AugExpand(ast.NodeTransformer):
    def visit_AugAssign(self, n):
        if isinstance(n.target, (ast.Name, ast.Attribute)) and isinstance(n.op, (ast.Add, ast.Sub)) and isinstance(n.value, (ast.Constant, ast.Name)) \
                and not (isinstance(n.value, ast.Constant) and isinstance(n.value.value, str)) and not (isinstance(n.target, ast.Attribute) and not isinstance(n.target.value, ast.Name)):
            import copy
            load = copy.deepcopy(n.target)
            load.ctx = ast.Load()
            return ast.copy_location(ast.Assign(targets=[n.target], value=ast.BinOp(left=load, op=n.op, right=n.value), lineno=n.lineno), n)
        return n


def _terminates(body):
    return bool(body) and isinstance(body[-1], (ast.Return, ast.Raise, ast.Continue, ast.Break))


class SplitAnd(ast.NodeTransformer):
    """`if a and b: BODY` (no else)  ->  `if a:\n    if b: BODY`"""
    def visit_If(self, n):
        self.generic_visit(n)
        if not n.orelse and isinstance(n.test, ast.BoolOp) and isinstance(n.test.op, ast.And) and len(n.test.values) == 2:
            inner = ast.copy_location(ast.If(test=n.test.values[1], body=n.body, orelse=[]), n)
            return ast.copy_location(ast.If(test=n.test.values[0], body=[inner], orelse=[]), n)
        return n


class _Blocks(ast.NodeTransformer):
    """apply self.block(list[stmt]) -> list[stmt] to every statement list"""
    def generic_visit(self, node):
        super().generic_visit(node)
        for fld in ("body", "orelse", "finalbody"):
            b = getattr(node, fld, None)
            if isinstance(b, list) and b and isinstance(b[0], ast.stmt):
                setattr(node, fld, self.block(b))
        return node


class ElseWrap(_Blocks):
    """`if c: ...; return` followed by REST  ->  `if c: ...; return` / `else: REST`  (first such if per block)"""
    def block(self, b):
        for i, st in enumerate(b[:-1]):
            if isinstance(st, ast.If) and not st.orelse and _terminates(st.body) and not any(isinstance(x, (ast.FunctionDef, ast.ClassDef, ast.Import, ast.ImportFrom)) for x in b[i + 1:]):
                st.orelse = b[i + 1:]
                return b[:i + 1]
        return b


class ElseUnwrap(_Blocks):
    """`if c: ...; return` / `else: REST`  ->  `if c: ...; return` followed by REST"""
    def block(self, b):
        out = []
        for st in b:
            if isinstance(st, ast.If) and st.orelse and _terminates(st.body) and not (len(st.orelse) == 1 and isinstance(st.orelse[0], ast.If)):
                rest, st.orelse = st.orelse, []
                out.append(st)
                out.extend(rest)
            else:
                out.append(st)
        return out


class RetTemp(ast.NodeTransformer):
    """`return EXPR` -> `result__ = EXPR; return result__` for non-trivial EXPR (not inside lambdas; generators included)"""
    def visit_FunctionDef(self, fn):
        self.generic_visit(fn)
        class R(_Blocks):
            def block(self_, b):
                out = []
                for st in b:
                    if isinstance(st, ast.Return) and st.value is not None and not isinstance(st.value, (ast.Constant, ast.Name)):
                        out.append(ast.copy_location(ast.Assign(targets=[ast.Name(id="result__", ctx=ast.Store())], value=st.value, lineno=st.lineno), st))
                        out.append(ast.copy_location(ast.Return(value=ast.Name(id="result__", ctx=ast.Load())), st))
                    else:
                        out.append(st)
                return out
            def visit_FunctionDef(self_, inner):
                return inner if inner is not fn else _Blocks.generic_visit(self_, inner)
            visit_AsyncFunctionDef = visit_FunctionDef
        R().visit(fn)
        return fn


class SwapMinMax(ast.NodeTransformer):
    def visit_Call(self, n):
        self.generic_visit(n)
        if isinstance(n.func, ast.Name) and n.func.id in ("max", "min") and len(n.args) == 2 and not n.keywords and not any(isinstance(a, ast.Starred) for a in n.args) \
                and not any(isinstance(x, (ast.Call, ast.Yield, ast.Await, ast.NamedExpr)) for a in n.args for x in ast.walk(a)):
            n.args = [n.args[1], n.args[0]]
        return n


class SwapEarlyReturn(_Blocks):
    """`if c: A(terminates)` followed by REST(terminates) at the end of a block  ->  `if not c: REST` followed by A"""
    def block(self, b):
        for i, st in enumerate(b[:-1]):
            rest = b[i + 1:]
            if isinstance(st, ast.If) and not st.orelse and _terminates(st.body) and _terminates(rest) and len(rest) <= 6 \
                    and not any(isinstance(x, (ast.FunctionDef, ast.ClassDef, ast.Import, ast.ImportFrom)) for x in rest + st.body):
                t = st.test
                if isinstance(t, ast.UnaryOp) and isinstance(t.op, ast.Not):
                    neg = t.operand
                elif isinstance(t, ast.Compare) and len(t.ops) == 1 and type(t.ops[0]) in InvertIf.NEG and type(t.ops[0]) in (ast.In, ast.NotIn, ast.Is, ast.IsNot, ast.Eq, ast.NotEq):
                    neg = ast.Compare(left=t.left, ops=[InvertIf.NEG[type(t.ops[0])]()], comparators=t.comparators)
                else:
                    neg = ast.UnaryOp(op=ast.Not(), operand=t)
                new_if = ast.copy_location(ast.If(test=neg, body=rest, orelse=[]), st)
                return b[:i] + [new_if] + st.body
        return b


def _negate(t):
    if isinstance(t, ast.UnaryOp) and isinstance(t.op, ast.Not):
        return t.operand
    if isinstance(t, ast.Compare) and len(t.ops) == 1 and type(t.ops[0]) in (ast.In, ast.NotIn, ast.Is, ast.IsNot, ast.Eq, ast.NotEq):
        return ast.Compare(left=t.left, ops=[InvertIf.NEG[type(t.ops[0])]()], comparators=t.comparators)
    return ast.UnaryOp(op=ast.Not(), operand=t)


class WhileTrue(ast.NodeTransformer):
    """`while c: BODY` (no else, c not a constant) -> `while True:` / `if not c: break` / BODY"""
    def visit_While(self, n):
        self.generic_visit(n)
        if not n.orelse and not isinstance(n.test, ast.Constant):
            brk = ast.copy_location(ast.If(test=_negate(n.test), body=[ast.copy_location(ast.Break(), n)], orelse=[]), n)
            return ast.copy_location(ast.While(test=ast.Constant(value=True), body=[brk] + n.body, orelse=[]), n)
        return n


class EarlyContinue(ast.NodeTransformer):
    """last statement of a for/while body is `if c: BODY` (no else, BODY longer than one statement) -> `if not c: continue` / BODY"""
    def _loop(self, n):
        self.generic_visit(n)
        last = n.body[-1] if n.body else None
        if isinstance(last, ast.If) and not last.orelse and len(last.body) > 1:
            guard = ast.copy_location(ast.If(test=_negate(last.test), body=[ast.copy_location(ast.Continue(), last)], orelse=[]), last)
            n.body = n.body[:-1] + [guard] + last.body
        return n
    visit_For = visit_While = _loop


class MergeAnd(ast.NodeTransformer):
    """`if a:` whose whole body is `if b: BODY` (neither has an else) -> `if a and b: BODY`"""
    def visit_If(self, n):
        self.generic_visit(n)
        if not n.orelse and len(n.body) == 1 and isinstance(n.body[0], ast.If) and not n.body[0].orelse \
                and not any(isinstance(x, ast.NamedExpr) for x in ast.walk(n.test)):
            inner = n.body[0]
            vals = (n.test.values if isinstance(n.test, ast.BoolOp) and isinstance(n.test.op, ast.And) else [n.test]) + \
                   (inner.test.values if isinstance(inner.test, ast.BoolOp) and isinstance(inner.test.op, ast.And) else [inner.test])
            return ast.copy_location(ast.If(test=ast.BoolOp(op=ast.And(), values=vals), body=inner.body, orelse=[]), n)
        return n


class ReturnNone(ast.NodeTransformer):
    """bare `return` -> `return None`"""
    def visit_Return(self, n):
        if n.value is None:
            n.value = ast.copy_location(ast.Constant(value=None), n)
        return n


class TupleAssign(_Blocks):
    """two consecutive assignments to distinct plain local names, the second value call-free and not mentioning the first name
    -> one tuple assignment `a, b = x, y` (x is evaluated before y either way; y cannot observe the binding of a)"""
    def block(self, b):
        out = []
        i = 0
        while i < len(b):
            st = b[i]
            nx = b[i + 1] if i + 1 < len(b) else None
            ok = lambda s_: isinstance(s_, ast.Assign) and len(s_.targets) == 1 and isinstance(s_.targets[0], ast.Name) and not isinstance(s_.value, (ast.Tuple, ast.Starred, ast.Yield, ast.YieldFrom, ast.Await))
            if nx is not None and ok(st) and ok(nx) and st.targets[0].id != nx.targets[0].id \
                    and not any(isinstance(x, (ast.Call, ast.Yield, ast.YieldFrom, ast.Await, ast.NamedExpr, ast.Lambda)) for x in ast.walk(nx.value)) \
                    and not any(isinstance(x, (ast.Yield, ast.YieldFrom, ast.Await, ast.NamedExpr)) for x in ast.walk(st.value)) \
                    and not any(isinstance(x, ast.Name) and x.id == st.targets[0].id for x in ast.walk(nx.value)) \
                    and not any(isinstance(x, ast.Name) and x.id == nx.targets[0].id for x in ast.walk(st.value)):
                out.append(ast.copy_location(ast.Assign(targets=[ast.Tuple(elts=[st.targets[0], nx.targets[0]], ctx=ast.Store())], value=ast.Tuple(elts=[st.value, nx.value], ctx=ast.Load()), lineno=st.lineno), st))
                i += 2
                continue
            out.append(st)
            i += 1
        return out

    def visit_ClassDef(self, c):
        for i, st in enumerate(c.body):
            if isinstance(st, (ast.FunctionDef, ast.AsyncFunctionDef, ast.ClassDef)):
                c.body[i] = self.visit(st)
        return c

    def visit_Module(self, m):
        for i, st in enumerate(m.body):
            if isinstance(st, (ast.FunctionDef, ast.AsyncFunctionDef, ast.ClassDef)):
                m.body[i] = self.visit(st)
        return m


class DeMorganRev(ast.NodeTransformer):
    """`not a or not b` -> `not (a and b)`;  `not a and not b` -> `not (a or b)`  (same evaluation order and short-circuit)"""
    def visit_BoolOp(self, n):
        self.generic_visit(n)
        if len(n.values) >= 2 and all(isinstance(v, ast.UnaryOp) and isinstance(v.op, ast.Not) for v in n.values):
            flip = ast.And() if isinstance(n.op, ast.Or) else ast.Or()
            return ast.copy_location(ast.UnaryOp(op=ast.Not(), operand=ast.BoolOp(op=flip, values=[v.operand for v in n.values])), n)
        return n


class IfToIfExp(_Blocks):
    """`if c: x = a` / `else: x = b` -> `x = a if c else b`;  `if c: return a` followed by `return b` -> `return a if c else b`"""
    def block(self, b):
        out = []
        i = 0
        one = lambda body: len(body) == 1 and isinstance(body[0], ast.Assign) and len(body[0].targets) == 1 and isinstance(body[0].targets[0], ast.Name) \
            and not any(isinstance(x, (ast.Yield, ast.YieldFrom, ast.Await, ast.NamedExpr)) for x in ast.walk(body[0].value))
        while i < len(b):
            st = b[i]
            if isinstance(st, ast.If) and not any(isinstance(x, (ast.NamedExpr, ast.Yield, ast.YieldFrom, ast.Await)) for x in ast.walk(st.test)):
                if st.orelse and one(st.body) and one(st.orelse) and st.body[0].targets[0].id == st.orelse[0].targets[0].id:
                    out.append(ast.copy_location(ast.Assign(targets=st.body[0].targets, value=ast.IfExp(test=st.test, body=st.body[0].value, orelse=st.orelse[0].value), lineno=st.lineno), st))
                    i += 1
                    continue
                if not st.orelse and len(st.body) == 1 and isinstance(st.body[0], ast.Return) and st.body[0].value is not None and i + 1 < len(b) \
                        and isinstance(b[i + 1], ast.Return) and b[i + 1].value is not None \
                        and not any(isinstance(x, (ast.Yield, ast.YieldFrom, ast.Await)) for r_ in (st.body[0], b[i + 1]) for x in ast.walk(r_)):
                    out.append(ast.copy_location(ast.Return(value=ast.IfExp(test=st.test, body=st.body[0].value, orelse=b[i + 1].value)), st))
                    i += 2
                    continue
            out.append(st)
            i += 1
        return out


class CompToLoop(ast.NodeTransformer):
    """inside functions: `x = [E for v in IT if C...]` -> `acc__N = []` / `for v in IT: if C: acc__N.append(E)` / `x = acc__N`
    (one generator, plain Name loop variable that occurs nowhere else in the function, no nested scopes in E/C that could capture it)"""
    def __init__(self):
        self.n = 0

    def visit_FunctionDef(self, fn):
        self.generic_visit(fn)
        names = {}
        for x in ast.walk(fn):
            if isinstance(x, ast.Name):
                names[x.id] = names.get(x.id, 0) + 1
            elif isinstance(x, ast.arg):
                names[x.arg] = names.get(x.arg, 0) + 1
        outer = self

        class R(_Blocks):
            def block(self_, b):
                out = []
                for st in b:
                    v = st.value if isinstance(st, ast.Assign) and len(st.targets) == 1 else None
                    if isinstance(v, ast.ListComp) and len(v.generators) == 1 and not v.generators[0].is_async and isinstance(v.generators[0].target, ast.Name) \
                            and isinstance(st.targets[0], (ast.Name, ast.Attribute)) \
                            and not any(isinstance(x, (ast.Lambda, ast.ListComp, ast.SetComp, ast.DictComp, ast.GeneratorExp, ast.Yield, ast.YieldFrom, ast.Await, ast.NamedExpr)) for part in [v.elt, *v.generators[0].ifs, v.generators[0].iter] for x in ast.walk(part)):
                        var = v.generators[0].target.id
                        inside = sum(1 for x in ast.walk(v) if isinstance(x, ast.Name) and x.id == var)
                        if names.get(var, 0) == inside:
                            outer.n += 1
                            acc = f"acc__{outer.n}"
                            body = [ast.Expr(value=ast.Call(func=ast.Attribute(value=ast.Name(id=acc, ctx=ast.Load()), attr="append", ctx=ast.Load()), args=[v.elt], keywords=[]))]
                            for c in reversed(v.generators[0].ifs):
                                body = [ast.If(test=c, body=body, orelse=[])]
                            out.append(ast.copy_location(ast.Assign(targets=[ast.Name(id=acc, ctx=ast.Store())], value=ast.List(elts=[], ctx=ast.Load()), lineno=st.lineno), st))
                            out.append(ast.copy_location(ast.For(target=ast.Name(id=var, ctx=ast.Store()), iter=v.generators[0].iter, body=body, orelse=[], lineno=st.lineno), st))
                            out.append(ast.copy_location(ast.Assign(targets=st.targets, value=ast.Name(id=acc, ctx=ast.Load()), lineno=st.lineno), st))
                            continue
                    out.append(st)
                return out

            def visit_FunctionDef(self_, inner):
                return inner if inner is not fn else _Blocks.generic_visit(self_, inner)
            visit_AsyncFunctionDef = visit_FunctionDef
            visit_ClassDef = lambda self_, c: c
        R().visit(fn)
        return fn
    visit_AsyncFunctionDef = visit_FunctionDef


class CondTemp(ast.NodeTransformer):
    """inside functions: `if E: ...` (a statement of a block, not an `elif`) with E a comparison / boolean operation / call
    -> `cond__N = E` / `if cond__N: ...`"""
    def __init__(self):
        self.n = 0

    def visit_FunctionDef(self, fn):
        self.generic_visit(fn)
        outer = self

        class R(_Blocks):
            def block(self_, b):
                out = []
                for st in b:
                    if isinstance(st, ast.If) and isinstance(st.test, (ast.Compare, ast.BoolOp, ast.Call)) and not any(isinstance(x, (ast.NamedExpr, ast.Yield, ast.YieldFrom, ast.Await)) for x in ast.walk(st.test)):
                        outer.n += 1
                        c = f"cond__{outer.n}"
                        out.append(ast.copy_location(ast.Assign(targets=[ast.Name(id=c, ctx=ast.Store())], value=st.test, lineno=getattr(st, "lineno", 1)), st))
                        st.test = ast.copy_location(ast.Name(id=c, ctx=ast.Load()), st)
                    out.append(st)
                return out

            def generic_visit(self_, node):
                # an `elif` is the sole statement of an orelse list: do not treat it as a block statement
                ast.NodeTransformer.generic_visit(self_, node)
                for fld in ("body", "orelse", "finalbody"):
                    blk = getattr(node, fld, None)
                    if isinstance(blk, list) and blk and isinstance(blk[0], ast.stmt):
                        if fld == "orelse" and isinstance(node, ast.If) and len(blk) == 1 and isinstance(blk[0], ast.If):
                            continue
                        setattr(node, fld, self_.block(blk))
                return node

            def visit_FunctionDef(self_, inner):
                return inner if inner is not fn else self_.generic_visit(inner)
            visit_AsyncFunctionDef = visit_FunctionDef
            visit_ClassDef = lambda self_, c: c
        R().visit(fn)
        return fn
    visit_AsyncFunctionDef = visit_FunctionDef


class IfExpToIf(_Blocks):
    """`x = a if c else b` -> `if c: x = a` / `else: x = b`;  `return a if c else b` -> `if c: return a` / `return b`"""
    def block(self, b):
        out = []
        for st in b:
            if isinstance(st, ast.Assign) and len(st.targets) == 1 and isinstance(st.targets[0], ast.Name) and isinstance(st.value, ast.IfExp):
                v = st.value
                out.append(ast.copy_location(ast.If(test=v.test, body=[ast.copy_location(ast.Assign(targets=st.targets, value=v.body, lineno=st.lineno), st)],
                                                    orelse=[ast.copy_location(ast.Assign(targets=[ast.Name(id=st.targets[0].id, ctx=ast.Store())], value=v.orelse, lineno=st.lineno), st)]), st))
            elif isinstance(st, ast.Return) and isinstance(st.value, ast.IfExp):
                v = st.value
                out.append(ast.copy_location(ast.If(test=v.test, body=[ast.copy_location(ast.Return(value=v.body), st)], orelse=[]), st))
                out.append(ast.copy_location(ast.Return(value=v.orelse), st))
            else:
                out.append(st)
        return out

    def visit_ClassDef(self, c):
        # class-level statements keep their form (dataclass field defaults etc.); methods are visited
        for i, st in enumerate(c.body):
            if isinstance(st, (ast.FunctionDef, ast.AsyncFunctionDef, ast.ClassDef)):
                c.body[i] = self.visit(st)
        return c


class ChainSplit(ast.NodeTransformer):
    """`a OP b OP c` with a side-effect-free middle operand (name / attribute path / constant) -> `a OP b and b OP c`"""
    def visit_Compare(self, n):
        self.generic_visit(n)
        if len(n.ops) == 2:
            mid = n.comparators[0]
            pure = lambda e: isinstance(e, (ast.Name, ast.Constant)) or (isinstance(e, ast.Attribute) and pure(e.value))
            if pure(mid) and isinstance(mid, (ast.Name, ast.Constant)):
                import copy
                return ast.copy_location(ast.BoolOp(op=ast.And(), values=[ast.Compare(left=n.left, ops=[n.ops[0]], comparators=[mid]),
                                                                           ast.Compare(left=copy.deepcopy(mid), ops=[n.ops[1]], comparators=[n.comparators[1]])]), n)
        return n


def main():
    mode, dest = sys.argv[1], sys.argv[2]
    shutil.rmtree(f"{dest}/happysimulator", ignore_errors=True)
    os.makedirs(dest, exist_ok=True)
    shutil.copytree("/repo/happysimulator", f"{dest}/happysimulator", ignore=shutil.ignore_patterns("__pycache__"))
    n = 0
    known = {'reformat', 'rename-locals', 'flip-compare', 'aug-expand', 'invert-if', 'all', 'split-and', 'else-wrap', 'else-unwrap', 'ret-temp', 'swap-minmax', 'swap-early-return', 'all2', 'comp-to-loop', 'cond-temp', 'ifexp-to-if', 'chain-split', 'all3', 'while-true', 'early-continue', 'merge-and', 'return-none', 'all4', 'tuple-assign', 'demorgan-rev', 'all5', 'if-to-ifexp'}
    if mode not in known:
        sys.exit(f'unknown mode {mode}')
    for dp, _, fs in os.walk(f"{dest}/happysimulator"):
        for f in fs:
            if not f.endswith(".py"):
                continue
            p = os.path.join(dp, f)
            src = open(p, encoding="utf-8").read()
            t = ast.parse(src)
            if mode == "rename-locals":
                t = TopFuncs().visit(t)
            elif mode == "flip-compare":
                t = Flip().visit(t)
            elif mode == "aug-expand":
                t = AugExpand().visit(t)
            elif mode == "invert-if":
                t = InvertIf().visit(t)
            elif mode == "split-and":
                t = SplitAnd().visit(t)
            elif mode == "else-wrap":
                t = ElseWrap().visit(t)
            elif mode == "else-unwrap":
                t = ElseUnwrap().visit(t)
            elif mode == "ret-temp":
                t = RetTemp().visit(t)
            elif mode == "swap-minmax":
                t = SwapMinMax().visit(t)
            elif mode == "swap-early-return":
                t = SwapEarlyReturn().visit(t)
            elif mode == "comp-to-loop":
                t = CompToLoop().visit(t)
            elif mode == "cond-temp":
                t = CondTemp().visit(t)
            elif mode == "ifexp-to-if":
                t = IfExpToIf().visit(t)
            elif mode == "chain-split":
                t = ChainSplit().visit(t)
            elif mode == "while-true":
                t = WhileTrue().visit(t)
            elif mode == "early-continue":
                t = EarlyContinue().visit(t)
            elif mode == "merge-and":
                t = MergeAnd().visit(t)
            elif mode == "return-none":
                t = ReturnNone().visit(t)
            elif mode == "tuple-assign":
                t = TupleAssign().visit(t)
            elif mode == "demorgan-rev":
                t = DeMorganRev().visit(t)
            elif mode == "if-to-ifexp":
                t = IfToIfExp().visit(t)
            elif mode == "all5":
                t = DeMorganRev().visit(TupleAssign().visit(t))
            elif mode == "all4":
                t = ReturnNone().visit(MergeAnd().visit(EarlyContinue().visit(WhileTrue().visit(t))))
            elif mode == "all3":
                t = ast.fix_missing_locations(ChainSplit().visit(IfExpToIf().visit(CompToLoop().visit(t))))
                t = CondTemp().visit(t)
            elif mode == "all2":
                t = RetTemp().visit(SwapMinMax().visit(ElseWrap().visit(SplitAnd().visit(t))))
            elif mode == "all":
                t = InvertIf().visit(AugExpand().visit(Flip().visit(TopFuncs().visit(t))))
            ast.fix_missing_locations(t)
            out = ast.unparse(t) + "\n"
            compile(out, p, "exec")
            open(p, "w", encoding="utf-8").write(out)
            n += 1
    print(f"{mode}: rewrote {n} modules under {dest}")


main()
