#!/venv/bin/python
"""Whole-tree mechanical refactorings (tools/auto_refactor.py), each applied to a scratch copy of /repo/happysimulator, then all 20 quick
checks run on the copy.  Every check must exit 0 with no FAIL line: the refactorings preserve behaviour (the repository's own test suite
passes on each rewritten tree — recorded in refactors/MASS_RESULTS.md), so any report would be a false alarm.

usage: run_mass_refactors.py [mode ...]      (default: all modes)
"""
import json, os, shutil, subprocess, sys
from concurrent.futures import ThreadPoolExecutor

HERE = os.path.dirname(os.path.dirname(os.path.abspath(__file__)))
MODES = ["reformat", "rename-locals", "flip-compare", "aug-expand", "invert-if", "all", "split-and", "else-wrap", "else-unwrap", "ret-temp", "comp-to-loop", "cond-temp", "ifexp-to-if", "chain-split", "all3", "while-true", "early-continue", "merge-and", "return-none", "all4", "tuple-assign", "demorgan-rev", "all5", "if-to-ifexp",
         "swap-minmax", "swap-early-return", "all2"]
PROPS = [f"C{i:02d}" for i in range(1, 21)]


def sh(cmd):
    return subprocess.run(cmd, shell=True, capture_output=True, text=True)


def main():
    modes = sys.argv[1:] or MODES
    res = {}
    for m in modes:
        root = f"/tmp/massref_{os.getpid()}_{m}"
        ev = root + "_ev"
        r = sh(f"/venv/bin/python {HERE}/tools/auto_refactor.py {m} {root}")
        if r.returncode:
            res[m] = {"error": r.stderr[-400:]}
            continue

        def one(p):
            c = sh(f"cd {HERE} && /venv/bin/python check.py {p} --tier quick --no-selftest --root {root} --evidence-dir {ev}")
            fails = [ln.strip()[:200] for ln in c.stdout.splitlines() if ln.strip().startswith("FAIL ")]
            return p, c.returncode, fails
        with ThreadPoolExecutor(10) as ex:
            out = list(ex.map(one, PROPS))
        bad = {p: {"exit": rc, "fails": f} for p, rc, f in out if rc != 0 or f}
        res[m] = {"alarms": bad}
        print(m, "silent" if not bad else f"FALSE ALARMS in {sorted(bad)}", flush=True)
        shutil.rmtree(root, ignore_errors=True)
        shutil.rmtree(ev, ignore_errors=True)
    ok = sum(1 for v in res.values() if not v.get("alarms") and "error" not in v)
    print(f"{ok}/{len(res)} whole-tree refactorings silent on all 20 checks")
    json.dump(res, open(f"{HERE}/refactors/MASS_RESULTS.json", "w"), indent=1, sort_keys=True)
    with open(f"{HERE}/refactors/MASS_RESULTS.md", "w") as fh:
        fh.write("# Whole-tree mechanical refactorings (tools/auto_refactor.py)\n\n"
                 "Each mode rewrites all 246 modules of a scratch copy; the repository's 3002 tests pass on every rewritten tree (checked once by hand "
                 "with `PYTHONPATH=<copy> pytest tests`).  All 20 quick checks must stay silent.\n\n| mode | result |\n|---|---|\n")
        for m, v in res.items():
            fh.write(f"| {m} | {'silent' if not v.get('alarms') and 'error' not in v else 'FALSE ALARMS: ' + json.dumps(v)[:300]} |\n")
    return 0 if ok == len(res) else 1


sys.exit(main())
