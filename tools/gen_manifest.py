#!/venv/bin/python
"""Regenerates /verif/MANIFEST.json from the table below + the rule packs present."""
import json
import os
import sys

HERE = os.path.dirname(os.path.dirname(os.path.abspath(__file__)))
sys.path.insert(0, HERE)

CLAIMS = {
    # id: (technique, level text, level note, design ref)
    "C01": ("decision tables over orderings + CFG path rules on both event loops + heap/counter pairing + index provenance",
            "Structural necessary conditions of exactly-once, time-ordered, FIFO-tie delivery are decided on every path of the engine core: "
            "ordering dunders tabulated over all orderings, clock monotone and equal to the event time at delivery, cancel/past/deliver "
            "trichotomy with produced events pushed exactly once, auto-termination test, horizon guard, single tie-break index domain. "
            "It decides the shape of the code for all inputs/schedules, not the run-time behaviour as a whole.",
            "Trusted: CPython heapq, cooperative scheduling (handlers atomic between yields), the rule pack's reading of which statements are 'core'.",
            "DESIGN.md §5 C01"),
    "C02": ("constructor-keyword provenance + per-path return discipline (feasible-path enumeration) + latch/ordering dataflow on SimFuture",
            "Structural necessary conditions of process/future semantics decided on every path of ProcessContinuation.invoke, Event.invoke and "
            "SimFuture: the continuation carries the same generator/hooks/context and time = self.time + yielded delay (or the fresh clock "
            "on future resumption); each path returns exactly what it must (park | side effects + continuation | value + hooks once); "
            "hook list and callbacks are one-shot; resolve() is a latch; any_of/all_of index/count bookkeeping.",
            "Trusted: CPython generator protocol; that a pushed continuation is delivered once (C01).",
            "DESIGN.md §5 C02"),
    "C03": ("whole-package source-provenance scan with forward taint to order/time/placement sinks + set-iteration consumer classification",
            "Locates every process-dependent source (builtin hash, uuid/entropy, wall clock, id(), unseedable RNG) in the simulation-relevant "
            "packages and follows it to order/time/placement sinks; classifies every iteration over a str-capable set by its consumer; checks "
            "counter reset and active-context scoping. Decides that no such source can influence deliveries — not that seeded RNG streams repeat.",
            "Trusted: stdlib random/numpy reproducibility under seeding; dict insertion order; the sink/source vocabularies of the rule pack.",
            "DESIGN.md §5 C03"),
    "C04": ("sibling agreement of the two event loops by core-effect skeleton per feasible path + observer purity + pause/step protocol path rules",
            "The instrumented and fast loops are compared by their per-iteration core-effect sequences (after helper inlining, alias resolution, "
            "observer deletion) and loop guards; every observer entry point and tracing block is shown effect-free on engine state; the "
            "pause/step/breakpoint protocol and reset re-priming are decided on every path.",
            "Trusted: classification of observer vs core statements in the rule pack; user callbacks are pure.",
            "DESIGN.md §5 C04"),
    "C05": ("path rules on router / barrier exchange (exactly-one-of), guard dominance of min-latency and window validation, barrier ordering dataflow",
            "Necessary conditions of conservative synchronisation decided statically: window horizon, router exactly-one-of {local, outbox, error}, "
            "exchange schedules each entry once after min-latency validation and clears the outbox, window <= min latency validated before build, "
            "all partitions joined before exchange, per-partition clock/heap ownership.",
            "Trusted: ThreadPoolExecutor semantics; user-declared links are truthful.",
            "DESIGN.md §5 C05"),
    "C07": ("suspension-aware reaching-definitions over every generator (stale time values / stale event objects) + zero-delay wait-loop detector",
            "For every function of the simulation-relevant packages: no emission timestamp is a time value (or an event object stamped with one) "
            "captured before a clock-advancing suspension and handed to the engine after it; no `now - x` timestamps; no wait loop whose only "
            "suspensions are constant-zero delays. Decides these shapes on all paths; does not bound run-time delays.",
            "Trusted: configured latencies are non-negative; zero-delay yields cannot advance the clock.",
            "DESIGN.md §5 C07"),
    "C06": ("sibling agreement of crash checks over the Event hierarchy + closure-write classification of every fault (composability) + helper shape rules + handle coverage",
            "Decides on the source that every invoke consults the crash flag before dispatch, that no fault closure uses a boolean/absolute/"
            "set-difference restore (only counted, layered or recomputed-from-active-set forms), that the bookkeeping helpers have the shape "
            "that makes overlapping windows compose and keeps held+available==capacity, that activation/deactivation are inverse, and that "
            "handles record and cancel exactly their events.",
            "Trusted: fault closures run atomically; exact instants are user-supplied.",
            "DESIGN.md §5 C06"),
    "C09": ("guard-dominance table (must-facts with kills at writes/calls/suspensions, preconditions at call sites) + wake-loop path rules + future-wiring of blocking waits",
            "Every capacity-taking statement of every primitive is dominated by the comparison proving its bound, every return is bounded or "
            "clamped, wake loops remove exactly the head waiter they wake and stop at the first that does not fit, blocked callers park on "
            "a SimFuture wired to their waiter's callback, the connection pool reserves its slot before suspending.",
            "Trusted: handlers atomic between suspension points; SimFuture semantics (C02).",
            "DESIGN.md §5 C09"),
    "C08": ("sibling contract over all queue policies by feasible-path enumeration (insert/remove ↔ counters ↔ verdict), ordering-key shape, notify/poll protocol, acquire/release pairing on all exits",
            "Decides for every QueuePolicy implementation, the Queue entity, the QueueDriver and the server variants that every path keeps "
            "the conservation invariant enqueued = dequeued + dropped + held, inserts only under the capacity test, orders by the declared key, "
            "notifies iff empty-before-push, delivers exactly what it pops, and releases exactly what it acquired on every exit.",
            "Trusted: heapq order; atomic handlers; fairness/drop laws are numeric and not decided.",
            "DESIGN.md §5 C08"),
    "C10": ("guard dominance + predicate agreement of time_until_available with try_acquire over all policies + exactly-once path rules of the rate-limited entities",
            "Decides that each policy admits only under its bound test after refreshing, that levels/rates are only written clamped, that "
            "time_until_available returns zero only under try_acquire's admit predicate and otherwise a provably non-zero wait, and that "
            "RateLimitedEntity/Inductor forward, queue or drop each request exactly once in arrival order with a single outstanding poll.",
            "Trusted: exact nanosecond arithmetic of Duration/Instant; positive rates. Interval bounds themselves are numeric and not decided.",
            "DESIGN.md §5 C10"),
    "C11": ("guard-dominance / feasible-path rules over every Raft handler + monotone-write rules + RPC schema agreement",
            "Decides that each Raft handler obeys the guard discipline the safety proofs rest on (vote rule, one vote per term, monotone term/"
            "commit/applied, current-term quorum commit, prev-log check before append, conflict-only truncation, CANDIDATE+quorum leadership, "
            "verified-prefix match_index, future purge on truncation). The safety theorems over histories are NOT decided.",
            "Trusted: handlers atomic (checked); network delivers payloads unchanged.",
            "DESIGN.md §5 C11"),
    "C12": ("guard-dominance / feasible-path rules over acceptor, proposer and learner state writes in the three Paxos variants + dead-information and schema agreement",
            "Decides rule conformance: ballot order, non-decreasing promised ballot, accept only at/above promise, once-per-ballot quorum step, "
            "highest-accepted value selection, write-once decision, intersecting flexible quorums, consumed promise contents, leader change "
            "only with a larger term, read-then-increment fencing tokens. Agreement/validity/termination as theorems are NOT decided.",
            "Trusted: handlers atomic (checked).",
            "DESIGN.md §5 C12"),
    "C13": ("typestate check of every write to MemberInfo.state / incarnation under must-facts + protocol schema agreement",
            "Decides only the member-state machine clause: →SUSPECT from ALIVE, →DEAD from SUSPECT or by not-older gossip, →ALIVE only on direct "
            "evidence from SUSPECT or with a strictly higher incarnation; incarnations only grow. The accuracy/completeness/phi clauses are "
            "numeric timing statements and are not decided by this family.",
            "Trusted: handlers atomic (checked).",
            "DESIGN.md §5 C13"),
    "C14": ("CFG must-order + path enumeration over the read/compaction/flush/transaction code of the storage engines (newest-first lookup, publish-before-retire, live-iteration, tombstone retention, commit conflict guards)",
            "Decides the structural clauses: lookups consult memtable → immutables (newest first) → levels in order and stop at the first hit incl. tombstones; "
            "compaction/flush publish their output before retiring inputs with no suspension in between; no suspension while iterating a live container; "
            "tombstones are dropped only at the bottom level; commit validates before applying; B-tree/KV delete and put are siblings. "
            "Does not decide that arbitrary interleavings of operations yield the model map (behavioural).",
            "Trusted: handlers atomic (checked).",
            "DESIGN.md §5 C14"),
    "C15": ("CFG must-order over WAL append / LSM put, delete, flush, crash, recover (sync-before-durable, write-ahead, bound-before-suspension, crash-epoch check) + filter-predicate tables",
            "Decides the ordering clauses: an entry is declared durable only after its own sync suspension and under the policy; crash keeps exactly sequence <= synced_up_to; "
            "truncate removes only a prefix whose bound was fixed before the flush suspended and excludes in-flight appends; a flush suspended across a crash does nothing; "
            "recovery replays in sequence order through the overwrite-only put. Does not enumerate crash points dynamically.",
            "Trusted: WAL latencies constant per log; handlers atomic (checked).",
            "DESIGN.md §5 C15"),
    "C16": ("CFG path enumeration + must-facts over every cache insertion, cache-dict mutation, dirty-mark removal, fill site and served entry; sibling agreement over the nine eviction policies",
            "Decides the structural clauses: a new key is stored only in the atomic step after an evict-until-fits loop (CachedStore, SoftTTLCache, PageCache); "
            "cache dict and policy/LRU bookkeeping are changed together and every policy's on_remove/clear/evict covers the containers its on_insert/on_access fill; "
            "a dirty mark or dirty page is dropped only after its data was written (re-validated after a suspension); a value fetched across a suspension is installed "
            "only under the re-checks the code's write order requires; SoftTTLCache.get returns an entry only after is_fresh/is_valid on a current clock. "
            "Does not decide hit rates or numeric staleness bounds.",
            "Trusted: KVStore get/put atomic at return (C14-8); handlers atomic (checked).",
            "DESIGN.md §5 C16"),
    "C17": ("CFG path enumeration per reply/ack site and replication mode; must-facts at every apply and version-table write; idiom recogniser for the three vector-clock dominance routines",
            "Decides the ordering clauses: the primary replies only after its own store write and the waits its mode promises (all_of / any_of over one fresh future per backup); a backup / chain node "
            "acks or forwards only after applying (or waiting out a newer write); replicated writes are applied only if newer per key and recorded before the store write suspends; "
            "the chain head replies only after the tail's ack; CRAQ dirty-before-apply, clean-after-commit per write, reads re-check after their suspension; multi-leader version table written "
            "before the store write, only for first/dominating/resolver-chosen versions read in the same step; dominance routines agree; LWW is a total order. "
            "Convergence at quiescence as a theorem is not decided.",
            "Trusted: constant store write latency; handlers atomic (checked).",
            "DESIGN.md §5 C17"),
    "C18": ("decision tables by abstract evaluation of the clock methods over all input orderings; lattice-shape (join operator / purity / inflation) checks of every CRDT merge and mutator; to_dict/from_dict schema agreement",
            "Decides the algebraic-shape clauses: Lamport/HLC updates end strictly above the local and the received timestamp for every ordering of their inputs (297 cases); "
            "vector receive = element-wise max + own tick, happened_before = ∀≤ ∧ ∃<; each CRDT merge is the component-wise join (max / union / tombstone union / greater timestamp), pure in its argument, "
            "every mutator inflates, equality and value read the joined state; to_dict/from_dict agree on keys, carry every slot and apply no lossy conversion; CRDTStore merges only through merge() "
            "under its own replica identity. The vector-clock iff direction over real histories and the numeric clock-skew models are not decided.",
            "Trusted: node ids distinct; handlers atomic (checked).",
            "DESIGN.md §5 C18"),
    "C19": ("CFG path tables over every MessageQueue transition (which containers each path touches), must-order/atomicity of the moves, loop-shape checks of the assignment strategies, context-key schema agreement",
            "Decides the structural clauses: the queue's containers change only in five transition methods and each path moves a message between exactly two accounting places in one step; "
            "poll takes the left end of a queue publish appends to on the right; the redelivery limit is compared complementarily at both sites; an id no longer stored is never delivered; "
            "Topic.publish snapshots subscribers before suspending and emits one event per snapshot entry; record offset = high watermark then increment, by _do_append only; retention keeps order; "
            "commits are max(old,new); rebalance replaces the whole table from sorted current members; each strategy places each partition once; convenience generators and handlers agree on context keys. "
            "End-to-end at-least-once and StickyAssignment's induction over calls are not decided.",
            "Trusted: message ids unique; handlers atomic (checked).",
            "DESIGN.md §5 C19"),
    "C20": ("sibling agreement of update/query index computation, one-way write check of every cell write, merge-guard ⊇ parameters the index helper transitively reads, path tables of TopK.add, must-facts at every 'no difference' return of the Merkle diff",
            "Decides the structural clauses: Bloom/Count-Min add and query index alike through one hashlib-based helper; cells only |= / += non-negative / max and queries aggregate with all-bits / min; "
            "merge is guarded by every parameter the index depends on (incl. seeds) and combines the whole array cell-wise, totals added; TopK.add is the three-case space-saving update; "
            "t-digest maintains min/max, clamps merged means and answers q=0/1 with min/max; the reservoir only grows below capacity and merges to min(k, n); Merkle diff is empty only on equal hashes, "
            "leaf hash covers key and value, the root is rebuilt after every change. Numeric accuracy, t-digest monotonicity in q and reservoir uniformity are not decided.",
            "Trusted: sha256 collision-free; repr(item) identifies the item.",
            "DESIGN.md §5 C20"),
}

NOT_YET = "rule pack not built yet in this session (see DESIGN.md §11); no check is claimed for it"


def main():
    props = [json.loads(l)["id"] for l in open(os.path.join(HERE, "properties.jsonl"))]
    checks = []
    na = []
    extra_na = {}
    na_path = os.path.join(HERE, "tools", "not_applicable.json")
    if os.path.exists(na_path):
        extra_na = json.load(open(na_path))
    for pid in props:
        pack = os.path.join(HERE, "hsverif", "rules", f"{pid.lower()}.py")
        if pid in CLAIMS and os.path.exists(pack):
            tech, text, note, ref = CLAIMS[pid]
            checks.append({
                "property_id": pid,
                "quick_cmd": f"/venv/bin/python check.py {pid} --tier quick",
                "thorough_cmd": f"/venv/bin/python check.py {pid} --tier thorough",
                "evidence_file": f"/verif/evidence/{pid}.json",
                "replay_cmd_template": f"/venv/bin/python check.py {pid} --explain {{path}}",
                "engine": "hsverif",
                "level_claimed": {"category": "other", "text": text, "design_ref": ref + "; as built: DESIGN.md §12.3"},
                "level_note": note,
                "technique": "static analysis: " + tech,
            })
        else:
            na.append({"property_id": pid, "reason": extra_na.get(pid, NOT_YET)})
    man = {
        "version": 1,
        "setup_cmd": "/venv/bin/python -c \"import ast,sys; assert sys.version_info>=(3,12)\"",
        "hooks": {
            "guard": "HAPPYSIM_VERIF",
            "enable": "none needed: static analysis reads /repo's source, no instrumentation exists (guard unused)",
            "baseline_off_cmd": "cd /repo && /venv/bin/python -m pytest -ra -q -p no:cacheprovider --timeout=900 --continue-on-collection-errors",
            "source_commits": [],
            "add_only": True,
        },
        "engines": [{
            "name": "hsverif",
            "path": "/verif/hsverif",
            "serves_properties": [c["property_id"] for c in checks],
            "kind_free_text": "repo-specific static analyser (stdlib ast): program model + callee resolution, statement CFG, must-dataflow of branch "
                              "facts with kills at writes/calls/suspension points, feasible-path enumeration, decision tables over orderings, "
                              "effect summaries; rule packs per property",
        }],
        "checks": checks,
        "notes": "All checks are static (no happysimulator code is imported or executed). Exit 2 + ANALYSIS-ERROR means an anchor vanished "
                 "or an idiom was not understood — never a silent pass. Known genuine defects: known_findings.json.",
        "not_applicable": na,
    }
    with open(os.path.join(HERE, "MANIFEST.json"), "w") as fh:
        json.dump(man, fh, indent=1)
        fh.write("\n")
    print(f"MANIFEST.json: {len(checks)} checks, {len(na)} not_applicable")


if __name__ == "__main__":
    main()
