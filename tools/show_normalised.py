#!/venv/bin/python
"""usage: show_normalised.py <refactor-or-seed dir> <relpath> <qualname>  — print the function as the rules see it (after normalisation)"""
import os, shutil, subprocess, sys, ast
sys.path.insert(0, os.path.dirname(os.path.dirname(os.path.abspath(__file__))))
from hsverif.model import Program
d, rel, q = sys.argv[1:4]
root = "/tmp/shown_%d" % os.getpid()
os.makedirs(root)
shutil.copytree("/repo/happysimulator", f"{root}/happysimulator")
subprocess.run(f"cd {root} && patch -p1 -s < {os.path.abspath(d)}/patch.diff", shell=True, check=True)
try:
    prog = Program.load(root)
    print("# recovered", prog.locals_recovered, "helpers", prog.helpers_inlined, "temps", prog.temps_inlined)
    print(ast.unparse(prog.func(rel, q).node))
finally:
    shutil.rmtree(root, ignore_errors=True)
