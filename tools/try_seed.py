#!/venv/bin/python
"""Verify a seeded change and run the checks against it.

usage: try_seed.py <dir with patch.diff, demo.py, meta.json> [--props C01,C04] [--keep-as NAME] [--copy]
With --copy nothing in /repo is touched: the patch is applied to a scratch copy of /repo/happysimulator under /tmp (removed afterwards)
and demo and checks are pointed at it (HS_ROOT / --root).
Applies patch to /repo (must be clean), runs demo (expects exit 1), runs the quick checks of the listed properties
(default: the property in meta.json), reverts, runs demo again (expects exit 0).  With --keep-as copies the change to
/verif/seeded/NAME/ and records what was run.
"""
import json, os, shutil, subprocess, sys

def sh(cmd, **kw):
    return subprocess.run(cmd, shell=True, capture_output=True, text=True, **kw)

def main():
    d = os.path.abspath(sys.argv[1].rstrip("/"))
    props = None
    keep = None
    for i, a in enumerate(sys.argv):
        if a == "--props": props = sys.argv[i + 1].split(",")
        if a == "--keep-as": keep = sys.argv[i + 1]
    meta = json.load(open(f"{d}/meta.json"))
    props = props or [meta["property"]]
    copy = "--copy" in sys.argv
    out = {"checks": {}}
    if copy:
        root = "/tmp/seedcopy_%d" % os.getpid()
        shutil.rmtree(root, ignore_errors=True)
        os.makedirs(root)
        shutil.copytree("/repo/happysimulator", f"{root}/happysimulator")
        r = sh(f"cd {root} && patch -p1 -s < {d}/patch.diff")
    else:
        root = "/repo"
        assert sh("git -C /repo status --porcelain").stdout.strip() == "", "/repo not clean"
        r = sh(f"git -C /repo apply {d}/patch.diff")
    if r.returncode:
        print("PATCH DOES NOT APPLY", r.stderr, r.stdout); return 2
    try:
        comp = sh(f"cd {root} && /venv/bin/python -m compileall -q happysimulator")
        demo_with = sh(f"cd /tmp && HS_ROOT={root} timeout 300 /venv/bin/python {d}/demo.py")
        out["demo_with_patch"] = demo_with.returncode
        for p in props:
            c = sh(f"cd /verif && /venv/bin/python check.py {p} --tier quick --root {root} --evidence-dir /tmp/seed_ev")
            fails = [l.strip() for l in c.stdout.splitlines() if l.strip().startswith("FAIL")]
            out["checks"][p] = {"exit": c.returncode, "fails": fails[:6], "analysis_error": [l for l in c.stdout.splitlines() if "ANALYSIS-ERROR" in l][:2]}
    finally:
        if copy:
            shutil.rmtree(root, ignore_errors=True)
        else:
            sh("git -C /repo checkout -- . && git -C /repo clean -fdq happysimulator")
    demo_without = sh(f"cd /tmp && HS_ROOT=/repo timeout 300 /venv/bin/python {d}/demo.py")
    out["demo_without_patch"] = demo_without.returncode
    out["compiles"] = comp.returncode == 0
    print(json.dumps(out, indent=1))
    if keep:
        dst = f"/verif/seeded/{keep}"
        os.makedirs(dst, exist_ok=True)
        for f in ("patch.diff", "demo.py"):
            if os.path.realpath(f"{d}/{f}") != os.path.realpath(f"{dst}/{f}"):
                shutil.copy(f"{d}/{f}", dst)
        meta["verified_here"] = {"demo_with_patch_exit": out["demo_with_patch"], "demo_without_patch_exit": out["demo_without_patch"], "compiles": out["compiles"],
                                 "checks_run": {p: {"exit": v["exit"], "reported": v["fails"][:3] or v["analysis_error"]} for p, v in out["checks"].items()},
                                 "commands": ([f"cp -r /repo/happysimulator /tmp/seedcopy/ && (cd /tmp/seedcopy && patch -p1 < seeded/{keep}/patch.diff)", f"HS_ROOT=/tmp/seedcopy /venv/bin/python seeded/{keep}/demo.py",
                                               *[f"/venv/bin/python check.py {p} --tier quick --root /tmp/seedcopy" for p in props], "rm -rf /tmp/seedcopy"] if copy else
                                              [f"git -C /repo apply seeded/{keep}/patch.diff", f"HS_ROOT=/repo /venv/bin/python seeded/{keep}/demo.py",
                                               *[f"/venv/bin/python check.py {p} --tier quick" for p in props], "git -C /repo checkout -- ."])}
        json.dump(meta, open(f"{dst}/meta.json", "w"), indent=1)
    return 0

sys.exit(main())
