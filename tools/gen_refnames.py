#!/venv/bin/python
"""Regenerate hsverif/refnames.json (reference local-variable names and their binding signatures) from /repo's current tree.

Run this only on a tree on which all checks pass: the file is a naming hint for hsverif/localnames.py, not an oracle."""
import ast, json, os, sys
sys.path.insert(0, os.path.dirname(os.path.dirname(os.path.abspath(__file__))))
from hsverif import localnames

root = sys.argv[1] if len(sys.argv) > 1 else "/repo"
out = {}
for dp, dn, fs in os.walk(os.path.join(root, "happysimulator")):
    dn[:] = sorted(d for d in dn if d != "__pycache__")
    for f in sorted(fs):
        if f.endswith(".py"):
            p = os.path.join(dp, f)
            rel = os.path.relpath(p, root).replace(os.sep, "/")
            rec = localnames.record(ast.parse(open(p, encoding="utf-8").read()))
            if rec:
                out[rel] = rec
json.dump(out, open(localnames.REF_PATH, "w"), indent=0, sort_keys=True)
print(len(out), "modules,", sum(len(v) for v in out.values()), "functions,", sum(len(x) for v in out.values() for x in v.values()), "locals ->", localnames.REF_PATH)
