#!/venv/bin/python
"""Regenerate hsverif/refnames.json (reference local-variable names and their binding signatures) from /repo's current tree.

Run this only on a tree on which all checks pass: the file is a naming hint for hsverif/localnames.py, not an oracle."""
import ast, json, os, sys
sys.path.insert(0, os.path.dirname(os.path.dirname(os.path.abspath(__file__))))
from hsverif import localnames

root = sys.argv[1] if len(sys.argv) > 1 else "/repo"
out = {}
units = {}
spell = {}
for dp, dn, fs in os.walk(os.path.join(root, "happysimulator")):
    dn[:] = sorted(d for d in dn if d != "__pycache__")
    for f in sorted(fs):
        if f.endswith(".py"):
            p = os.path.join(dp, f)
            rel = os.path.relpath(p, root).replace(os.sep, "/")
            tree = ast.parse(open(p, encoding="utf-8").read())
            from hsverif import normalize
            normalize.canonical_forms(tree)  # the reference is recorded in the same canonical form the analysed tree is put into
            rec = localnames.record(tree)
            if rec:
                out[rel] = rec
            units[rel] = sorted({q for q, _ in localnames.units(tree)})
            from hsverif import normalize
            sp = {q: normalize.spelling_record(fn) for q, fn in localnames.units(tree)}
            sp = {q: v for q, v in sp.items() if v["cmp"] or v["aug"] or v["if"] or v["mm"]}
            if sp:
                spell[rel] = sp
out["__units__"] = units
out["__spellings__"] = spell
json.dump(out, open(localnames.REF_PATH, "w"), indent=0, sort_keys=True)
print(len(units), "modules,", sum(len(v) for v in units.values()), "functions ->", localnames.REF_PATH)
