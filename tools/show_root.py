#!/venv/bin/python
"""usage: show_root.py <root> <relpath> <qualname> — print a function of an arbitrary tree as the rules see it (after normalisation)"""
import os, sys, ast
sys.path.insert(0, os.path.dirname(os.path.dirname(os.path.abspath(__file__))))
from hsverif.model import Program
root, rel, q = sys.argv[1:4]
prog = Program.load(root)
print("# recovered", prog.locals_recovered, "helpers", prog.helpers_inlined, "spellings", prog.spellings_restored, "temps", prog.temps_inlined)
print(ast.unparse(prog.func(rel, q).node))
