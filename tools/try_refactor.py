#!/venv/bin/python
"""Apply a behaviour-preserving refactoring (dir with patch.diff, meta.json) to a scratch copy of /repo/happysimulator and run quick checks on it.

usage: try_refactor.py <dir> [--props C16,C14 | --all] [--keep-as NAME]
Every check must exit 0: a FAIL is a false alarm of the checker (the property still holds), to be corrected in the rule pack.
/repo is never touched.  With --keep-as the patch is copied to /verif/refactors/NAME/ with the outcome recorded in meta.json.
"""
import json, os, shutil, subprocess, sys
from concurrent.futures import ThreadPoolExecutor


def sh(cmd):
    return subprocess.run(cmd, shell=True, capture_output=True, text=True)


def main():
    d = os.path.abspath(sys.argv[1].rstrip("/"))
    meta = json.load(open(f"{d}/meta.json"))
    props = [meta["property"]]
    keep = None
    for i, a in enumerate(sys.argv):
        if a == "--props":
            props = sys.argv[i + 1].split(",")
        if a == "--all":
            props = [f"C{i:02d}" for i in range(1, 21)]
        if a == "--keep-as":
            keep = sys.argv[i + 1]
    root = "/tmp/refaccopy_%d" % os.getpid()
    shutil.rmtree(root, ignore_errors=True)
    os.makedirs(root)
    shutil.copytree("/repo/happysimulator", f"{root}/happysimulator")
    r = sh(f"cd {root} && patch -p1 -s < {d}/patch.diff")
    if r.returncode:
        print("PATCH DOES NOT APPLY", r.stdout, r.stderr)
        shutil.rmtree(root, ignore_errors=True)
        return 2
    out = {}
    try:
        comp = sh(f"cd {root} && /venv/bin/python -m compileall -q happysimulator")

        def one(p):
            c = sh(f"cd /verif && /venv/bin/python check.py {p} --tier quick --root {root} --evidence-dir /tmp/refac_ev_{os.getpid()}_{p}")
            shutil.rmtree(f"/tmp/refac_ev_{os.getpid()}_{p}", ignore_errors=True)
            lines = [l.strip() for l in c.stdout.splitlines() if l.strip().startswith(("FAIL", "ANALYSIS-ERROR"))]
            nxt = []
            for i, l in enumerate(c.stdout.splitlines()):
                if l.strip().startswith("FAIL") and i + 1 < len(c.stdout.splitlines()):
                    nxt.append(c.stdout.splitlines()[i + 1].strip()[:240])
            return p, {"exit": c.returncode, "reported": lines[:6], "detail": nxt[:6]}
        with ThreadPoolExecutor(max_workers=8) as ex:
            for p, res in ex.map(one, props):
                out[p] = res
    finally:
        shutil.rmtree(root, ignore_errors=True)
    alarms = {p: v for p, v in out.items() if v["exit"] != 0}
    print(json.dumps({"compiles": comp.returncode == 0, "false_alarms": alarms, "checked": sorted(out)}, indent=1))
    if keep:
        dst = f"/verif/refactors/{keep}"
        os.makedirs(dst, exist_ok=True)
        if os.path.realpath(f"{d}/patch.diff") != os.path.realpath(f"{dst}/patch.diff"):
            shutil.copy(f"{d}/patch.diff", dst)
        meta["verified_here"] = {"compiles": comp.returncode == 0, "checks": {p: v["exit"] for p, v in out.items()}, "false_alarms_first_seen": meta.get("verified_here", {}).get("false_alarms_first_seen", alarms) }
        json.dump(meta, open(f"{dst}/meta.json", "w"), indent=1)
    return 1 if alarms else 0


sys.exit(main())
