#!/venv/bin/python
"""Re-run every kept behaviour-preserving refactoring (refactors/<id>/patch.diff) against all 20 quick checks: every one must stay silent."""
import json, os, subprocess, sys
HERE = os.path.dirname(os.path.dirname(os.path.abspath(__file__)))
bad = 0
rows = []
from concurrent.futures import ThreadPoolExecutor


def one(d):
    p = f"{HERE}/refactors/{d}"
    r = subprocess.run(f"/venv/bin/python {HERE}/tools/try_refactor.py {p} --all", shell=True, capture_output=True, text=True)
    try:
        out = json.loads(r.stdout[r.stdout.index("{"):])
        fa = out["false_alarms"]
    except Exception:
        fa = {"?": {"reported": [r.stdout[-200:]]}}
    meta = json.load(open(f"{p}/meta.json"))
    first = meta.get("verified_here", {}).get("false_alarms_first_seen", {}) or meta.get("first_run", {}).get("alarms", {})
    print(d, "silent" if not fa else f"FALSE ALARM {sorted(fa)}", flush=True)
    return (d, meta.get("kind", ""), meta.get("where", ""), sorted(first), sorted(fa))


dirs = [d for d in sorted(os.listdir(f"{HERE}/refactors")) if os.path.isfile(f"{HERE}/refactors/{d}/patch.diff")]
with ThreadPoolExecutor(int(os.environ.get("HS_REFAC_JOBS", "3"))) as ex:
    rows = list(ex.map(one, dirs))
bad = sum(1 for r_ in rows if r_[4])
with open(f"{HERE}/refactors/RESULTS.md", "w") as fh:
    fh.write("# Behaviour-preserving refactorings: every check must stay silent\n\nWritten by sub-agents given only the property text and a scratch worktree; each keeps the 3002 tests green. "
             "`first run` lists the checks that raised a false alarm when the refactoring was first tried (each was corrected in the rule pack / normaliser).\n\n| id | kind | where | first run | now |\n|---|---|---|---|---|\n")
    for d, k, w, first, now in rows:
        fh.write(f"| {d} | {k} | {w} | {', '.join(first) or 'silent'} | {', '.join(now) or 'silent'} |\n")
print(f"{len(rows) - bad}/{len(rows)} refactorings silent on all 20 checks")
sys.exit(1 if bad else 0)
