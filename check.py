#!/venv/bin/python
"""CLI:  /venv/bin/python check.py <Cxx> [--tier quick|thorough] [--root /repo] [--explain PATH]

Exit 0: every rule instance held (or is a listed known finding).  Exit 1 + ``VIOLATION`` line: an
unlisted rule instance failed.  Exit 2 + ``ANALYSIS-ERROR``: an anchor vanished / unknown idiom /
internal error — never a silent pass.
"""

from __future__ import annotations

import argparse
import importlib
import json
import os
import sys
import time
import traceback

HERE = os.path.dirname(os.path.abspath(__file__))
sys.path.insert(0, HERE)

from hsverif import AnalysisError  # noqa: E402
from hsverif.model import Program  # noqa: E402
from hsverif.report import Ctx, finish  # noqa: E402

MIN_FILES = 240  # 246 confirmed by hand on the pinned tree


def main(argv: list[str]) -> int:
    ap = argparse.ArgumentParser()
    ap.add_argument("prop")
    ap.add_argument("--tier", default=os.environ.get("VERIF_TIER") or "quick", choices=["quick", "thorough"])
    ap.add_argument("--root", default=os.environ.get("HSVERIF_ROOT", "/repo"))
    ap.add_argument("--evidence-dir", default=None)
    ap.add_argument("--explain", default=None, help="print the violations recorded in a replay file and re-derive them")
    ap.add_argument("--no-selftest", action="store_true")
    args = ap.parse_args(argv)
    prop = args.prop.upper()
    t0 = time.time()
    try:
        if sys.version_info < (3, 12):
            raise AnalysisError("needs /venv/bin/python (>=3.12): the repository uses PEP 695 syntax")
        prog = Program.load(args.root)
        if prog.parse_failures:
            raise AnalysisError("unparseable source files: " + "; ".join(prog.parse_failures[:5]))
        if len(prog.modules) < MIN_FILES:
            raise AnalysisError(f"only {len(prog.modules)} modules parsed under {args.root}/happysimulator (< {MIN_FILES})")
        pack = importlib.import_module(f"hsverif.rules.{prop.lower()}")
        ctx = Ctx(prog, prop, args.tier)
        if args.explain:
            with open(args.explain, encoding="utf-8") as fh:
                for v in json.load(fh):
                    print(f"recorded: {v['rule']} {v['loc']} {v['key']}\n          {v['msg']}")
            print("re-deriving on the current tree:")
        ctx.guarded(pack.run)
        from hsverif import generic

        ctx.guarded(generic.run)
        if args.tier == "thorough" and not args.no_selftest and hasattr(pack, "MUTANTS"):
            from hsverif.selftest import run_selftest

            run_selftest(ctx, pack, args.root)
        return finish(ctx, explanation=pack.EXPLANATION, rule_text=pack.RULE_TEXT, not_decided=pack.NOT_DECIDED,
                      assumptions=pack.ASSUMPTIONS, t0=t0, evidence_dir=args.evidence_dir)
    except AnalysisError as exc:
        print(f"ANALYSIS-ERROR property={prop}: {exc}")
        return 2
    except Exception:  # noqa: BLE001
        traceback.print_exc()
        print(f"ANALYSIS-ERROR property={prop}: internal error (traceback above)")
        return 2


if __name__ == "__main__":
    sys.exit(main(sys.argv[1:]))
